//! Demonstration for finding C13/F1b (copy to crates/echo-wasm-abi/tests/ and run `cargo test -p echo-wasm-abi --test f1_cbor_depth_demo`).
//! 2 MiB of `0x81` (array of one element, nested) makes the recursive decoder overflow the stack: the test
//! process is killed by SIGSEGV/abort before the fix; after the fix the decoder returns a typed error.
#![allow(missing_docs)]
use echo_wasm_abi::decode_value;

#[test]
fn deeply_nested_arrays_are_a_typed_error_not_a_stack_overflow() {
    let mut bytes = vec![0x81u8; 2 * 1024 * 1024];
    bytes.push(0x00);
    assert!(decode_value(&bytes).is_err());
}
