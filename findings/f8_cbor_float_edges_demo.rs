//! Demonstration for findings F8a/F8b (C12): copy to crates/echo-wasm-abi/tests/ and run
//! `cargo test -p echo-wasm-abi --test f8_cbor_float_edges_demo`.
//!
//! F8a: the canonical CBOR encoder writes every NaN as the half-width quiet NaN `f9 7e 00`; before the fix the decoder
//!      accepted ANY half-width NaN bit pattern (`f9 7e 01`, `f9 fe 00`, ...) and normalised it: an accepted byte string
//!      that does not re-encode to itself.
//! F8b: an integral float whose magnitude does not fit a CBOR integer (>= 2^64, e.g. 1e20) was routed through the integer
//!      encoder, whose widest rung keeps only the low 64 bits: encode(v) decoded to a different value.
#![allow(clippy::unwrap_used, clippy::expect_used, missing_docs)]
use ciborium::value::Value;
use echo_wasm_abi::{decode_value, encode_value};

#[test]
fn non_canonical_half_nan_spellings_are_rejected() {
    assert!(decode_value(&[0xf9, 0x7e, 0x00]).is_ok(), "the canonical NaN spelling must stay accepted");
    for spelling in [[0xf9u8, 0x7e, 0x01], [0xf9, 0xfe, 0x00], [0xf9, 0x7c, 0x01], [0xf9, 0x7f, 0xff]] {
        if let Ok(v) = decode_value(&spelling) {
            let re = encode_value(&v).unwrap();
            panic!("{spelling:02x?} was accepted and re-encodes to {re:02x?}: two spellings of one value");
        }
    }
}

#[test]
fn integral_floats_beyond_the_integer_range_round_trip() {
    for f in [1e20f64, -1e20, 18446744073709551616.0, 3.4028234663852886e38] {
        let bytes = encode_value(&Value::Float(f)).unwrap();
        let back = decode_value(&bytes).unwrap_or_else(|e| panic!("encode({f}) = {bytes:02x?} does not decode: {e:?}"));
        let same = match &back {
            Value::Float(g) => *g == f,
            Value::Integer(i) => i128::from(*i) as f64 == f,
            _ => false,
        };
        assert!(same, "encode({f}) = {bytes:02x?} decodes to {back:?}");
        assert_eq!(encode_value(&back).unwrap(), bytes, "re-encoding differs");
    }
}
