//! Demonstration for finding C20/F5 (copy to crates/echo-cas/tests/ and run `cargo test -p echo-cas --test f5_memory_put_verified_demo`).
//! `BlobStore::put_verified` promises "Rejects if BLAKE3(bytes) != expected"; MemoryTier's fast path returned Ok(())
//! for ANY bytes once `expected` was already stored.
#![allow(missing_docs, clippy::unwrap_used)]
use echo_cas::{BlobStore, MemoryTier};

#[test]
fn put_verified_refuses_mismatching_bytes_even_when_the_hash_is_already_stored() {
    let mut store = MemoryTier::new();
    let hash = store.put(b"genuine bytes");
    let outcome = store.put_verified(hash, b"different bytes that do not hash to `hash`");
    assert!(outcome.is_err(), "mismatching bytes were accepted (Ok) because the hash was already present");
    assert_eq!(store.get(&hash).unwrap().as_ref(), b"genuine bytes");
}
