// SPDX-License-Identifier: Apache-2.0
//! Demonstration for finding F10 (C16): copy to crates/warp-core/tests/ and run
//! `cargo test -p warp-core --features native_rule_bootstrap,trusted_runtime,host_test --test f10_provenance_coordinate_demo`.
//!
//! An optic read whose coordinate is `CoordinateAt::Provenance(reference)` names one recorded commit by worldline, tick AND
//! commit hash.  Before the fix only the worldline and the tick were looked at: a reference whose commit hash names a commit
//! that this history does not contain ("unavailable history") was answered with a reading of whatever commit sits at that
//! tick — a reading of some other state instead of a typed obstruction.

#![allow(clippy::panic, clippy::unwrap_used, clippy::expect_used)]

use warp_core::{
    make_head_id, make_intent_kind, make_node_id, make_type_id, AttachmentDescentPolicy,
    CoordinateAt, EchoCoordinate, Engine, EngineBuilder, GraphStore, InboxPolicy, IngressEnvelope,
    IngressTarget, NodeRecord, ObservationService, ObserveOpticRequest, ObserveOpticResult,
    OpticAperture, OpticApertureShape, OpticCapabilityId, OpticFocus, OpticId, OpticReadBudget,
    PlaybackMode, ProjectionVersion, ProvenanceRef, ProvenanceService, ProvenanceStore, SchedulerCoordinator,
    SchedulerKind, WorldlineId, WorldlineRuntime, WorldlineState, WorldlineTick,
    WriterHead, WriterHeadKey,
};

struct Harness {
    runtime: WorldlineRuntime,
    provenance: ProvenanceService,
    engine: Engine,
    worldline_id: WorldlineId,
}

fn harness() -> Harness {
    let mut store = GraphStore::default();
    let root = make_node_id("root");
    store.insert_node(
        root,
        NodeRecord {
            ty: make_type_id("world"),
        },
    );
    let engine = EngineBuilder::new(store, root)
        .scheduler(SchedulerKind::Radix)
        .workers(1)
        .build();
    let worldline_id = WorldlineId::from_bytes(*engine.root_key().warp_id.as_bytes());
    let state = WorldlineState::try_from(engine.state().clone()).unwrap();
    let mut runtime = WorldlineRuntime::new();
    let mut provenance = ProvenanceService::new();
    provenance.register_worldline(worldline_id, &state).unwrap();
    runtime.register_worldline(worldline_id, state).unwrap();
    runtime
        .register_writer_head(WriterHead::with_routing(
            WriterHeadKey {
                worldline_id,
                head_id: make_head_id("default"),
            },
            PlaybackMode::Play,
            InboxPolicy::AcceptAll,
            None,
            true,
        ))
        .unwrap();
    Harness {
        runtime,
        provenance,
        engine,
        worldline_id,
    }
}

fn commit(harness: &mut Harness, label: &str) {
    harness
        .runtime
        .ingest(IngressEnvelope::local_intent(
            IngressTarget::DefaultWriter {
                worldline_id: harness.worldline_id,
            },
            make_intent_kind("echo.intent/historical-witness-test"),
            label.as_bytes().to_vec(),
        ))
        .unwrap();
    SchedulerCoordinator::super_tick(
        &mut harness.runtime,
        &mut harness.provenance,
        &mut harness.engine,
    )
    .unwrap();
}

fn request_at(worldline_id: WorldlineId, at: CoordinateAt) -> ObserveOpticRequest {
    ObserveOpticRequest {
        optic_id: OpticId::from_bytes([70; 32]),
        focus: OpticFocus::Worldline { worldline_id },
        coordinate: EchoCoordinate::Worldline { worldline_id, at },
        aperture: OpticAperture {
            shape: OpticApertureShape::Head,
            budget: OpticReadBudget {
                max_bytes: Some(1024),
                max_nodes: Some(8),
                max_ticks: Some(8),
                max_attachments: Some(0),
            },
            attachment_descent: AttachmentDescentPolicy::BoundaryOnly,
        },
        projection_version: ProjectionVersion::from_raw(1),
        reducer_version: None,
        capability: OpticCapabilityId::from_bytes([71; 32]),
    }
}

#[test]
fn provenance_coordinate_naming_another_commit_is_obstructed() {
    let mut harness = harness();
    commit(&mut harness, "a");
    commit(&mut harness, "b");
    commit(&mut harness, "c");

    // the commit recorded at provenance tick 2
    let entry = harness
        .provenance
        .entry(harness.worldline_id, WorldlineTick::from_raw(2))
        .unwrap();
    let genuine = ProvenanceRef {
        worldline_id: harness.worldline_id,
        worldline_tick: WorldlineTick::from_raw(2),
        commit_hash: entry.expected.commit_hash,
    };
    let by_ref = ObservationService::observe_optic(
        &harness.runtime,
        &harness.provenance,
        &harness.engine,
        request_at(harness.worldline_id, CoordinateAt::Provenance(genuine)),
    );
    let by_tick = ObservationService::observe_optic(
        &harness.runtime,
        &harness.provenance,
        &harness.engine,
        request_at(harness.worldline_id, CoordinateAt::Tick(WorldlineTick::from_raw(2))),
    );
    let (ObserveOpticResult::Reading(by_ref), ObserveOpticResult::Reading(by_tick)) = (by_ref, by_tick) else {
        panic!("the genuine reference and the plain tick must both be readable");
    };
    assert_eq!(by_ref.payload, by_tick.payload);

    // same tick, but a commit hash this history never produced: that history is unavailable
    let foreign = ProvenanceRef {
        commit_hash: [0xAB; 32],
        ..genuine
    };
    match ObservationService::observe_optic(
        &harness.runtime,
        &harness.provenance,
        &harness.engine,
        request_at(harness.worldline_id, CoordinateAt::Provenance(foreign)),
    ) {
        ObserveOpticResult::Obstructed(_) => {}
        ObserveOpticResult::Reading(reading) => panic!(
            "a provenance coordinate naming commit ab..ab was answered with a reading of another commit \
             (payload equals the tick-2 reading: {})",
            reading.payload == by_tick.payload
        ),
    }
}
