//! F11 (C19): `Quat::from_axis_angle` guarded the squared length but divided by
//! the square root.  For a finite axis whose squared length overflows f32,
//! `det_sqrt_f32` clamps the non-finite square to 0, the function divides by
//! zero, and `Quat::new`'s debug-only assertion panics — while a release build
//! silently returns NaN/inf components.  A finite input on which the result
//! depends on the build profile.
//!
//! Place under crates/warp-math/tests/ and run
//!   cargo test --offline -p warp-math --test f11_quat_axis_overflow_demo
//!   cargo test --offline -p warp-math --test f11_quat_axis_overflow_demo --release
//! Before the fix: debug panics (quat.rs:23), release fails the finiteness check.
use warp_math::{Quat, Vec3};

#[test]
fn huge_finite_axis_yields_a_finite_quaternion_in_every_profile() {
    for axis in [
        Vec3::new(1.0e20, 0.0, 0.0),
        Vec3::new(3.0e19, 3.0e19, 3.0e19),
        Vec3::new(0.0, -f32::MAX, 0.0),
    ] {
        let q = Quat::from_axis_angle(axis, 1.0);
        let a = q.to_array();
        assert!(a.iter().all(|c| c.is_finite()), "non-finite quaternion {a:?}");
        assert_eq!(a, Quat::identity().to_array());
    }
}
