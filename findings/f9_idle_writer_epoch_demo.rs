// SPDX-License-Identifier: Apache-2.0
//! Demonstration for known finding F9 (C10): copy to crates/warp-core/tests/ and run
//! `cargo test -p warp-core --features native_rule_bootstrap,trusted_runtime,host_test --test f9_idle_writer_epoch_demo`.
//!
//! A host is opened and closed once WITHOUT committing anything (an idle writer epoch).  The next epoch starts one LSN
//! after the idle epoch's `started_at_lsn` although no frame was ever written there, so the next acknowledged
//! transaction is appended with an LSN gap; from then on every reopen fails with `LsnContinuityMismatch` and all
//! acknowledged history is unrecoverable.
#![cfg(all(
    feature = "native_rule_bootstrap",
    feature = "trusted_runtime",
    feature = "host_test"
))]
#![allow(clippy::expect_used, clippy::panic, clippy::unwrap_used)]

use std::fs;
use std::path::PathBuf;
use std::sync::atomic::{AtomicU64, Ordering};

use warp_core::{
    make_head_id, make_intent_kind, make_node_id, make_type_id, EngineBuilder, GraphStore,
    InboxPolicy, IngressEnvelope, IngressTarget, NodeRecord, PlaybackMode, SchedulerKind,
    TrustedRuntimeHost, TrustedRuntimeWalConfig,
    WorldlineId, WorldlineRuntime, WorldlineState, WriterHead, WriterHeadKey,
};

static COUNTER: AtomicU64 = AtomicU64::new(0);

fn scratch_dir(label: &str) -> PathBuf {
    let dir = std::env::temp_dir().join(format!(
        "echo-f9-{}-{}-{}",
        std::process::id(),
        label,
        COUNTER.fetch_add(1, Ordering::Relaxed)
    ));
    let _ = fs::remove_dir_all(&dir);
    fs::create_dir_all(&dir).expect("scratch dir");
    dir
}

fn empty_engine() -> warp_core::Engine {
    let mut store = GraphStore::default();
    let root = make_node_id("root");
    store.insert_node(
        root,
        NodeRecord {
            ty: make_type_id("world"),
        },
    );
    EngineBuilder::new(store, root)
        .scheduler(SchedulerKind::Radix)
        .workers(1)
        .build()
}

fn runtime() -> (WorldlineRuntime, WorldlineId) {
    let mut runtime = WorldlineRuntime::new();
    let worldline_id = WorldlineId::from_bytes([1; 32]);
    runtime
        .register_worldline(worldline_id, WorldlineState::empty())
        .expect("worldline should register");
    runtime
        .register_writer_head(WriterHead::with_routing(
            WriterHeadKey {
                worldline_id,
                head_id: make_head_id("default"),
            },
            PlaybackMode::Play,
            InboxPolicy::AcceptAll,
            None,
            true,
        ))
        .expect("writer head should register");
    (runtime, worldline_id)
}

fn fresh_host() -> (TrustedRuntimeHost, WorldlineId) {
    let (runtime, worldline_id) = runtime();
    let host =
        TrustedRuntimeHost::new(runtime, empty_engine()).expect("trusted host should initialize");
    (host, worldline_id)
}

fn envelope(worldline_id: WorldlineId, label: &str) -> IngressEnvelope {
    IngressEnvelope::local_intent(
        IngressTarget::DefaultWriter { worldline_id },
        make_intent_kind("echo.intent/eint-v1"),
        echo_wasm_abi::pack_intent_v1(6001, label.as_bytes()).expect("EINT should pack"),
    )
}

#[test]
fn idle_writer_epoch_between_two_acknowledgements_keeps_the_log_recoverable() {
    let wal_root = scratch_dir("idle-epoch");

    // epoch 1: acknowledge s1
    let (mut host, worldline_id) = fresh_host();
    host.enable_runtime_wal(TrustedRuntimeWalConfig::filesystem(&wal_root))
        .expect("first open");
    host.app()
        .submit_intent_with_runtime_wal_ack(envelope(worldline_id, "s1"))
        .expect("s1 should be acknowledged");
    drop(host);

    // epoch 2: open and close without committing anything
    let (mut idle, _) = fresh_host();
    idle.enable_runtime_wal(TrustedRuntimeWalConfig::filesystem(&wal_root))
        .expect("second (idle) open");
    drop(idle);

    // epoch 3: acknowledge s2
    let (mut host, worldline_id) = fresh_host();
    host.enable_runtime_wal(TrustedRuntimeWalConfig::filesystem(&wal_root))
        .expect("third open");
    host.app()
        .submit_intent_with_runtime_wal_ack(envelope(worldline_id, "s2"))
        .expect("s2 should be acknowledged");
    let live = host
        .runtime_wal()
        .expect("runtime WAL should be configured")
        .recover_read_only();
    drop(host);

    // every acknowledged submission must be recoverable after the stop
    let (mut restarted, _) = fresh_host();
    let reopened = restarted.enable_runtime_wal(TrustedRuntimeWalConfig::filesystem(&wal_root));
    assert!(
        live.is_ok() && reopened.is_ok(),
        "both s1 and s2 were acknowledged, yet the log is unreadable: live read-only recovery = {:?}, reopen = {:?}",
        live.as_ref().map(|_| ()),
        reopened.as_ref().map(|_| ())
    );
    assert_eq!(restarted.runtime().witnessed_submission_count(), 2);
    let _ = fs::remove_dir_all(&wal_root);
}
