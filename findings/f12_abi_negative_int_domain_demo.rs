// crates/echo-wasm-abi/tests/f12_abi_negative_int_domain_demo.rs
//! F12 (C12): the canonical ABI encoder emits every CBOR integer in [-2^64, 2^64) — and integral floats in that
//! range as integers — but the decoder narrowed negative integers to i64, so encodings of values in
//! [-2^64, -2^63) were produced by `encode_value` and then rejected by `decode_value`.
use ciborium::value::{Integer, Value};
use echo_wasm_abi::{decode_value, encode_value};

#[test]
fn negative_integers_below_i64_min_round_trip() {
    for n in [-(1i128 << 63) - 1, -(1i128 << 63) - 2048, -(1i128 << 64)] {
        let v = Value::Integer(Integer::try_from(n).unwrap());
        let bytes = encode_value(&v).unwrap();
        let back = decode_value(&bytes).expect("decoder must accept what the encoder emits");
        assert_eq!(back, v);
        assert_eq!(encode_value(&back).unwrap(), bytes);
    }
}

#[test]
fn integral_floats_below_i64_min_decode() {
    let f = -9_223_372_036_854_777_856.0_f64; // next f64 below -2^63
    let bytes = encode_value(&Value::Float(f)).unwrap();
    let back = decode_value(&bytes).expect("decoder must accept what the encoder emits");
    assert_eq!(encode_value(&back).unwrap(), bytes);
}
