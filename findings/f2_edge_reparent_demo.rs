//! Demonstration for known finding C14/F2 (copy to crates/warp-core/tests/ and run
//! `cargo test -p warp-core --features native_rule_bootstrap --test f2_edge_reparent_demo`, debug profile =
//! footprint enforcement active).
//!
//! Edge `e` initially goes A -> C.  A rule scoped at B declares the footprint
//! { n_read: B, n_write: B, e_write: e } and emits `UpsertEdge { record: { id: e, from: B, to: C } }`.
//! Enforcement accepts the tick (op_write_targets(UpsertEdge) attributes only `record.from` = B and the edge id),
//! yet the committed state has changed the outgoing adjacency of node A — a location the rewrite never declared
//! and that another rewrite may read under `n_read: A` in the same tick without any conflict being detected.
#![allow(missing_docs, clippy::unwrap_used, clippy::expect_used)]
use warp_core::{
    make_edge_id, make_node_id, make_type_id, ApplyResult, EdgeRecord, Engine, Footprint, GraphStore, GraphView,
    NodeId, NodeRecord, PatternGraph, RewriteRule, TickDelta, WarpOp,
};

const RULE: &str = "demo/reparent";

fn rule_id() -> warp_core::Hash {
    let mut h = blake3::Hasher::new();
    h.update(b"rule:");
    h.update(RULE.as_bytes());
    h.finalize().into()
}

fn matcher(view: GraphView<'_>, scope: &NodeId) -> bool {
    view.node(scope).is_some()
}

fn executor(view: GraphView<'_>, scope: &NodeId, delta: &mut TickDelta) {
    delta.emit(WarpOp::UpsertEdge {
        warp_id: view.warp_id(),
        record: EdgeRecord { id: make_edge_id("e"), from: *scope, to: make_node_id("C"), ty: make_type_id("edge") },
    });
}

fn footprint(view: GraphView<'_>, scope: &NodeId) -> Footprint {
    let w = view.warp_id();
    let mut fp = Footprint::default();
    fp.n_read.insert_with_warp(w, *scope);
    fp.n_write.insert_with_warp(w, *scope); // only the NEW source node is declared
    fp.e_write.insert_with_warp(w, make_edge_id("e"));
    fp.factor_mask = u64::MAX;
    fp
}

#[test]
fn reparenting_upsert_changes_an_undeclared_nodes_adjacency() {
    let (a, b, c, root) = (make_node_id("A"), make_node_id("B"), make_node_id("C"), make_node_id("root"));
    let mut store = GraphStore::default();
    let warp = store.warp_id();
    for n in [root, a, b, c] {
        store.insert_node(n, NodeRecord { ty: make_type_id("n") });
    }
    store.insert_edge(a, EdgeRecord { id: make_edge_id("e"), from: a, to: c, ty: make_type_id("edge") });
    let mut engine = Engine::new(store, root);
    engine
        .register_rule(RewriteRule {
            id: rule_id(),
            name: RULE,
            left: PatternGraph { nodes: Vec::new() },
            matcher,
            executor,
            compute_footprint: footprint,
            factor_mask: u64::MAX,
            conflict_policy: warp_core::ConflictPolicy::Abort,
            join_fn: None,
        })
        .unwrap();
    let before: Vec<_> = engine.state().store(&warp).unwrap().edges_from(&a).map(|e| e.id).collect();
    assert_eq!(before, vec![make_edge_id("e")]);

    let tx = engine.begin();
    assert!(matches!(engine.apply(tx, RULE, &b).unwrap(), ApplyResult::Applied));
    // footprint enforcement is active in this (debug) build: the commit succeeds, no FootprintViolation
    engine.commit(tx).expect("tick commits: enforcement saw nothing undeclared");

    let after: Vec<_> = engine.state().store(&warp).unwrap().edges_from(&a).map(|e| e.id).collect();
    assert_eq!(before, after, "FINDING REPRODUCED: node A's outgoing adjacency changed although A is in no write set of the rewrite");
}
