//! Demonstration for finding F7 (C12): copy to crates/warp-core/tests/ and run
//! `cargo test -p warp-core --features native_rule_bootstrap,trusted_runtime,host_test --test f7_strand_fork_unsorted_heads_demo`.
//!
//! `StrandForkRecord` is a log payload record with a canonical form: `to_payload_bytes` writes the writer heads in
//! `(worldline_id, head_id)` order.  Before the fix `from_payload_bytes` SORTED the decoded heads instead of rejecting an
//! unsorted list, so two different byte strings decoded to the same record and an accepted byte string did not re-encode
//! to itself ("unsorted ... rejected rather than normalised" — C12).
#![allow(clippy::unwrap_used, clippy::expect_used, missing_docs)]
use warp_core::causal_wal::StrandForkRecord;
use warp_core::strand::StrandId;
use warp_core::{HeadId, WorldlineId, WorldlineTick, WriterHeadKey};

fn h(b: u8) -> [u8; 32] {
    [b; 32]
}

#[test]
fn unsorted_writer_heads_are_rejected_not_normalised() {
    let child = WorldlineId::from_bytes(h(7));
    let record = StrandForkRecord {
        topology_intent_id: h(1),
        strand_id: StrandId::from_bytes(h(2)),
        source_worldline_id: WorldlineId::from_bytes(h(3)),
        fork_tick: WorldlineTick::from_raw(4),
        source_commit_hash: h(5),
        source_boundary_hash: h(6),
        child_worldline_id: child,
        writer_heads: vec![
            WriterHeadKey { worldline_id: child, head_id: HeadId::from_bytes(h(0x10)) },
            WriterHeadKey { worldline_id: child, head_id: HeadId::from_bytes(h(0x20)) },
        ],
        retention_posture_digest: h(8),
        issuer_evidence_digest: h(9),
        idempotency_key_digest: None,
    };
    let canonical = record.to_payload_bytes();
    assert_eq!(StrandForkRecord::from_payload_bytes(&canonical).unwrap(), record);

    // swap the two 64-byte writer-head entries (they start after 6 x 32-byte ids, one u64 tick and the u64 count)
    let start = 32 * 6 + 8 + 8;
    let mut swapped = canonical.clone();
    swapped[start..start + 64].copy_from_slice(&canonical[start + 64..start + 128]);
    swapped[start + 64..start + 128].copy_from_slice(&canonical[start..start + 64]);
    assert_ne!(swapped, canonical);

    match StrandForkRecord::from_payload_bytes(&swapped) {
        Err(_) => {}
        Ok(decoded) => panic!(
            "a payload with unsorted writer heads was accepted and normalised: it re-encodes to different bytes ({}), \
             so two byte strings name one record",
            decoded.to_payload_bytes() != swapped
        ),
    }
}
