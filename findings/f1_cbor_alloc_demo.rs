//! Demonstration for finding C13/F1a (copy to crates/echo-wasm-abi/tests/ and run `cargo test -p echo-wasm-abi --test f1_cbor_alloc_demo`).
//! Nine bytes declare an array / a map with 2^64-1 elements; the decoder pre-allocates the declared count before
//! looking at the remaining input and panics with "capacity overflow" instead of returning a typed error.
#![allow(missing_docs)]
use echo_wasm_abi::decode_value;

#[test]
fn huge_declared_array_length_is_a_typed_error_not_a_panic() {
    let bytes = [0x9b, 0xff, 0xff, 0xff, 0xff, 0xff, 0xff, 0xff, 0xff];
    let r = std::panic::catch_unwind(|| decode_value(&bytes));
    assert!(matches!(r, Ok(Err(_))), "decoder panicked or accepted: {:?}", r.map(|x| x.is_ok()));
}

#[test]
fn huge_declared_map_length_is_a_typed_error_not_a_panic() {
    let bytes = [0xbb, 0x00, 0x0f, 0xff, 0xff, 0xff, 0xff, 0xff, 0xff];
    let r = std::panic::catch_unwind(|| decode_value(&bytes));
    assert!(matches!(r, Ok(Err(_))), "decoder panicked or accepted: {:?}", r.map(|x| x.is_ok()));
}
