//! Demonstration for known finding C11/F3 (copy to crates/warp-core/tests/ and run
//! `cargo test -p warp-core --test f3_wal_chain_demo`).
//!
//! Three correctly chained committed transactions are written; the commit marker of the MIDDLE
//! transaction is then removed (damage: "removed ... commit markers").  `recover_from_frames_and_commits`
//! returns Ok with transactions {1, 3}: a successful history that is not a prefix of what was committed.
//! The chain fields (`previous_committed_transaction_digest`, `previous_frame_digest`) that would
//! expose the gap are never compared during recovery.
#![allow(clippy::unwrap_used, clippy::expect_used, missing_docs)]
use warp_core::causal_wal::*;

fn h(label: &str) -> [u8; 32] {
    *blake3::hash(label.as_bytes()).as_bytes()
}

fn tx(label: &str, first_lsn: u64, prev_frame: [u8; 32], prev_commit: [u8; 32]) -> WalCommittedTransaction {
    let mut b = WalTransactionBuilder::new(
        WriterEpochId::from_hash(h("epoch")),
        WalSegmentId::from_raw(1),
        WalTransactionId::from_hash(h(label)),
        WalTransactionKind::SubmissionIntake,
        WalAppendAuthority::SubmissionIntake,
        Lsn::from_raw(first_lsn),
        prev_frame,
        prev_commit,
        WalDurabilityMode::Buffered,
        PayloadCodecId::from_hash(h("codec")),
        PayloadSchemaId::from_hash(h("schema")),
        1,
        1,
        h("domain"),
    );
    b.push_record(WalRecordKind::SubmissionAcceptedRecorded, label.as_bytes().to_vec()).unwrap();
    b.commit(vec![AffectedFrontier {
        kind: AffectedFrontierKind::SubmissionQueue,
        before_digest: h("before"),
        after_digest: h(label),
    }])
    .unwrap()
}

#[test]
fn removed_middle_commit_marker_is_not_detected() {
    let t1 = tx("tx1", 1, [0; 32], [0; 32]);
    let t2 = tx("tx2", 2, t1.frames.last().unwrap().digest(), t1.commit.commit_digest);
    let t3 = tx("tx3", 3, t2.frames.last().unwrap().digest(), t2.commit.commit_digest);
    let frames: Vec<WalFrame> = [&t1, &t2, &t3].iter().flat_map(|t| t.frames.clone()).collect();

    // untampered log: three transactions
    let full = recover_from_frames_and_commits(&frames, &[t1.commit.clone(), t2.commit.clone(), t3.commit.clone()], RecoveryAccessMode::ReadOnly).unwrap();
    assert_eq!(full.transactions.len(), 3);

    // damage: the commit marker of tx2 is removed
    let damaged = recover_from_frames_and_commits(&frames, &[t1.commit.clone(), t3.commit.clone()], RecoveryAccessMode::ReadOnly);
    // C11 demands a typed error (or a prefix). What happens: Ok, tail Clean, history = {tx1, tx3}.
    let report = damaged.expect("C11 violated as expected: recovery succeeds");
    let ids: Vec<_> = report.transactions.iter().map(|t| t.commit.transaction_id).collect();
    assert_eq!(ids, vec![t1.commit.transaction_id, t3.commit.transaction_id]);
    assert_eq!(report.tail_posture, RecoveryTailPosture::Clean);
    // the evidence that was ignored:
    assert_ne!(t3.commit.previous_committed_transaction_digest, t1.commit.commit_digest);
    panic!("FINDING REPRODUCED: recovery accepted a non-prefix history (tx2 silently dropped)");
}
