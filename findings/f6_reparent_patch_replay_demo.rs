//! Demonstration for known finding C04/F6 (copy to crates/warp-core/tests/ and run
//! `cargo test -p warp-core --features native_rule_bootstrap --test f6_reparent_patch_replay_demo`).
//!
//! Edge `e` (A -> C) carries an attachment. A rule re-parents it with a single `UpsertEdge { from: B }`.
//! Live path: `upsert_edge_record` moves the edge and KEEPS its attachment.
//! Emitted patch: `DeleteEdge(A, e)` + `UpsertEdge(e)` and no `SetAttachment` (the attachment pass sees before == after).
//! Replay: `DeleteEdge`'s mini-cascade drops the attachment, `apply_to_state` returns Ok(()), and the replayed state
//! differs from the state the tick produced — C04 ("a tick patch replays to exactly the state the tick produced").
#![allow(missing_docs, clippy::unwrap_used, clippy::expect_used)]
use warp_core::{
    make_edge_id, make_node_id, make_type_id, ApplyResult, AtomPayload, AttachmentValue, EdgeRecord, Engine, Footprint,
    GraphStore, GraphView, NodeId, NodeRecord, PatternGraph, RewriteRule, TickDelta, WarpOp,
};

const RULE: &str = "demo/reparent-attached";

fn rule_id() -> warp_core::Hash {
    let mut h = blake3::Hasher::new();
    h.update(b"rule:");
    h.update(RULE.as_bytes());
    h.finalize().into()
}
fn matcher(view: GraphView<'_>, scope: &NodeId) -> bool {
    view.node(scope).is_some()
}
fn executor(view: GraphView<'_>, scope: &NodeId, delta: &mut TickDelta) {
    delta.emit(WarpOp::UpsertEdge {
        warp_id: view.warp_id(),
        record: EdgeRecord { id: make_edge_id("e"), from: *scope, to: make_node_id("C"), ty: make_type_id("edge") },
    });
}
fn footprint(view: GraphView<'_>, scope: &NodeId) -> Footprint {
    let w = view.warp_id();
    let mut fp = Footprint::default();
    fp.n_read.insert_with_warp(w, *scope);
    fp.n_write.insert_with_warp(w, *scope);
    fp.n_write.insert_with_warp(w, make_node_id("A"));
    fp.e_write.insert_with_warp(w, make_edge_id("e"));
    fp.factor_mask = u64::MAX;
    fp
}

#[test]
fn patch_of_a_reparenting_tick_replays_to_the_committed_state() {
    let (a, b, c, root) = (make_node_id("A"), make_node_id("B"), make_node_id("C"), make_node_id("root"));
    let mut store = GraphStore::default();
    let warp = store.warp_id();
    for n in [root, a, b, c] {
        store.insert_node(n, NodeRecord { ty: make_type_id("n") });
    }
    store.insert_edge(a, EdgeRecord { id: make_edge_id("e"), from: a, to: c, ty: make_type_id("edge") });
    store.set_edge_attachment(
        make_edge_id("e"),
        Some(AttachmentValue::Atom(AtomPayload::new(make_type_id("payload"), bytes::Bytes::from_static(b"kept")))),
    );
    let mut engine = Engine::new(store, root);
    engine
        .register_rule(RewriteRule {
            id: rule_id(),
            name: RULE,
            left: PatternGraph { nodes: Vec::new() },
            matcher,
            executor,
            compute_footprint: footprint,
            factor_mask: u64::MAX,
            conflict_policy: warp_core::ConflictPolicy::Abort,
            join_fn: None,
        })
        .unwrap();
    let mut replayed = engine.state().clone();
    let tx = engine.begin();
    assert!(matches!(engine.apply(tx, RULE, &b).unwrap(), ApplyResult::Applied));
    let (_snapshot, _receipt, patch) = engine.commit_with_receipt(tx).expect("tick commits");

    patch.apply_to_state(&mut replayed).expect("patch applies");
    let live = engine.state().store(&warp).unwrap();
    let rep = replayed.store(&warp).unwrap();
    assert!(live.edge_attachment(&make_edge_id("e")).is_some(), "live state keeps the attachment of the re-parented edge");
    assert_eq!(
        live.canonical_state_hash(),
        rep.canonical_state_hash(),
        "FINDING REPRODUCED: replaying the emitted patch on the pre-tick state does not reproduce the post-tick state \
         (replayed attachment present: {})",
        rep.edge_attachment(&make_edge_id("e")).is_some()
    );
}
