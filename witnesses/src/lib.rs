//! Compile-fail witnesses (A13): each `compile_fail,E0xxx` doctest names the crates as an external user would and is
//! paired with a compiling twin that differs only by the offending line.  They fail (⇒ violation) only if the API
//! becomes MORE permissive.  Run with `cargo +nightly test --doc` (the stable toolchain ignores the error code).

/// W-C14-a / W-C01-a: `GraphView`'s store is not reachable from outside (E0616 private field).
/// ```compile_fail,E0616
/// let store = warp_core::GraphStore::default();
/// let view = warp_core::GraphView::new(&store);
/// let _ = view.store;
/// ```
/// twin:
/// ```
/// let store = warp_core::GraphStore::default();
/// let view = warp_core::GraphView::new(&store);
/// let _ = view.warp_id();
/// ```
pub struct GraphViewStoreIsPrivate;

/// W-C14-b / W-C01-b: a rule's view offers no mutation (E0599 no such method).
/// ```compile_fail,E0599
/// let store = warp_core::GraphStore::default();
/// let view = warp_core::GraphView::new(&store);
/// view.insert_node(warp_core::make_node_id("n"), warp_core::NodeRecord { ty: warp_core::make_type_id("t") });
/// ```
/// twin:
/// ```
/// let mut store = warp_core::GraphStore::default();
/// store.insert_node(warp_core::make_node_id("n"), warp_core::NodeRecord { ty: warp_core::make_type_id("t") });
/// let view = warp_core::GraphView::new(&store);
/// let _ = view.node(&warp_core::make_node_id("n"));
/// ```
pub struct GraphViewCannotMutate;

/// W-C17-a: a durably-recorded-request grant cannot be forged with a struct literal (E0451 private fields).
/// ```compile_fail,E0451
/// fn forge(request: warp_core::external_action::ExternalActionRequestV1) -> warp_core::external_action::DurablyRecordedExternalActionRequestV1 {
///     warp_core::external_action::DurablyRecordedExternalActionRequestV1 { request, request_commit_digest: [0; 32] }
/// }
/// ```
/// twin (the type is nameable, only construction is closed):
/// ```
/// fn pass(grant: warp_core::external_action::DurablyRecordedExternalActionRequestV1) -> warp_core::external_action::DurablyRecordedExternalActionRequestV1 {
///     grant
/// }
/// ```
pub struct RequestGrantCannotBeForged;

/// W-C17-b: a claim grant cannot be duplicated (E0277: `Clone` is not implemented).
/// ```compile_fail,E0277
/// fn needs_clone<T: Clone>(_: &T) {}
/// fn dup(grant: &warp_core::external_action::ExternalActionClaimGrantV1) {
///     needs_clone(grant);
/// }
/// ```
/// twin:
/// ```
/// fn keep(grant: &warp_core::external_action::ExternalActionClaimGrantV1) -> &warp_core::external_action::ExternalActionClaimGrantV1 {
///     grant
/// }
/// ```
pub struct ClaimGrantCannotBeCloned;

/// W-C17-c: a claim grant is consumed by settlement admission: using it afterwards is a move error (E0382).
/// ```compile_fail,E0382
/// fn twice(grant: warp_core::external_action::ExternalActionClaimGrantV1) {
///     fn consume(_: warp_core::external_action::ExternalActionClaimGrantV1) {}
///     consume(grant);
///     consume(grant);
/// }
/// ```
/// twin:
/// ```
/// fn once(grant: warp_core::external_action::ExternalActionClaimGrantV1) {
///     fn consume(_: warp_core::external_action::ExternalActionClaimGrantV1) {}
///     consume(grant);
/// }
/// ```
pub struct ClaimGrantIsLinear;

/// W-C19-a: a float scalar cannot be built around the canonicalising constructor (E0451 private field).
/// ```compile_fail,E0451
/// let _ = warp_math::scalar::F32Scalar { value: -0.0 };
/// ```
/// twin:
/// ```
/// let _ = warp_math::scalar::F32Scalar::new(-0.0);
/// ```
pub struct ScalarOnlyThroughNew;
