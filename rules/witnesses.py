"""A13 compile-fail witnesses (thorough tier): `cargo +nightly test --doc` on /verif/witnesses, which path-depends on
/repo's crates.  A witness fails only when the API became MORE permissive (the forbidden program compiles) or when
its compiling twin stopped compiling (the witness would pass for the wrong reason)."""
import os
import re
import subprocess

from . import facts as F

WITNESSES = {
    "C01": ["GraphViewStoreIsPrivate", "GraphViewCannotMutate"],
    "C14": ["GraphViewStoreIsPrivate", "GraphViewCannotMutate"],
    "C17": ["RequestGrantCannotBeForged", "ClaimGrantCannotBeCloned", "ClaimGrantIsLinear"],
    "C19": ["ScalarOnlyThroughNew"],
}
_cache = {}


def _run_all():
    if "res" in _cache:
        return _cache["res"]
    wd = os.path.join(F.VERIF, "witnesses")
    lock_src = os.path.join(F.REPO, "Cargo.lock")
    try:
        with open(lock_src) as a, open(os.path.join(wd, "Cargo.lock"), "w") as b:
            b.write(a.read())
    except OSError:
        pass
    env = dict(os.environ, CARGO_NET_OFFLINE="true")
    r = subprocess.run(["cargo", "+nightly", "test", "--doc", "--offline"], cwd=wd, env=env, capture_output=True, text=True)
    res = {}
    for m in re.finditer(r"^test src/lib.rs - (\w+) \(line (\d+)\)(?: - compile fail)? \.\.\. (ok|FAILED)", r.stdout, re.M):
        res.setdefault(m.group(1), []).append(m.group(3))
    _cache["res"] = (res, r.returncode, (r.stdout + r.stderr)[-3000:])
    return _cache["res"]


def run(pid, rep):
    names = WITNESSES.get(pid)
    if not names:
        return
    res, rc, tail = _run_all()
    if not res:
        raise SystemExit("BROKEN: witness crate produced no doctest results:\n" + tail)
    rep.rule("A13", "compile-fail witnesses with compiling twins (cargo +nightly test --doc on /verif/witnesses)")
    for n in names:
        outcomes = res.get(n, [])
        rep.check(len(outcomes) == 2 and all(o == "ok" for o in outcomes), "A13", "witness:%s" % n,
                  "forbidden program is rejected with the expected error code; its twin compiles",
                  "witness %s: outcomes %s (the API became more permissive, or the twin no longer compiles)" % (n, outcomes), site="/verif/witnesses/src/lib.rs")
