"""Check runner:  python3 -m rules.run C03 --tier quick

exit 0: property's structural rules hold on /repo's current tree (known findings printed as KNOWN-FINDING)
exit 1: at least one unlisted violation; prints `VIOLATION property=<id> replay=<path>`
exit 2: machinery broken (tree does not compile, fixture self-check failed)
"""
import argparse
import importlib
import json
import os
import sys
import time
import traceback

from . import facts as F
from .engine import Program, AnchorMissing, stats

VERIF = F.VERIF
EVID = os.path.join(VERIF, "evidence")
REPLAY = os.path.join(EVID, "replay")
KNOWN = os.path.join(VERIF, "known_findings.json")


class Report:
    def __init__(self, pid, tier):
        self.pid = pid
        self.tier = tier
        self.prefix = ""
        self.results = []   # dict(rule, key, ok, detail, site, vacuous)
        self.notes = []
        self.analysed = {}
        self.rules_applied = {}

    def rule(self, rid, text):
        self.rules_applied[rid] = text

    def ok(self, rule, key, detail="", site=None):
        self.results.append({"rule": rule, "key": self.prefix + key, "ok": True, "detail": detail, "site": site})

    def bad(self, rule, key, detail="", site=None):
        self.results.append({"rule": rule, "key": self.prefix + key, "ok": False, "detail": detail, "site": site})

    def check(self, cond, rule, key, detail_ok="", detail_bad="", site=None):
        if cond:
            self.ok(rule, key, detail_ok, site)
        else:
            self.bad(rule, key, detail_bad or detail_ok, site)
        return cond

    def note(self, s):
        self.notes.append(s)


class Ctx:
    def __init__(self, pid, tier, root=None):
        self.pid = pid
        self.tier = tier
        self.root = root
        self._progs = {}
        self.cfg_override = None
        self.inline = False
        self.report = Report(pid, tier)

    def prog(self, cfg="trusted"):
        cfg = self.cfg_override or cfg
        p = self._progs.get(cfg)
        if p is None:
            if self.inline:
                from .inline import InlinedProgram
                p = InlinedProgram(cfg, root=self.root)
            else:
                p = Program(cfg, root=self.root)
                self.report.analysed[cfg] = stats(p)
            self._progs[cfg] = p
        return p


def run_rules(mod, ctx, known_keys):
    """Evaluate the property's rules; instances that fail on the plain functions are re-evaluated on the
    helper-inlined view (rules/inline.py) and count as violated only if they fail on both: extracting a block into a
    private helper is behaviour-preserving and must not raise an alarm."""
    rep = ctx.report
    n0 = len(rep.results)
    mod.run(ctx)
    mine = rep.results[n0:]
    failing = [r for r in mine if not r["ok"] and (ctx.pid, r["key"].split(":", 1)[1] if r["key"].startswith(("full:", "default:")) else r["key"]) not in known_keys]
    if not failing or os.environ.get("ECHO_VERIF_NO_INLINE"):
        return
    ctx2 = Ctx(ctx.pid, ctx.tier, ctx.root)
    ctx2.inline = True
    ctx2.cfg_override = ctx.cfg_override
    ctx2.report.prefix = rep.prefix
    try:
        mod.run(ctx2)
    except AnchorMissing:
        pass
    except Exception:
        rep.note("inlined-view pass aborted: " + traceback.format_exc().splitlines()[-1])
    ok2 = {r["key"] for r in ctx2.report.results if r["ok"]}
    bad2 = {r["key"] for r in ctx2.report.results if not r["ok"]}
    for r in failing:
        if r["key"] in ok2 and r["key"] not in bad2:
            r["ok"] = True
            r["detail"] = "holds on the helper-inlined view (a private helper carries the site): " + (r["detail"] or "")[:200]
            rep.note("instance %s decided on the helper-inlined view" % r["key"])


def load_known():
    try:
        with open(KNOWN) as fh:
            return json.load(fh)
    except FileNotFoundError:
        return {"findings": []}


def run_property(pid, tier, root=None, write_evidence=True):
    t0 = time.time()
    ctx = Ctx(pid, tier, root)
    rep = ctx.report
    mod = importlib.import_module("rules.props." + pid)
    broken = None
    try:
        # machinery self-check first: fixtures must produce exactly the expected verdicts
        from . import selfcheck
        selfcheck.run(rep)
        known0 = {(k["property"], k["key"]) for k in load_known().get("findings", []) if k.get("status") == "known"}
        run_rules(mod, ctx, known0)
        if tier == "thorough":
            # cross-configuration: the same rules must hold where test seams and delta validation are compiled in
            for cfg in getattr(mod, "THOROUGH_CONFIGS", ("full",)):
                ctx.cfg_override = cfg
                rep.prefix = cfg + ":"
                run_rules(mod, ctx, known0)
            ctx.cfg_override = None
            rep.prefix = ""
            from . import witnesses
            witnesses.run(pid, rep)
    except AnchorMissing as e:
        rep.bad("anchor", "anchor-missing:" + str(e).split(" (")[0], str(e))
    except SystemExit as e:
        broken = str(e)
    except Exception:
        broken = traceback.format_exc()
    if broken:
        print("BROKEN property=%s: %s" % (pid, broken))
        return 2

    floor = getattr(mod, "FLOOR", 1)
    n_inst = len(rep.results)
    if n_inst < floor:
        rep.bad("floor", "floor:%s" % pid, "only %d rule instances evaluated, floor is %d (a rule matched nothing)" % (n_inst, floor))

    known = load_known()
    known_keys = {(k["property"], k["key"]): k for k in known.get("findings", []) if k.get("status") == "known"}
    violations = [r for r in rep.results if not r["ok"]]
    unlisted = []
    listed = []
    for v in violations:
        kk = (pid, v["key"].split(":", 1)[1] if v["key"].startswith(("full:", "default:")) else v["key"])
        if kk in known_keys:
            listed.append(v)
        else:
            unlisted.append(v)
    replay_dir = REPLAY if root is None else os.path.join(F.CACHE, "replay-root")
    os.makedirs(replay_dir, exist_ok=True)
    for v in listed:
        kk = v["key"].split(":", 1)[1] if v["key"].startswith(("full:", "default:")) else v["key"]
        if v["key"] != kk:
            continue  # same finding seen again in another build configuration: report once
        print("KNOWN-FINDING: property=%s %s — %s" % (pid, v["key"], known_keys[(pid, kk)].get("what", v["detail"])))
    for v in unlisted:
        safe = "".join(c if c.isalnum() or c in "-_." else "_" for c in v["key"])[:120]
        rp = os.path.join(replay_dir, "%s-%s.json" % (pid, safe))
        with open(rp, "w") as fh:
            json.dump({"property": pid, "rule": v["rule"], "key": v["key"], "detail": v["detail"], "site": v["site"],
                       "rule_text": rep.rules_applied.get(v["rule"], "")}, fh, indent=1)
        print("VIOLATION property=%s replay=%s" % (pid, rp))
        print("  rule=%s key=%s site=%s\n  %s" % (v["rule"], v["key"], v["site"], v["detail"]))

    wall = time.time() - t0
    if write_evidence:
        os.makedirs(EVID, exist_ok=True)
        oks = [r for r in rep.results if r["ok"]]
        samples = []
        seen_rules = set()
        for r in rep.results:
            if r["rule"] not in seen_rules or not r["ok"]:
                seen_rules.add(r["rule"])
                samples.append({"rule": r["rule"], "instance": r["key"], "verdict": "holds" if r["ok"] else "VIOLATED",
                                "site": r["site"], "detail": r["detail"][:400]})
        distinct = len(set((r["rule"], r["key"]) for r in rep.results))
        ev = {
            "property_id": pid,
            "tier": tier,
            "seed": int(os.environ.get("VERIF_SEED", "0") or 0),
            "level": "other",
            "coverage": {
                "explanation": getattr(mod, "EXPLANATION", ""),
                "evaluations": n_inst,
                "distinct_nontrivial": distinct,
                "rule": "one evaluation = one rule instance (a rule template with its slots filled from the repository: "
                        "function, ADT field, enum variant, call site, CFG path obligation) decided on the MIR/type facts "
                        "exported from /repo's current tree; an instance is non-trivial when it matched at least one real "
                        "site (vacuous matches fail closed via floors and anchors)",
                "obligations": n_inst,
                "discharged": len(oks),
                "checker_cmd": "./check %s --tier %s" % (pid, tier),
                "trusted_base": ["rustc 1.97-nightly MIR/type information (mir-opt-level=0)", "/verif/driver exporter",
                                 "/verif/rules engine + the instance tables in rules/props/%s.py" % pid],
                "samples": samples[:60],
                "instances": [{"rule": r["rule"], "key": r["key"], "ok": r["ok"]} for r in rep.results],
                "exhaustive": False,
                "configurations": rep.analysed,
                "rules": rep.rules_applied,
                "known_findings_reported": [v["key"] for v in listed],
                "notes": rep.notes,
            },
            "assumptions": getattr(mod, "ASSUMPTIONS", []),
            "wall_s": round(wall, 2),
            "violations": len(unlisted),
        }
        with open(os.path.join(EVID, pid + ".json"), "w") as fh:
            json.dump(ev, fh, indent=1)
    print("%s: %d rule instances, %d hold, %d known findings, %d violations (%.1fs)" % (
        pid, n_inst, len([r for r in rep.results if r["ok"]]), len(listed), len(unlisted), wall))
    return 1 if unlisted else 0


def main():
    ap = argparse.ArgumentParser()
    ap.add_argument("pid")
    ap.add_argument("--tier", default=os.environ.get("VERIF_TIER", "quick"))
    ap.add_argument("--root", default=None, help="analyse another checkout (self-test)")
    ap.add_argument("--replay", default=None)
    a = ap.parse_args()
    if a.replay:
        with open(a.replay) as fh:
            print(json.dumps(json.load(fh), indent=1))
    # a foreign checkout (self-test of the machinery) never rewrites the committed evidence
    sys.exit(run_property(a.pid, a.tier, a.root, write_evidence=a.root is None and not os.environ.get("ECHO_VERIF_NO_EVIDENCE")))


if __name__ == "__main__":
    main()
