"""Program model over the exported facts: functions, CFGs, call graph, origin analysis.

Everything here is generic; property knowledge lives in rules/props/*.py.
"""
import json
import os
import re
import sys
from collections import defaultdict, deque

from . import facts as F


class AnchorMissing(Exception):
    """A rule names a function/type that no longer exists: fail closed."""


# ------------------------------------------------------------------------ places / operands

def place_local(p):
    return p[0]


def place_proj(p):
    return p[1]


def field_steps(p):
    """[(adt, variant, field)] for every Field projection in a place."""
    return [(e[1], e[2], e[3]) for e in p[1] if isinstance(e, list) and e[0] == "f"]


def op_place(o):
    if "c" in o:
        return o["c"]
    if "m" in o:
        return o["m"]
    return None


def op_const(o):
    return o if "k" in o else None


def const_int(o):
    """Integer value of a constant operand, or None."""
    if o is None or "k" not in o:
        return None
    v = o.get("v")
    if v is None:
        return None
    try:
        return int(v)
    except ValueError:
        return None


# ------------------------------------------------------------------------ function wrapper

class Fn:
    __slots__ = ("rec", "id", "_blocks", "crate", "_succ", "_pred", "_defs", "_origins", "prog")

    def __init__(self, rec, prog):
        self.rec = rec
        self.id = rec["id"]
        self._blocks = None
        self.crate = self.id.split("::", 1)[0].lstrip("<")
        self._succ = None
        self._pred = None
        self._defs = None
        self._origins = None
        self.prog = prog

    def _load(self):
        raw = self.rec.pop("_raw", None)
        if raw is not None:
            body = json.loads(raw)
            self.rec.update(body)
        self._blocks = self.rec["blocks"]

    @property
    def blocks(self):
        if self._blocks is None:
            self._load()
        return self._blocks

    # -- metadata
    @property
    def file(self):
        return self.rec["span"]["f"]

    @property
    def line(self):
        return self.rec["span"]["l"]

    @property
    def name(self):
        # a function recognised as a renamed anchor keeps the name the rules (and the frozen baselines) know it by
        return self.rec.get("_known_as") or self.rec.get("name", "")

    @property
    def vis(self):
        return self.rec.get("vis", "")

    @property
    def argc(self):
        return self.rec["argc"]

    @property
    def locals(self):
        if self._blocks is None:
            self._load()
        return self.rec["locals"]

    @property
    def dbg(self):
        if self._blocks is None:
            self._load()
        return self.rec["dbg"]

    def loc(self, line=None):
        return "%s:%s" % (self.file, line if line else self.line)

    def is_closure(self):
        return self.rec["dk"] == "closure"

    # -- CFG
    def term(self, bb):
        return self.blocks[bb]["t"]

    def succ(self, bb, unwind=False):
        t = self.blocks[bb]["t"]
        k = t["t"]
        out = []
        if k == "goto":
            out.append(t["tgt"])
        elif k == "sw":
            out.extend(x[1] for x in t["v"])
            out.append(t["ow"])
        elif k in ("call", "drop", "assert"):
            if t.get("tgt") is not None:
                out.append(t["tgt"])
            if unwind and isinstance(t.get("unw"), int):
                out.append(t["unw"])
        return out

    def succs(self, unwind=False):
        return [self.succ(i, unwind) for i in range(len(self.blocks))]

    def preds(self, unwind=False):
        pr = [[] for _ in self.blocks]
        for i in range(len(self.blocks)):
            for s in self.succ(i, unwind):
                pr[s].append(i)
        return pr

    def calls(self):
        """[(bb, term)] for every call terminator."""
        return [(i, b["t"]) for i, b in enumerate(self.blocks) if b["t"]["t"] in ("call", "tailcall")]

    def callee_of(self, t):
        f = t["fn"]
        if "r" in f:
            return f["r"] or f["d"]
        return None

    def call_sites(self, pat, include_cleanup=False):
        """Blocks whose terminator calls a function matching `pat` (regex on resolved|declared path)."""
        rx = re.compile(pat) if isinstance(pat, str) else pat
        out = []
        for i, b in enumerate(self.blocks):
            t = b["t"]
            if t["t"] not in ("call", "tailcall"):
                continue
            if b["cl"] and not include_cleanup:
                continue
            f = t["fn"]
            if "r" in f:
                if rx.search(f["r"] or "") or rx.search(f["d"] or ""):
                    out.append(i)
                else:
                    old = self.prog.old_name_of(f["r"]) if f["r"] else None
                    if old and rx.search(old):
                        out.append(i)
        return out

    def reachable(self, starts, avoid_blocks=(), avoid_edges=(), unwind=False):
        """Blocks reachable from `starts` (inclusive), never entering avoid_blocks nor taking avoid_edges."""
        avoid_blocks = set(avoid_blocks)
        avoid_edges = set(avoid_edges)
        seen = set()
        dq = deque(s for s in starts if s not in avoid_blocks)
        seen.update(dq)
        while dq:
            b = dq.popleft()
            for s in self.succ(b, unwind):
                if s in seen or s in avoid_blocks or (b, s) in avoid_edges:
                    continue
                seen.add(s)
                dq.append(s)
        return seen

    def path(self, starts, goals, avoid_blocks=(), avoid_edges=(), unwind=False):
        """A shortest block path from any start to any goal avoiding the cut sets, or None."""
        avoid_blocks = set(avoid_blocks)
        avoid_edges = set(avoid_edges)
        goals = set(goals)
        parent = {}
        dq = deque()
        for s in starts:
            if s in avoid_blocks:
                continue
            parent[s] = None
            dq.append(s)
        while dq:
            b = dq.popleft()
            if b in goals:
                out = []
                while b is not None:
                    out.append(b)
                    b = parent[b]
                return out[::-1]
            for s in self.succ(b, unwind):
                if s in parent or s in avoid_blocks or (b, s) in avoid_edges:
                    continue
                parent[s] = b
                dq.append(s)
        return None

    def return_blocks(self):
        return [i for i, b in enumerate(self.blocks) if b["t"]["t"] == "ret"]

    def resume_blocks(self):
        return [i for i, b in enumerate(self.blocks) if b["t"]["t"] == "resume"]

    def block_line(self, bb):
        b = self.blocks[bb]
        t = b["t"]
        if "line" in t:
            return t["line"]
        for st in b["st"]:
            return st[3]
        return self.line

    def describe_path(self, path):
        if not path:
            return "(none)"
        return " -> ".join("bb%d@%s" % (b, self.block_line(b)) for b in path)

    # -- definitions (flow-insensitive)
    def defs(self):
        """local -> list of ('assign', bb, idx, place, rvalue) | ('call', bb, term) | ('param',)"""
        if self._defs is not None:
            return self._defs
        d = defaultdict(list)
        for i in range(1, self.argc + 1):
            d[i].append(("param", i))
        for bi, b in enumerate(self.blocks):
            for si, st in enumerate(b["st"]):
                if st[0] == "a":
                    d[st[1][0]].append(("assign", bi, si, st[1], st[2]))
            t = b["t"]
            if t["t"] == "call":
                d[t["dest"][0]].append(("call", bi, t))
        # a call that receives `&mut L` may write L: weak update of L with the call's arguments
        mutref = {}
        for bi, b in enumerate(self.blocks):
            for st in b["st"]:
                if st[0] == "a" and not st[1][1] and st[2]["r"] == "ref" and st[2]["bk"] in ("mut", "two"):
                    # only whole-value borrows (`&mut x`, `&mut *x`): a field borrow must not pollute its base local
                    if all(e == "*" for e in st[2]["p"][1]):
                        mutref.setdefault(st[1][0], []).append(st[2]["p"][0])
        if mutref:
            for bi, b in enumerate(self.blocks):
                t = b["t"]
                if t["t"] != "call":
                    continue
                for a in t["args"]:
                    p = op_place(a)
                    if p is not None and not p[1] and p[0] in mutref:
                        for tgt in mutref[p[0]]:
                            d[tgt].append(("callmut", bi, t))
        self._defs = d
        return d

    def origins(self):
        if self._origins is None:
            self._origins = Origins(self)
        return self._origins

    # -- statements iteration
    def assigns(self, include_cleanup=False):
        for bi, b in enumerate(self.blocks):
            if b["cl"] and not include_cleanup:
                continue
            for si, st in enumerate(b["st"]):
                if st[0] == "a":
                    yield bi, si, st[1], st[2], st[3]


# ------------------------------------------------------------------------ origin analysis (A0)

class Atom(tuple):
    """(kind, key, steps)
    kind: 'param' key=index | 'call' key=(callee, bb) | 'const' key=display | 'agg' key=(adt,var,bb)
          | 'upvar' (closure capture: param 1 field) | 'static' | 'other'
    steps: tuple of field names / markers traversed from the root to the value ('*' deref is dropped)
    """
    __slots__ = ()

    @property
    def kind(self):
        return self[0]

    @property
    def key(self):
        return self[1]

    @property
    def steps(self):
        return self[2]


MAX_STEPS = 10


class Origins:
    """Flow-insensitive, field-sensitive backward def-use closure for one MIR body."""

    def __init__(self, fn):
        self.fn = fn
        self.defs = fn.defs()
        self._memo = {}
        self._deep_memo = {}

    @staticmethod
    def _proj_steps(proj):
        out = []
        for e in proj:
            if isinstance(e, list):
                if e[0] == "f":
                    out.append((e[1], e[2], e[3]))
                elif e[0] == "d":
                    out.append("as:" + e[1])
                elif e[0] in ("i", "ci", "s"):
                    out.append("[]")
        return tuple(out)

    def of_place(self, place, deep=False, _stack=None):
        steps = self._proj_steps(place[1])
        base = self.of_local(place[0], deep, _stack)
        if not steps:
            return base
        out = set()
        for a in base:
            if a.kind == "agg":
                # reading field f of a locally built aggregate: follow that operand
                adt, var, bb, si = a.key
                got = self._agg_field(bb, si, steps, deep, _stack)
                if got is not None:
                    out |= got
                    continue
            ns = (a.steps + steps)[-MAX_STEPS:]
            out.add(Atom((a.kind, a.key, ns)))
        return frozenset(out)

    def _agg_field(self, bb, si, steps, deep, _stack):
        st = self.fn.blocks[bb]["st"][si]
        rv = st[2]
        if rv.get("r") != "agg":
            return None
        first = steps[0]
        if not isinstance(first, tuple):
            return None
        fname = first[2]
        names = rv.get("fields")
        if rv["ak"] == "tuple":
            try:
                idx = int(fname)
            except ValueError:
                return None
        elif names is not None:
            if fname not in names:
                return None
            idx = names.index(fname)
        else:
            return None
        if idx >= len(rv["os"]):
            return None
        base = self.of_operand(rv["os"][idx], deep, _stack)
        rest = steps[1:]
        if not rest:
            return base
        return frozenset(Atom((a.kind, a.key, (a.steps + rest)[-MAX_STEPS:])) for a in base)

    def of_operand(self, o, deep=False, _stack=None):
        p = op_place(o)
        if p is not None:
            return self.of_place(p, deep, _stack)
        if "fn" in o:
            return frozenset([Atom(("fnitem", o["fn"] or o.get("fnd", ""), ()))])
        return frozenset([Atom(("const", o.get("def") or o.get("v") or o.get("k"), ()))])

    def of_local(self, l, deep=False, _stack=None):
        memo = self._deep_memo if deep else self._memo
        if l in memo:
            return memo[l]
        if _stack is None:
            _stack = set()
        if l in _stack:
            return frozenset()
        _stack.add(l)
        out = set()
        for d in self.defs.get(l, ()):
            if d[0] == "param":
                out.add(Atom(("param", d[1], ())))
            elif d[0] == "call":
                bb, t = d[1], d[2]
                callee = self.fn.callee_of(t) or "(indirect)"
                out.add(Atom(("call", (callee, bb), ())))
                if deep:
                    for a in t["args"]:
                        out |= self.of_operand(a, deep, _stack)
            elif d[0] == "callmut":
                if deep:
                    bb, t = d[1], d[2]
                    for a in t["args"]:
                        out |= self.of_operand(a, deep, _stack)
            else:
                _, bb, si, place, rv = d
                if place[1]:
                    # partial write  L.f = x : weak update, origins of x flow into L
                    out |= self._rvalue(rv, bb, si, deep, _stack, partial=True)
                else:
                    out |= self._rvalue(rv, bb, si, deep, _stack)
        _stack.discard(l)
        res = frozenset(out)
        # only memoise at top level of a query to avoid caching partial (cycle-cut) results
        if not _stack:
            memo[l] = res
        return res

    def _rvalue(self, rv, bb, si, deep, _stack, partial=False):
        k = rv["r"]
        if k in ("use", "cast", "un", "rep"):
            return self.of_operand(rv["o"], deep, _stack)
        if k in ("ref", "raw", "cfd"):
            return self.of_place(rv["p"], deep, _stack)
        if k == "disc":
            base = self.of_place(rv["p"], deep, _stack)
            return frozenset(Atom((a.kind, a.key, (a.steps + ("#discr",))[-MAX_STEPS:])) for a in base)
        if k == "bin":
            a = self.of_operand(rv["a"], deep, _stack)
            b = self.of_operand(rv["b"], deep, _stack)
            if rv["op"] in ("Div", "Rem", "Shr", "ShrUnchecked"):
                # lossy arithmetic: remember it on the dividend's atoms (used by bound rules)
                a = frozenset(Atom((x.kind, x.key, (x.steps + ("op:" + rv["op"][:3],))[-MAX_STEPS:])) for x in a)
            return a | b
        if k == "agg":
            out = set()
            if not partial:
                out.add(Atom(("agg", (rv.get("adt", rv["ak"]), rv.get("var", ""), bb, si), ())))
            if deep or partial:
                for o in rv["os"]:
                    out |= self.of_operand(o, deep, _stack)
            return frozenset(out)
        if k == "tlr":
            return frozenset([Atom(("static", rv["def"], ()))])
        return frozenset([Atom(("other", rv.get("dbg", k)[:40], ()))])


# ------------------------------------------------------------------------ program

def resolve_upvars(fn, atoms, deep=True, depth=0):
    """Rewrite closure-capture atoms (param 1 of a closure body, first step = captured variable) into the atoms of the
    captured value in the enclosing function, so that a check moved into `.any(|x| ..)` / `.filter(..)` / `.map(..)` is
    seen with the same origins as the loop it replaced."""
    if not fn.is_closure() or depth > 3:
        return atoms
    prog = fn.prog
    parent = prog.fns.get(fn.rec.get("parent"))
    if parent is None:
        return atoms
    site = None
    for bi, si, place, rv, line in parent.assigns(include_cleanup=True):
        if rv["r"] == "agg" and rv.get("ak") == "closure" and rv.get("adt") == fn.id:
            site = rv
            break
    if site is None:
        return atoms
    names = site.get("fields") or []
    out = set()
    pog = parent.origins()
    # the adapter call that receives this closure (`iter.any(|x| ..)`): its receiver is where the closure's element parameters come from
    recv_atoms = None
    cl_locals = {place[0] for bi, si, place, rv, line in parent.assigns(include_cleanup=True)
                 if rv["r"] == "agg" and rv.get("ak") == "closure" and rv.get("adt") == fn.id and not place[1]}
    for bi, t in parent.calls():
        args = t["args"]
        for ai, x in enumerate(args):
            p_ = op_place(x)
            if ai >= 1 and p_ is not None and not p_[1] and (p_[0] in cl_locals or any(
                    d[0] == "assign" and d[4]["r"] in ("use", "ref") and op_place(d[4].get("o", {"c": d[4].get("p")}) if d[4]["r"] == "use" else {"c": d[4]["p"]}) is not None
                    and (op_place(d[4]["o"])[0] if d[4]["r"] == "use" else d[4]["p"][0]) in cl_locals for d in parent.defs().get(p_[0], ()))):
                recv_atoms = resolve_upvars(parent, pog.of_operand(args[0], deep=deep), deep, depth + 1)
    for a in atoms:
        if a.kind == "param" and a.key >= 2 and recv_atoms is not None:
            for b in recv_atoms:
                out.add(Atom((b.kind, b.key, (b.steps + a.steps)[-MAX_STEPS:])))
            continue
        if a.kind == "param" and a.key == 1 and a.steps and isinstance(a.steps[0], tuple) and a.steps[0][0] == "(closure)":
            nm = a.steps[0][2]
            if nm in names:
                base = pog.of_operand(site["os"][names.index(nm)], deep=deep)
                base = resolve_upvars(parent, base, deep, depth + 1)
                rest = a.steps[1:]
                for b in base:
                    out.add(Atom((b.kind, b.key, (b.steps + rest)[-MAX_STEPS:])))
                continue
        out.add(a)
    return frozenset(out)


class Program:
    def __init__(self, cfg_name="trusted", crates=None, root=None, facts_dir=None):
        self.cfg = cfg_name
        self.facts_dir = facts_dir or F.ensure_facts(cfg_name, root=root)
        self.fns = {}
        self.adts = {}
        self.consts = {}
        self.tys = {}
        self.impls = []
        self.traits = {}
        self.crates = {}
        self._by_name = defaultdict(list)
        self._trait_impls = defaultdict(list)  # (trait, method name) -> [fn ids]
        self._closures_of = defaultdict(list)  # fn id -> closure ids defined (transitively) inside
        self._callees = {}
        self._callers = None
        files = crates or [f for f in sorted(os.listdir(self.facts_dir)) if f.endswith(".jsonl")]
        for cf in files:
            if not cf.endswith(".jsonl"):
                cf = cf.replace("-", "_") + ".jsonl"
            for r in F.load_crate(self.facts_dir, cf):
                k = r["k"]
                if k == "fn":
                    f = Fn(r, self)
                    self.fns[f.id] = f
                    self._by_name[f.name].append(f.id)
                    if r.get("impl_trait"):
                        self._trait_impls[(r["impl_trait"], f.name)].append(f.id)
                    if r["dk"] == "closure":
                        self._closures_of[r["parent"]].append(f.id)
                elif k == "adt":
                    self.adts[r["path"]] = r
                elif k == "const":
                    self.consts[r["path"]] = r
                elif k == "ty":
                    self.tys[r["ty"]] = r
                elif k == "impl":
                    self.impls.append(r)
                elif k == "trait":
                    self.traits[r["path"]] = r
                elif k == "crate":
                    self.crates[r["name"]] = r

    # -- anchors
    def fn(self, path):
        """Resolve a function anchor: exact path, else unique same-named item in the same crate
        whose trailing `Type::name` (or `name`) matches.  Fails closed."""
        f = self.fns.get(path)
        if f:
            return f
        crate = path.split("::", 1)[0]
        parts = path.split("::")
        tail2 = "::".join(parts[-2:])
        cands = [i for i in self._by_name.get(parts[-1], ()) if i.startswith(crate + "::") and i.endswith("::" + tail2)]
        if len(cands) == 1:
            return self.fns[cands[0]]
        r = self._renamed(path)
        if r is not None:
            return r
        raise AnchorMissing("function anchor not found: %s (candidates: %s)" % (path, cands[:4]))

    _sig_tables = None
    _aliases = None

    def old_name_of(self, fid):
        """If `fid` is a function that exists only since the pinned tree and is recognised as a renamed anchor, the name
        the rules know it by (so callee patterns keep matching its call sites)."""
        if self._aliases is None:
            self._aliases = {}
            self._renamed("")  # load tables
            sigs, known = Program._sig_tables
            if known is not None:
                for old in sigs:
                    if old not in self.fns:
                        r = self._renamed(old)
                        if r is not None:
                            self._aliases[r.id] = old
        return self._aliases.get(fid)

    def _renamed(self, path):
        """A named function vanished.  If the pinned tree's signature of that function is on record and exactly ONE function
        of the same crate that did not exist on the pinned tree has that signature (and, for methods, the same Self type),
        it is the same function under a new name / in a new place: a rename is behaviour-preserving and must not raise an
        alarm.  Anything less unambiguous stays fail-closed."""
        if Program._sig_tables is None:
            base = os.path.dirname(os.path.abspath(__file__))
            try:
                with open(os.path.join(base, "anchor_sigs.json")) as fh:
                    sigs = json.load(fh)
                with open(os.path.join(base, "known_all_fns.txt")) as fh:
                    known = set(l.strip() for l in fh if l.strip())
            except (OSError, ValueError):
                sigs, known = {}, None
            Program._sig_tables = (sigs, known)
        sigs, known = Program._sig_tables
        want = sigs.get(path)
        if want is None or known is None:
            return None
        crate = path.split("::", 1)[0]
        cands = []
        for fid, f in self.fns.items():
            if f.is_closure() or not fid.startswith(crate + "::") or fid in known:
                continue
            try:
                sig = [list(f.locals[1:f.argc + 1]), f.locals[0]]
            except Exception:
                continue
            if sig == want:
                cands.append(fid)
        if len(cands) == 1:
            self.renamed = getattr(self, "renamed", {})
            self.renamed[path] = cands[0]
            self.fns[cands[0]].rec["_known_as"] = path.rsplit("::", 1)[-1]
            return self.fns[cands[0]]
        return None

    def fn_opt(self, path):
        try:
            return self.fn(path)
        except AnchorMissing:
            return None

    def find_fns(self, pat):
        rx = re.compile(pat)
        return [f for i, f in self.fns.items() if rx.search(i)]

    def adt(self, path):
        a = self.adts.get(path)
        if a:
            return a
        crate = path.split("::", 1)[0]
        name = path.rsplit("::", 1)[-1]
        cands = [p for p in self.adts if p.startswith(crate + "::") and p.endswith("::" + name)]
        if len(cands) == 1:
            return self.adts[cands[0]]
        raise AnchorMissing("ADT anchor not found: %s (candidates: %s)" % (path, cands[:4]))

    def closures_in(self, fid, transitive=True):
        out = []
        stack = [fid]
        while stack:
            x = stack.pop()
            for c in self._closures_of.get(x, ()):
                out.append(c)
                if transitive:
                    stack.append(c)
        return out

    # -- call graph
    def callees(self, fid):
        """Set of workspace function ids that `fid` may call/enter: direct resolved calls, CHA for
        unresolved trait calls, fn items mentioned as values, closures it defines."""
        c = self._callees.get(fid)
        if c is not None:
            return c
        f = self.fns[fid]
        out = set()
        ext = set()

        def add_target(res, decl):
            tgt = res or decl
            if not tgt:
                return
            if tgt in self.fns:
                out.add(tgt)
                return
            if not res and decl:
                # unresolved trait method: class-hierarchy edges
                tr, _, m = decl.rpartition("::")
                impls = self._trait_impls.get((tr, m))
                if impls:
                    out.update(impls)
                    return
            if res and res not in self.fns:
                # resolved to a default trait method body or external fn
                ext.add(res)
            else:
                ext.add(tgt)

        for b in f.blocks:
            for st in b["st"]:
                if st[0] != "a":
                    continue
                rv = st[2]
                ops = []
                if "o" in rv:
                    ops.append(rv["o"])
                if "os" in rv:
                    ops.extend(rv["os"])
                if "a" in rv:
                    ops.extend([rv["a"], rv["b"]])
                for o in ops:
                    if "fn" in o:
                        add_target(o["fn"], o.get("fnd", ""))
                if rv.get("r") == "agg" and rv.get("ak") == "closure":
                    if rv["adt"] in self.fns:
                        out.add(rv["adt"])
            t = b["t"]
            if t["t"] in ("call", "tailcall"):
                fnj = t["fn"]
                if "r" in fnj:
                    add_target(fnj["r"], fnj["d"])
                for o in t["args"]:
                    if "fn" in o:
                        add_target(o["fn"], o.get("fnd", ""))
        for c2 in self._closures_of.get(fid, ()):
            out.add(c2)
        self._callees[fid] = (out, ext)
        return self._callees[fid]

    def reach(self, entries, stop=None):
        """Transitive closure over workspace bodies. Returns (set of fn ids, set of external callee paths)."""
        seen = set()
        ext = set()
        dq = deque()
        for e in entries:
            eid = e.id if isinstance(e, Fn) else e
            if eid not in seen:
                seen.add(eid)
                dq.append(eid)
        while dq:
            x = dq.popleft()
            if stop and stop(x):
                continue
            o, e = self.callees(x)
            ext |= e
            for y in o:
                if y not in seen:
                    seen.add(y)
                    dq.append(y)
        return seen, ext

    def call_chain(self, entry, target_pred, stop=None):
        """Shortest call chain from entry to a function/external callee satisfying target_pred(path)."""
        eid = entry.id if isinstance(entry, Fn) else entry
        parent = {eid: None}
        dq = deque([eid])
        while dq:
            x = dq.popleft()
            if stop and stop(x) and x != eid:
                continue
            o, e = self.callees(x)
            for y in sorted(e):
                if target_pred(y):
                    chain = [y]
                    while x is not None:
                        chain.append(x)
                        x = parent[x]
                    return chain[::-1]
            for y in sorted(o):
                if y in parent:
                    continue
                parent[y] = x
                if target_pred(y):
                    chain = []
                    z = y
                    while z is not None:
                        chain.append(z)
                        z = parent[z]
                    return chain[::-1]
                dq.append(y)
        return None

    def callers(self):
        if self._callers is None:
            c = defaultdict(set)
            for fid in self.fns:
                o, e = self.callees(fid)
                for y in o:
                    c[y].add(fid)
                for y in e:
                    c[y].add(fid)
            self._callers = c
        return self._callers

    # -- types
    def ty_reach(self, root_ty, stop=None, through_ref=True):
        """All type nodes reachable from a type string through the exported type graph.
        Returns dict ty -> path (list of edge labels)."""
        seen = {root_ty: []}
        dq = deque([root_ty])
        while dq:
            t = dq.popleft()
            node = self.tys.get(t)
            if node is None:
                continue
            if stop and stop(node) and t != root_ty:
                continue
            for lbl, et in node["e"]:
                if et in seen:
                    continue
                seen[et] = seen[t] + [(node.get("def") or node["kind"]) + "." + lbl]
                dq.append(et)
        return seen


def stats(prog):
    nb = len(prog.fns)
    nc = 0
    for f in prog.fns.values():
        raw = f.rec.get("_raw")
        if raw is not None:
            nc += raw.count('"t":"call"')
        else:
            nc += len(f.calls())
    return {"bodies": nb, "call_sites": nc, "adts": len(prog.adts), "types": len(prog.tys)}
