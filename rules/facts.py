"""Fact generation and loading.

Facts are produced by /verif/driver (a rustc_private exporter) injected as
RUSTC_WORKSPACE_WRAPPER under `cargo +nightly check`.  They are cached under
/verif/.cache/facts/<config>/ and are regenerated whenever any source file,
manifest or the driver itself changes (content stamp), and re-verified against the
per-file hashes the compiler recorded in each fact file.
"""
import fcntl
import hashlib
import json
import os
import pickle
import subprocess
import sys
import time

VERIF = os.path.dirname(os.path.dirname(os.path.abspath(__file__)))
REPO = os.environ.get("ECHO_VERIF_REPO", "/repo")
CACHE = os.path.join(VERIF, ".cache")
DRIVER_DIR = os.path.join(VERIF, "driver")
DRIVER_BIN = os.path.join(DRIVER_DIR, "target", "debug", "echo-verif-driver")
FIXTURES = os.path.join(VERIF, "fixtures")

LIB_PKGS = [
    "warp-core", "warp-math", "warp-geom", "echo-wasm-abi", "echo-edict-canonical",
    "echo-cas", "echo-scene-codec", "echo-scene-port", "echo-graph",
    "echo-runtime-schema", "echo-registry-api", "warp-wasm",
]

CONFIGS = {
    # what the repository's own test suite builds (features unify across the workspace)
    "trusted": {
        "pkgs": LIB_PKGS,
        "features": "warp-core/native_rule_bootstrap,warp-core/trusted_runtime,warp-wasm/engine",
        "extra": [],
    },
    "default": {"pkgs": LIB_PKGS, "features": "", "extra": []},
    "full": {
        "pkgs": LIB_PKGS,
        "features": "warp-core/native_rule_bootstrap,warp-core/trusted_runtime,warp-wasm/engine,"
                    "warp-core/host_test,warp-core/delta_validate",
        "extra": [],
    },
    "release-enforce": {
        "pkgs": ["warp-core"],
        "features": "warp-core/native_rule_bootstrap,warp-core/trusted_runtime,"
                    "warp-core/footprint_enforce_release",
        "extra": ["--release"],
    },
}


def sysroot_lib():
    out = subprocess.run(["rustc", "+nightly", "--print", "sysroot"], capture_output=True, text=True, check=True)
    return os.path.join(out.stdout.strip(), "lib")


def ensure_driver():
    """Build the driver if its binary is missing or older than its source."""
    src = os.path.join(DRIVER_DIR, "src", "main.rs")
    if os.path.exists(DRIVER_BIN) and os.path.getmtime(DRIVER_BIN) >= os.path.getmtime(src):
        return
    env = dict(os.environ, CARGO_NET_OFFLINE="true")
    r = subprocess.run(["cargo", "build", "--offline"], cwd=DRIVER_DIR, env=env, capture_output=True, text=True)
    if r.returncode != 0:
        sys.stderr.write(r.stderr[-4000:])
        raise SystemExit("BROKEN: driver failed to build")


def source_stamp(root, subdirs):
    """Content hash over every .rs/.toml/.lock file that can influence the build."""
    h = hashlib.blake2b(digest_size=16)
    paths = []
    for sd in subdirs:
        base = os.path.join(root, sd)
        if os.path.isfile(base):
            paths.append(base)
            continue
        for dp, dn, fn in os.walk(base):
            dn[:] = [d for d in dn if d not in ("target", ".git", "node_modules")]
            for f in fn:
                if f.endswith((".rs", ".toml", ".lock")):
                    paths.append(os.path.join(dp, f))
    paths.sort()
    for p in paths:
        try:
            with open(p, "rb") as fh:
                data = fh.read()
        except OSError:
            continue
        h.update(p.encode())
        h.update(b"\0")
        h.update(hashlib.blake2b(data, digest_size=16).digest())
    with open(DRIVER_BIN, "rb") as fh:
        h.update(hashlib.blake2b(fh.read(), digest_size=16).digest())
    return h.hexdigest()


def _crate_file(pkg):
    return pkg.replace("-", "_") + ".jsonl"


def _run_cargo(cwd, cfg_name, cfg, facts_dir, target_dir):
    env = dict(os.environ)
    env["LD_LIBRARY_PATH"] = sysroot_lib() + ":" + env.get("LD_LIBRARY_PATH", "")
    env["RUSTFLAGS"] = "-Zmir-opt-level=0 -Awarnings"
    env["RUSTC_WORKSPACE_WRAPPER"] = DRIVER_BIN
    env["CARGO_TARGET_DIR"] = target_dir
    env["CARGO_NET_OFFLINE"] = "true"
    env["ECHO_VERIF_FACTS_DIR"] = facts_dir
    env.pop("RUSTC_WRAPPER", None)
    cmd = ["cargo", "+nightly", "check", "--offline", "--lib", "-j", str(os.cpu_count() or 8)]
    for p in cfg["pkgs"]:
        cmd += ["-p", p]
    if cfg["features"]:
        cmd += ["--features", cfg["features"]]
    cmd += cfg["extra"]
    r = subprocess.run(cmd, cwd=cwd, env=env, capture_output=True, text=True)
    return r


def _wipe_member_fingerprints(target_dir, pkgs):
    for prof in ("debug", "release"):
        fp = os.path.join(target_dir, prof, ".fingerprint")
        if not os.path.isdir(fp):
            continue
        for d in os.listdir(fp):
            for p in pkgs:
                if d.startswith(p + "-"):
                    subprocess.run(["rm", "-rf", os.path.join(fp, d)])


def _verify_fact_headers(root, facts_dir, pkgs):
    """Every fact file must exist and the hashes of the files rustc read must match the tree."""
    for p in pkgs:
        path = os.path.join(facts_dir, _crate_file(p))
        if not os.path.exists(path):
            return "missing fact file %s" % path
        with open(path, "r") as fh:
            head = json.loads(fh.readline())
        cwd = head.get("cwd", root)
        for fname, hsh in head["files"]:
            fp = fname if os.path.isabs(fname) else os.path.join(cwd, fname)
            if not fp.startswith(root):
                continue
            try:
                with open(fp, "rb") as f2:
                    data = f2.read()
            except OSError:
                return "source %s vanished" % fp
            # cheap compare: the driver hashed the normalised source text (BOM stripped, CRLF->LF)
            # so only compare when plain; otherwise trust the stamp
            if b"\r" in data or data.startswith(b"\xef\xbb\xbf"):
                continue
            if _fnv_cached(fp, data) != hsh:
                return "stale facts for %s (file %s changed)" % (p, fname)
    return None


def _fnv_cached(path, data):
    import zlib
    return "%08x:%d" % (zlib.crc32(data) & 0xFFFFFFFF, len(data))


def ensure_facts(cfg_name="trusted", root=None, verbose=False):
    """Return the directory holding fresh facts for `cfg_name`, generating them if needed."""
    root = root or REPO
    cfg = CONFIGS[cfg_name]
    ensure_driver()
    tag = cfg_name if root == REPO else cfg_name + "-" + hashlib.blake2b(root.encode(), digest_size=4).hexdigest()
    facts_dir = os.path.join(CACHE, "facts", tag)
    target_dir = os.path.join(CACHE, "target-" + tag)
    os.makedirs(facts_dir, exist_ok=True)
    os.makedirs(target_dir, exist_ok=True)
    lock_path = os.path.join(CACHE, "lock-" + tag)
    with open(lock_path, "w") as lock:
        fcntl.flock(lock, fcntl.LOCK_EX)
        stamp = source_stamp(root, ["crates", "Cargo.toml", "Cargo.lock", "xtask/Cargo.toml"])
        stamp_path = os.path.join(facts_dir, "STAMP")
        have = open(stamp_path).read().strip() if os.path.exists(stamp_path) else ""
        all_exist = all(os.path.exists(os.path.join(facts_dir, _crate_file(p))) for p in cfg["pkgs"])
        if have == stamp and all_exist:
            return facts_dir
        t0 = time.time()
        with open(DRIVER_BIN, "rb") as fh:
            drv = hashlib.blake2b(fh.read(), digest_size=16).hexdigest()
        drv_path = os.path.join(facts_dir, "DRIVER_STAMP")
        drv_have = open(drv_path).read().strip() if os.path.exists(drv_path) else ""
        if not all_exist or drv != drv_have:
            # cargo does not track the wrapper's content: force the members through the new driver
            _wipe_member_fingerprints(target_dir, [p for p in cfg["pkgs"]])
        r = _run_cargo(root, cfg_name, cfg, facts_dir, target_dir)
        if r.returncode != 0:
            sys.stderr.write(r.stderr[-6000:])
            raise SystemExit("BROKEN: cargo check failed for configuration %s (the tree does not compile)" % cfg_name)
        err = _verify_fact_headers(root, facts_dir, cfg["pkgs"])
        if err:
            # cargo considered a member fresh and skipped the wrapper: force it
            _wipe_member_fingerprints(target_dir, cfg["pkgs"])
            r = _run_cargo(root, cfg_name, cfg, facts_dir, target_dir)
            if r.returncode != 0:
                sys.stderr.write(r.stderr[-6000:])
                raise SystemExit("BROKEN: cargo check failed for configuration %s" % cfg_name)
            err = _verify_fact_headers(root, facts_dir, cfg["pkgs"])
            if err:
                raise SystemExit("BROKEN: facts not fresh after regeneration: %s" % err)
        with open(stamp_path, "w") as fh:
            fh.write(stamp)
        with open(drv_path, "w") as fh:
            fh.write(drv)
        if verbose:
            sys.stderr.write("[facts] %s regenerated in %.1fs\n" % (cfg_name, time.time() - t0))
    return facts_dir


def ensure_fixture_facts():
    ensure_driver()
    facts_dir = os.path.join(CACHE, "facts", "fixtures")
    target_dir = os.path.join(CACHE, "target-fixtures")
    os.makedirs(facts_dir, exist_ok=True)
    lock_path = os.path.join(CACHE, "lock-fixtures")
    with open(lock_path, "w") as lock:
        fcntl.flock(lock, fcntl.LOCK_EX)
        stamp = source_stamp(FIXTURES, ["src", "Cargo.toml"])
        stamp_path = os.path.join(facts_dir, "STAMP")
        have = open(stamp_path).read().strip() if os.path.exists(stamp_path) else ""
        out = os.path.join(facts_dir, "echo_verif_fixtures.jsonl")
        if have == stamp and os.path.exists(out):
            return facts_dir
        _wipe_member_fingerprints(target_dir, ["echo-verif-fixtures"])
        cfg = {"pkgs": ["echo-verif-fixtures"], "features": "", "extra": []}
        r = _run_cargo(FIXTURES, "fixtures", cfg, facts_dir, target_dir)
        if r.returncode != 0 or not os.path.exists(out):
            sys.stderr.write(r.stderr[-4000:])
            raise SystemExit("BROKEN: fixture crate failed to analyse")
        with open(stamp_path, "w") as fh:
            fh.write(stamp)
    return facts_dir


def load_crate(facts_dir, crate_file):
    """Parse one fact file (pickle-cached by mtime+size)."""
    path = os.path.join(facts_dir, crate_file)
    st = os.stat(path)
    pk = path + ".pkl"
    key = (st.st_mtime_ns, st.st_size)
    if os.path.exists(pk):
        try:
            with open(pk, "rb") as fh:
                k, recs = pickle.load(fh)
            if k == key:
                return recs
        except Exception:
            pass
    recs = []
    with open(path, "r") as fh:
        for line in fh:
            if line.startswith('{"k":"fn"'):
                # lazy bodies: parse the header now, keep locals/dbg/blocks as raw text
                i = line.index(',"locals":')
                head = json.loads(line[:i] + "}")
                head["_raw"] = "{" + line[i + 1:]
                recs.append(head)
            else:
                recs.append(json.loads(line))
    try:
        tmp = pk + ".tmp%d" % os.getpid()
        with open(tmp, "wb") as fh:
            pickle.dump((key, recs), fh, protocol=pickle.HIGHEST_PROTOCOL)
        os.replace(tmp, pk)
    except Exception:
        pass
    return recs
