"""Frozen reference sets (confirmed on the pinned tree by reading): `baseline(name, current)` returns the frozen
list; with ECHO_VERIF_REBASELINE=1 it records `current` instead (development only, never at check time)."""
import json
import os

PATH = os.path.join(os.path.dirname(os.path.abspath(__file__)), "baselines.json")
_cache = None


def _load():
    global _cache
    if _cache is None:
        try:
            with open(PATH) as fh:
                _cache = json.load(fh)
        except FileNotFoundError:
            _cache = {}
    return _cache


def baseline(name, current):
    data = _load()
    if os.environ.get("ECHO_VERIF_REBASELINE") == "1":
        data[name] = sorted(current)
        with open(PATH, "w") as fh:
            json.dump(data, fh, indent=1, sort_keys=True)
        return data[name]
    if name not in data:
        raise SystemExit("BROKEN: baseline %s missing (run with ECHO_VERIF_REBASELINE=1 after confirming by reading)" % name)
    return data[name]
