"""A12 linear forms: a tiny abstract interpretation that normalises integer-valued operands to `Σ coef·root + const`.

Used for *relational* rules between sibling sites ("the bound this filter applies equals the bound that validator
enforces"), where the truth is in the arithmetic shape of the code and not in any runtime value.  Value identity is
followed through moves, borrows, int-to-int casts, newtype wrapping/unwrapping, `Option/Result/ControlFlow` payload
projections, `?`, the usual conversion adapters, constant `+`/`-`, the checked/saturating/wrapping add/sub family, and
workspace helper calls (by substituting the callee's own return form — `checked_increment` is +1 because its body says so,
not because of its name).  Anything else becomes an opaque root.  Saturation/overflow fall-backs (`unwrap_or(MAX)`,
`saturating_*` clamping) are ignored: the forms describe the non-overflowing behaviour.

A form is (terms, const) with terms a sorted tuple of (root, coef).  `forms_of` returns a frozenset of forms (several
when a local has several definitions) or None when the value could not be normalised within the budget.
"""
import re

from .engine import op_place

TRANSPARENT = re.compile(
    r"::(try_from|try_into|from|into|branch|unwrap_or|unwrap_or_default|ok_or|ok_or_else|map_err|as_ref|as_mut|clone|"
    r"copied|cloned|deref|to_owned|unwrap|expect|unwrap_unchecked|from_residual|borrow)$")
ADDERS = re.compile(r"::(checked_add|saturating_add|wrapping_add|unchecked_add|strict_add)$")
SUBBERS = re.compile(r"::(checked_sub|saturating_sub|wrapping_sub|unchecked_sub|strict_sub)$")
PAYLOAD_VARIANTS = {"Some", "Ok", "Continue"}
MAX_FORMS = 6


def _const(k):
    return ((), k)


def _root(r):
    return (((r, 1),), 0)


def _add(f, g, sign=1):
    d = {}
    for r, c in f[0]:
        d[r] = d.get(r, 0) + c
    for r, c in g[0]:
        d[r] = d.get(r, 0) + sign * c
    return (tuple(sorted(((r, c) for r, c in d.items() if c), key=repr)), f[1] + sign * g[1])


def _subst(form, mapping):
    """Replace ('param', i, ()) roots by the forms in mapping[i] (cartesian over alternatives)."""
    outs = [_const(form[1])]
    for r, c in form[0]:
        alts = None
        if r[0] == "param" and r[1] in mapping and mapping[r[1]] is not None:
            if r[2]:
                # a field of the argument: keep the field path on each of the argument's single-root forms
                alts = []
                for af in mapping[r[1]]:
                    if len(af[0]) == 1 and af[0][0][1] == 1 and af[1] == 0:
                        rr = af[0][0][0]
                        alts.append(_root((rr[0], rr[1], tuple(rr[2]) + tuple(r[2]))))
                    else:
                        alts.append(_root(("opaque", "field-of-form", r[2])))
            else:
                alts = list(mapping[r[1]])
        if alts is None:
            alts = [_root(r)]
        new = []
        for o in outs:
            for a in alts:
                scaled = (tuple((rr, cc * c) for rr, cc in a[0]), a[1] * c)
                new.append(_add(o, scaled))
        outs = new[:MAX_FORMS * 4]
    return outs


class Affine:
    def __init__(self, prog):
        self.prog = prog
        self._ret = {}

    # ---------------------------------------------------------------- helpers
    def _newtype(self, adt_path):
        a = self.prog.adts.get(adt_path)
        return bool(a and a.get("kind") == "struct" and len(a["variants"]) == 1 and len(a["variants"][0]["fields"]) == 1
                    and a["variants"][0]["fields"][0]["n"] == "0")

    def _int(self, o):
        v = o.get("v")
        if v is None:
            ev = o.get("ev")
            v = ev if isinstance(ev, str) and re.fullmatch(r"-?\d+", ev) else None
        if v is None:
            m = re.fullmatch(r"(-?\d+)_[iu](8|16|32|64|128|size)", str(o.get("k", "")))
            v = m.group(1) if m else None
        try:
            return int(v)
        except (TypeError, ValueError):
            return None

    # ---------------------------------------------------------------- main entry
    def forms_of(self, fn, operand, _seen=None, _depth=0):
        if "k" in operand and "c" not in operand and "m" not in operand:
            k = self._int(operand)
            if k is not None:
                return frozenset([_const(k)])
            return frozenset([_root(("const", str(operand.get("def") or operand.get("k")), ()))])
        p = op_place(operand)
        if p is None:
            return None
        return self.forms_of_place(fn, p, _seen or frozenset(), _depth)

    def forms_of_place(self, fn, place, seen, depth):
        local, proj = place[0], place[1]
        # closure capture: resolve in the enclosing function
        if fn.is_closure() and local == 1 and proj:
            cap = next((e for e in proj if isinstance(e, list) and e[0] == "f" and e[1] == "(closure)"), None)
            if cap is not None:
                rest = proj[proj.index(cap) + 1:]
                base = self._captured(fn, cap[3], depth)
                return self._apply_proj(fn, base, rest, local, seen, depth)
        base = self._local(fn, local, seen, depth, proj)
        return self._apply_proj(fn, base, proj, local, seen, depth)

    def _apply_proj(self, fn, base, proj, local, seen, depth):
        if base is None:
            return None
        steps = []
        for e in proj:
            if e == "*":
                continue
            if isinstance(e, list) and e[0] == "d":
                if e[1] in PAYLOAD_VARIANTS:
                    continue
                steps.append("as:" + e[1])
            elif isinstance(e, list) and e[0] == "f":
                adt, var, name = e[1], e[2], e[3]
                if var in PAYLOAD_VARIANTS and adt.startswith(("std::", "core::")):
                    continue
                if self._newtype(adt):
                    continue
                if adt.startswith("(") and name == "0" and self._overflow_pair(fn, local):
                    continue
                steps.append(name)
            else:
                steps.append("[]")
        if not steps:
            return base
        out = set()
        for f in base:
            if len(f[0]) == 1 and f[0][0][1] == 1 and f[1] == 0:
                r = f[0][0][0]
                out.add(_root((r[0], r[1], tuple(r[2]) + tuple(steps))))
            else:
                out.add(_root(("opaque", "field-of-form", tuple(steps))))
        return frozenset(out)

    def _overflow_pair(self, fn, local):
        for d in fn.defs().get(local, ()):
            if d[0] == "assign" and d[4]["r"] == "bin" and d[4]["op"].endswith("WithOverflow"):
                return True
        return False

    def _captured(self, fn, name, depth):
        parent = self.prog.fns.get(fn.rec.get("parent"))
        if parent is None or depth > 4:
            return frozenset([_root(("upvar", name, ()))])
        for bi, si, place, rv, line in parent.assigns(include_cleanup=True):
            if rv["r"] == "agg" and rv.get("ak") == "closure" and rv.get("adt") == fn.id:
                names = rv.get("fields") or []
                if name in names:
                    r = self.forms_of(parent, rv["os"][names.index(name)], None, depth + 1)
                    if r is not None:
                        return r
        return frozenset([_root(("upvar", name, ()))])

    def _local(self, fn, local, seen, depth, proj=()):
        if local in seen or depth > 12:
            return frozenset([_root(("cycle", local, ()))]) if local in seen else None
        seen = seen | {local}
        out = set()
        defs = fn.defs().get(local, ())
        if not defs:
            return frozenset([_root(("undef", local, ()))])
        for d in defs:
            r = None
            if d[0] == "param":
                kind = "cparam" if fn.is_closure() else "param"
                r = frozenset([_root((kind, d[1], ()))])
            elif d[0] == "assign":
                if d[3][1]:
                    continue  # a field write into the local: not a whole-value definition
                r = self._rvalue(fn, d[4], seen, depth)
            elif d[0] == "call":
                r = self._call(fn, d[2], seen, depth)
            elif d[0] == "callmut":
                continue
            if r is None:
                return None
            out |= r
            if len(out) > MAX_FORMS:
                return None
        return frozenset(out)

    def _rvalue(self, fn, rv, seen, depth):
        k = rv["r"]
        if k in ("use", "rep"):
            return self.forms_of(fn, rv["o"], seen, depth)
        if k in ("ref", "cfd", "raw"):
            return self.forms_of_place(fn, rv["p"], seen, depth)
        if k == "cast":
            ck = str(rv.get("ck"))
            if "IntToInt" in ck or "Transmute" in ck or "PtrToPtr" in ck:
                return self.forms_of(fn, rv["o"], seen, depth)
            return frozenset([_root(("cast", ck, ()))])
        if k == "bin":
            op = rv["op"].replace("WithOverflow", "").replace("Unchecked", "")
            if op in ("Add", "Sub"):
                a = self.forms_of(fn, rv["a"], seen, depth)
                b = self.forms_of(fn, rv["b"], seen, depth)
                if a is None or b is None:
                    return None
                return frozenset(_add(x, y, 1 if op == "Add" else -1) for x in a for y in b)
            return frozenset([_root(("op", rv["op"], ()))])
        if k == "agg":
            if rv.get("ak") == "adt" and len(rv.get("os", [])) == 1 and (
                    self._newtype(rv.get("adt")) or (rv.get("var") in PAYLOAD_VARIANTS and str(rv.get("adt")).startswith(("std::", "core::")))):
                return self.forms_of(fn, rv["os"][0], seen, depth)
            return frozenset([_root(("agg", str(rv.get("adt")), ()))])
        if k == "tlr":
            return frozenset([_root(("static", str(rv.get("def")), ()))])
        return frozenset([_root(("rvalue", k, ()))])

    def _call(self, fn, t, seen, depth):
        callee = fn.callee_of(t) or "(indirect)"
        args = t["args"]
        if ADDERS.search(callee) or SUBBERS.search(callee):
            if len(args) == 2 and callee.startswith(("core::", "std::")):
                a = self.forms_of(fn, args[0], seen, depth)
                b = self.forms_of(fn, args[1], seen, depth)
                if a is None or b is None:
                    return None
                sign = 1 if ADDERS.search(callee) else -1
                return frozenset(_add(x, y, sign) for x in a for y in b)
        if callee.endswith("::map") and len(args) == 2 and callee.startswith(("core::", "std::")):
            f2 = args[1]
            ctor = f2.get("fn") or f2.get("fnd")
            if ctor and self._newtype(ctor):
                return self.forms_of(fn, args[0], seen, depth)
            return frozenset([_root(("call", "map", ()))])
        if TRANSPARENT.search(callee) and callee.startswith(("core::", "std::", "<", "alloc::")) and args:
            return self.forms_of(fn, args[0], seen, depth)
        if callee.endswith("::len") and args:
            base = self.forms_of(fn, args[0], seen, depth)
            if base is None:
                return None
            out = set()
            for f in base:
                if len(f[0]) == 1 and f[0][0][1] == 1 and f[1] == 0:
                    r = f[0][0][0]
                    out.add(_root((r[0], r[1], tuple(r[2]) + ("len()",))))
                else:
                    out.add(_root(("call", "len", ())))
            return frozenset(out)
        h = self.prog.fns.get(callee)
        if h is not None and depth < 6:
            ret = self.ret_forms(h, depth + 1)
            if ret is not None:
                mapping = {}
                for i, a in enumerate(args):
                    mapping[i + 1] = self.forms_of(fn, a, seen, depth)
                out = set()
                for f in ret:
                    for g in _subst(f, mapping):
                        out.add(g)
                if len(out) <= MAX_FORMS:
                    return frozenset(out)
        return frozenset([_root(("call", callee.rsplit("::", 1)[-1], ()))])

    def ret_forms(self, h, depth=0):
        """Forms of a workspace function's return value over its own parameters (None when not normalisable or when
        the function is not a small pure helper)."""
        if h.id in self._ret:
            return self._ret[h.id]
        self._ret[h.id] = None  # recursion guard
        r = None
        if len(h.blocks) <= 24:
            r = self._local(h, 0, frozenset(), depth)
            if r is not None and any(rt[0] in ("cycle", "undef", "rvalue") for f in r for rt, c in f[0]):
                r = None
        self._ret[h.id] = r
        return r


# ---------------------------------------------------------------- comparisons

def single(forms):
    if forms is None or len(forms) != 1:
        return None
    return next(iter(forms))


def upper_bound(kind, fa, fb, is_elem):
    """Normalise `a (kind) b` (true = keep / accept) into  elem <= other + k.  fa/fb are single forms; is_elem(form) tells
    which side carries the bounded quantity.  Returns (other_terms, k) or a string reason."""
    kind = kind.lower()
    if kind not in ("le", "lt", "ge", "gt"):
        return "not an ordering comparison (%s)" % kind
    ea, eb = is_elem(fa), is_elem(fb)
    if ea == eb:
        return "cannot tell the bounded side"
    if eb:
        fa, fb = fb, fa
        kind = {"le": "ge", "lt": "gt", "ge": "le", "gt": "lt"}[kind]
    if kind in ("ge", "gt"):
        return "lower bound"
    # fa = elem + ca ; fb = other + cb ;  elem + ca (<=|<) other + cb
    k = fb[1] - fa[1] - (1 if kind == "lt" else 0)
    return (fb[0], fa[0], k)
