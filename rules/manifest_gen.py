"""Regenerate /verif/MANIFEST.json from the property modules present in rules/props."""
import importlib
import json
import os

VERIF = os.path.dirname(os.path.dirname(os.path.abspath(__file__)))
ALL = ["C%02d" % i for i in range(1, 21)]

BASELINE_OFF = ("cd /repo && cargo nextest run --workspace --no-fail-fast --test-threads 8 --offline "
                "|| cargo test --workspace --no-fail-fast --offline")

NOT_APPLICABLE = {}


def main():
    checks = []
    na = []
    for pid in ALL:
        path = os.path.join(VERIF, "rules", "props", pid + ".py")
        if not os.path.exists(path):
            na.append({"property_id": pid, "reason": NOT_APPLICABLE.get(pid, "static rules for this property are not built yet in this round (design in DESIGN.md §3); not claimed until they are")})
            continue
        mod = importlib.import_module("rules.props." + pid)
        if getattr(mod, "NOT_APPLICABLE", None):
            na.append({"property_id": pid, "reason": mod.NOT_APPLICABLE})
            continue
        checks.append({
            "property_id": pid,
            "quick_cmd": "./check %s --tier quick" % pid,
            "thorough_cmd": "./check %s --tier thorough" % pid,
            "evidence_file": "/verif/evidence/%s.json" % pid,
            "replay_cmd_template": "./check %s --replay {path}" % pid,
            "engine": "echo-static-rules",
            "level_claimed": {
                "category": "other",
                "text": "Static analysis of /repo's current source (rustc MIR + type facts). Decides structural NECESSARY conditions of the "
                        "property on every path of the code; the behaviour itself (the universally quantified equality) is not decided. "
                        + mod.EXPLANATION,
                "design_ref": "DESIGN.md §3 " + pid,
            },
            "level_note": "Trusted base: rustc nightly MIR (mir-opt-level=0) for the configuration the test-suite builds "
                          "(warp-core features native_rule_bootstrap+trusted_runtime, warp-wasm/engine), the /verif/driver exporter, the rule "
                          "tables in rules/props/%s.py (instances confirmed by reading). Assumes: %s" % (pid, "; ".join(getattr(mod, "ASSUMPTIONS", []))),
            "technique": getattr(mod, "TECHNIQUE", "static analysis: custom MIR/type-graph rules (CFG dominance & reachability, field coverage, "
                                                   "sibling agreement, mod-set frame rules, effect reachability) via a rustc_private driver"),
        })
    man = {
        "version": 1,
        "setup_cmd": "./setup.sh",
        "hooks": {
            "guard": "echo_verif",
            "enable": "none needed: the analysis reads the unmodified build (cfg flag echo_verif is reserved and unused)",
            "baseline_off_cmd": BASELINE_OFF,
            "source_commits": [],
            "add_only": True,
        },
        "engines": [
            {"name": "echo-static-rules", "path": "/verif/rules", "serves_properties": [c["property_id"] for c in checks],
             "kind_free_text": "rustc_private MIR/type fact exporter (/verif/driver) + Python rule engine: CFG path rules, field coverage, "
                               "mod-set frame rules, conflict-matrix sibling agreement, effect reachability, type-graph interior-mutability scan"},
        ],
        "checks": checks,
        "not_applicable": na,
        "notes": "Technique family: static analysis only. Every check rebuilds its facts from /repo's current working tree "
                 "(content-stamped cache under /verif/.cache). See DESIGN.md.",
    }
    with open(os.path.join(VERIF, "MANIFEST.json"), "w") as fh:
        json.dump(man, fh, indent=1)
    print("MANIFEST: %d checks, %d not_applicable" % (len(checks), len(na)))


if __name__ == "__main__":
    main()
