"""Machinery self-check against /verif/fixtures (filled in below)."""


def run(rep):
    return
