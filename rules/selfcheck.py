"""Machinery self-check: analyse /verif/fixtures with the same driver and require exactly the expected verdict for every
primitive.  A mismatch means the exporter / engine is broken (nightly drift, a bug): the run aborts as BROKEN and no
property verdict is produced."""
from . import facts as F
from .engine import Program
from .prims import *
from .guards import find_guard

FX = "echo_verif_fixtures::"
_done = {}


def _expect(cond, what):
    if not cond:
        raise SystemExit("BROKEN: fixture self-check failed: " + what)


def run(rep):
    if _done.get("ok"):
        return
    d = F.ensure_fixture_facts()
    p = Program("fixtures", facts_dir=d)
    n = 0
    # A5
    def cells(fn):
        out = set()
        for bb, line, ra, aa in call_pairs(p.fn(FX + fn), r"::intersects$"):
            for (pa, fa) in ra:
                for (pb, fb) in aa:
                    if pa != pb and fa and fb:
                        out.add((fa[-1], fb[-1]) if pa == 1 else (fb[-1], fa[-1]))
        return out
    _expect(cells("conflict_full") == {("w", "w"), ("w", "r"), ("r", "w")}, "A5 full matrix")
    _expect(cells("conflict_missing_cell") == {("w", "w"), ("w", "r")}, "A5 missing cell")
    _expect(bool_call_polarity(p.fn(FX + "conflict_full"), p.fn(FX + "conflict_full").call_sites(r"::intersects$")[0]) in ("true", "result"), "A5 polarity")
    n += 3
    # A3
    full, allf, _ = writer_coverage(p, p.fn(FX + "encode_all"), FX + "Rec")
    drop, _, _ = writer_coverage(p, p.fn(FX + "encode_drops_kind"), FX + "Rec")
    _expect(set(allf) == {"id", "kind", "body"} and full == {"id", "kind", "body"}, "A3 full coverage (incl. helper return summary): %s" % sorted(full))
    _expect(drop == {"id", "body"}, "A3 dropped field: %s" % sorted(drop))
    n += 2
    # A6
    _expect(all(not m for bb, m, a in match_absorbed(p.fn(FX + "total"), FX + "Op")) and match_absorbed(p.fn(FX + "total"), FX + "Op"), "A6 total")
    _expect(any(m == {"B", "C"} for bb, m, a in match_absorbed(p.fn(FX + "wildcard"), FX + "Op")), "A6 wildcard absorbs B,C")
    n += 2
    # A1 / A4
    St = FX + "St"
    ok_fn, bad_fn = p.fn(St + "::rollback_ok"), p.fn(St + "::rollback_skipped")
    for f, want in ((ok_fn, True), (bad_fn, False)):
        restores = f.call_sites(r"St::restore$")
        oks, errs = ok_return_blocks(f)
        mut = assign_blocks(f, St, "a")
        w = f.path([f.blocks[mut[0]]["t"].get("tgt", mut[0]) if False else mut[0]], errs, avoid_blocks=restores)
        _expect((w is None) == want, "A1 rollback path rule on %s" % f.name)
    _expect(set(mod_set([bad_fn], St)) - set(mod_set([p.fn(St + "::restore")], St)) == {"b"}, "A4 frame rule finds unrestored field b")
    n += 3
    # A2
    GE = FX + "GErr"
    _expect(find_guard(p, p.fn(FX + "guard_gates"), GE, "Mismatch", {"c:compute"}, {"f:expected"})[0] == "ok", "A2 gating guard")
    _expect(find_guard(p, p.fn(FX + "guard_wrong_operands"), GE, "Mismatch", {"c:compute"}, {"f:expected"})[0] == "no-compare", "A2 wrong operands")
    _expect(find_guard(p, p.fn(FX + "guard_not_gating"), GE, "Mismatch", {"c:compute"}, {"f:expected"})[0] in ("not-gating", "no-compare"), "A2 non-gating guard")
    n += 3
    # A8
    _expect(not interior_mut(p, FX + "Plain")[0] and len(interior_mut(p, FX + "WithCell")[0]) >= 1, "A8 interior mutability scan")
    n += 1
    # error discipline
    def insp(fn):
        f = p.fn(FX + fn)
        return result_inspected(f, f.call_sites(r"fixtures::fallible$")[0])[0]
    _expect(insp("result_propagated") and not insp("result_dropped") and not insp("result_dropped_via_ok"), "result_inspected idioms")
    n += 1
    # tag tables
    from .props.C12 import code_map, from_code_map
    _expect(code_map(p.fn(FX + "Tag::code"), FX + "Tag") == {"X": 1, "Y": 2} and from_code_map(p.fn(FX + "Tag::from_code"), FX + "Tag") == {1: "X", 2: "Y"}, "A10 tag tables")
    n += 1
    # C13 shapes
    from .props.C13 import upper_bound_gate, reader_atoms
    def alloc_ok(fn):
        f = p.fn(FX + fn)
        b = f.call_sites(r"with_capacity$")[0]
        return upper_bound_gate(f, f.blocks[b]["t"]["args"][0], b)[0]
    _expect(not alloc_ok("decode_unbounded") and alloc_ok("decode_bounded_compare") and alloc_ok("decode_bounded_helper"), "C13 allocation gates")
    n += 1
    # advance after append
    W = FX + "Wal"
    for fn, want in (("advance_after", True), ("advance_before", False)):
        f = p.fn(W + "::" + fn)
        ap = f.call_sites(r"fixtures::append$")[0]
        re_ = result_edges(f, ap)
        blocks = self_field_assign_blocks(f, W).get("next", [])
        _expect((reachable_without_edges(f, blocks, re_["ok"]) is None) == want, "A1 advance-after-append on %s" % fn)
    n += 2
    # A12 linear forms
    from .affine import Affine, single, upper_bound
    A = Affine(p)
    def bound_k(fn):
        f = p.fn(FX + fn)
        for cid in p.closures_in(f.id):
            c = p.fns[cid]
            for cmp in comparisons(c):
                fa, fb = single(A.forms_of(c, cmp[2])), single(A.forms_of(c, cmp[3]))
                if fa is None or fb is None:
                    continue
                ub = upper_bound(cmp[1], fa, fb, lambda fm: any(r[2] and r[2][-1] == "tick" for r, k in fm[0]))
                if isinstance(ub, tuple) and ub[0] == ((("param", 2, ()), 1),):
                    return ub[2]
        return None
    ks = [bound_k("keep_le_plus_one"), bound_k("keep_lt_plus_two"), bound_k("keep_le_plus_two")]
    _expect(ks == [1, 1, 2], "A12 linear forms normalise the three filter bounds to +1, +1, +2 (got %s)" % ks)
    n += 1
    # ---- round-2 primitives
    tys = ("u8",)
    _expect(open_tag_dispatches(p.fn(FX + "tag_closed"), tys) == [] and open_tag_dispatches(p.fn(FX + "tag_closed_chain"), tys) == [], "closed tag dispatch (match and if-chain)")
    _expect(bool(open_tag_dispatches(p.fn(FX + "tag_open"), tys)), "open tag dispatch is reported")
    n += 2
    def early(fn):
        return [e for (h, body, ne, ex) in iterator_loops(p.fn(FX + fn)) for e in ex]
    _expect(not early("fold_all") and bool(early("fold_early_exit")), "loop early-exit detection")
    n += 1
    from .guards import guard_strength, check_zip_lengths, coarse_condition
    def rel(fn):
        gs = guard_strength(p, p.fn(FX + fn), GE, "Mismatch", {"c:compute"}, {"f:expected"})
        return (sorted(gs["relations"]), sorted(coarse_condition(d) for b, d in gs["deciders"] if not d.startswith("disc:"))) if gs else None
    _expect(rel("rel_ne") == (["ANeB"], []) and rel("rel_ne_negated_eq") == (["ANeB"], []), "guard relation normalises != and !(==): %s %s" % (rel("rel_ne"), rel("rel_ne_negated_eq")))
    _expect(rel("rel_lt") is not None and rel("rel_lt")[0] == ["ALtB"], "weakened relation is seen as A<B: %s" % (rel("rel_lt"),))
    _expect(rel("rel_conditional") is not None and rel("rel_conditional")[1] == ["cmp:f:len"], "bypass decider found: %s" % (rel("rel_conditional"),))
    _expect(find_guard(p, p.fn(FX + "rel_ne_in_helper"), GE, "Mismatch", {"c:compute"}, {"f:expected"})[0] == "ok", "gate found in a helper called from a closure")
    n += 4

    class _R:
        def __init__(self):
            self.v = []

        def check(self, cond, rule, key, *a, **k):
            self.v.append((key, bool(cond)))
            return cond
    r_ = _R()
    check_zip_lengths(r_, "x", p, p.fn(FX + "zip_no_length_gate"))
    check_zip_lengths(r_, "x", p, p.fn(FX + "zip_with_length_gate"))
    _expect([ok for k, ok in r_.v] == [False, True], "zip length gate: %s" % r_.v)
    n += 1
    from .guards import check_whole_sequence
    r_ = _R()
    for nm in ("validates_computed_suffix", "validates_computed_slice", "validates_adjacent_pairs"):
        check_whole_sequence(r_, "x", p, p.fn(FX + nm))
    _expect([ok for k, ok in r_.v] == [False, False, True], "whole-sequence narrowing: %s" % r_.v)
    n += 1
    f_ = p.fn(FX + "presence_via_ok_or")
    g_ = f_.call_sites(r"BTreeMap.*::get$")[0]
    pe = presence_edges(f_, g_)
    _expect(bool(pe["absent"]) and bool(pe["present"]) and absent_blocks_mutation(f_, g_, f_.call_sites(r"Vec.*::push$")) == (True, None), "presence edges through ok_or(..)?")
    n += 1
    # helper-inlined view: a helper that is not in the frozen function list is inlined, its comparison becomes visible
    from .inline import inline_view
    v_, _pp = inline_view(p, p.fn(FX + "rel_ne_in_helper"), policy=lambda prog, caller, callee: callee.name == "extracted_check")
    _expect(v_ is not p.fn(FX + "rel_ne_in_helper") and len(comparisons(v_)) >= 1 and any((v_.callee_of(t) or "").endswith("::compute") for b, t in v_.calls()),
            "inline view splices the closure and inlines the helper")
    n += 1
    rep.note("fixture self-check: %d primitive verdicts matched" % n)
    _done["ok"] = True
