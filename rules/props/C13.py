"""C13 — decoders and byte-level entry points are total."""
from ..prims import *
from ..guards import side_tokens, find_guard
from ..baselines import baseline
from ..engine import place_local, field_steps, op_place

EXPLANATION = (
    "Structural necessary conditions of C13 over every byte-level entry point found in the workspace (functions taking "
    "a byte slice whose name marks them as decoders/readers/unpackers, plus the wasm exports): (R1) explicit panic "
    "constructs (unwrap/expect/panic!/unreachable!/assert!) reachable from an entry point are an enumerated, individually "
    "reasoned set — a new one is reported; (R2) allocation is bounded by the input: every pre-allocation whose size derives "
    "from a value read from the input is dominated by an UPPER-bound gate on that value (against remaining length, a named "
    "cap, a clamp), or the value comes from a reader helper that gates what it returns; (R3) recursion carries a budget: "
    "every recursive function that consumes input bytes compares a depth/budget parameter before recursing; (R4) wasm "
    "exports decode with a matched error arm (no unwrap on the request path); (R5) section offsets/lengths are gated before "
    "slicing. Bounds-check panics on slice indexing, loop termination and proportionality beyond pre-allocation are NOT decided."
    ' Round 2: (R6) a 64-bit length read from the input is never added/multiplied with plain arithmetic before an upper-bound gate (evaluated on the helper-inlined view); (R7) a constant index into a Vec filled from the input is dominated by a non-emptiness gate on the Vec or its declared count.'
    ' Round 6: (R8) in a recursive decoder that debits a cumulative node budget before pre-allocating, every input-sized pre-allocation is dominated by such a debit (sibling arms agree).'
    ' Every recursive call passes an ADVANCED depth (x + k, checked_add) — a call that passes the depth on unchanged makes the bound vacuous.'
)
ASSUMPTIONS = ["third-party decoders (minicbor, ciborium, serde) are total", "indexing safety is value-range reasoning and out of static reach"]
FLOOR = 60

ENTRY_PAT = r"(decode|from_\w*bytes|unpack|parse|read_|dec_value|from_retained|validate_wsc|recover_wal_segment_bytes|from_cbor|observe_wal_projection)"
PANICS = re.compile(r"^core::panicking::(panic|panic_fmt|panic_display|panic_explicit|panic_str|unreachable_display|assert_failed|panic_nounwind\w*)$|"
                    r"^std::rt::(begin_panic|panic_fmt)|^core::(option|result)::(unwrap_failed|expect_failed)$|"
                    r"Option::<T>::(unwrap|expect)$|Result::<T, E>::(unwrap|expect|unwrap_err|expect_err)$|^std::panic::panic_any$|^std::process::(abort|exit)$")
ALLOC = re.compile(r"Vec::<T>::with_capacity$|String::with_capacity$|Vec::<T, A>::reserve(_exact)?$|vec::from_elem$|Vec::<T, A>::resize$|VecDeque.*::with_capacity$|BytesMut::with_capacity$|Vec::<T>::with_capacity_in$")
TRIVIAL = re.compile(r"::(try_from|try_into|from|into|branch|unwrap_or|unwrap_or_default|ok_or|ok_or_else|map_err|map|as_ref|clone|copied|cloned|deref|min|max|checked_mul|checked_add|saturating_mul|saturating_add|from_residual)$")
LENISH = re.compile(r"::(len|remaining\w*|saturating_sub)$")


def entry_points(prog):
    out = []
    for f in prog.fns.values():
        if f.is_closure() or not f.crate.startswith(("warp_core", "echo_", "warp_wasm")):
            continue
        if f.file.endswith("_tests.rs") or "/tests/" in f.file:
            continue
        pt = fn_param_tys(f)
        bytes_in = any(t.startswith("&[u8]") or t.startswith("&'a [u8]") for t in pt)
        if bytes_in and (re.search(ENTRY_PAT, f.name) or (f.crate == "warp_wasm" and f.vis == "pub")):
            out.append(f)
    return out


def reader_atoms(fn, operand):
    """Non-trivial calls the value was read by (value identity through conversions / `?` / checked arithmetic)."""
    return {x for x in near_origins(fn, operand) if x[0] == "call" and not LENISH.search(x[1])}


def lenlike(fn, operand):
    no = near_origins(fn, operand)
    return any(x[0] == "call" and LENISH.search(x[1]) for x in no) or any(x[0] == "const" and isinstance(x[1], str) and "::" in x[1] for x in no) or any(x[0] == "param" for x in no)


def upper_bound_gate(fn, size_operand, alloc_bb):
    """A comparison dominating alloc_bb where one side is (derived from) the same read as the size and the
    'size is larger' outcome cannot reach the allocation."""
    ra = reader_atoms(fn, size_operand)
    for (bb, kind, a, b, res, line) in comparisons(fn):
        k = kind.lower() if isinstance(kind, str) else kind
        if k not in ("gt", "ge", "lt", "le"):
            continue
        la, lb = reader_atoms(fn, a), reader_atoms(fn, b)
        if ra & la and not (ra & lb):
            side = "L"
        elif ra & lb and not (ra & la):
            side = "R"
        else:
            continue
        larger_is_true = (side == "L" and k in ("gt", "ge")) or (side == "R" and k in ("lt", "le"))
        for sw in switch_edges_on_local(fn, res):
            rej = sw["true"] if larger_is_true else sw["false"]
            acc = sw["false"] if larger_is_true else sw["true"]
            reach = fn.reachable([rej], avoid_edges=[(sw["sw"], acc)], avoid_blocks=[sw["sw"]])
            if alloc_bb not in reach and fn.path([0], [alloc_bb], avoid_blocks=[sw["sw"]]) is None:
                return True, "upper-bound compare@%s" % line
    # idiom: a `?`-propagated call to a gating helper (`need(bytes, idx, len)?`) that receives the size and dominates the allocation
    prog = fn.prog
    for bi, t in fn.calls():
        callee = fn.callee_of(t) or ""
        if callee not in prog.fns or fn.blocks[bi]["cl"] or "Result" not in fn.locals[t["dest"][0]]:
            continue
        for ai, a in enumerate(t["args"]):
            if ra & reader_atoms(fn, a) and param_upper_gated(prog, callee, ai + 1):
                if result_inspected(fn, bi)[0] and fn.path([0], [alloc_bb], avoid_blocks=[bi]) is None:
                    re_ = result_edges(fn, bi)
                    if re_["err"] and all(alloc_bb not in fn.reachable([tgt], avoid_edges=set(re_["ok"])) for (sw, tgt) in re_["err"]):
                        return True, "gated by %s(..)?@%s" % (callee.rsplit("::", 1)[-1], t.get("line"))
    return False, ""


_pgate = {}


def param_upper_gated(prog, fid, pidx):
    """Helper `fid` rejects (no success return) when its parameter `pidx` exceeds a length-like bound."""
    key = (fid, pidx)
    if key in _pgate:
        return _pgate[key]
    f = prog.fns[fid]
    goal = success_defs(f)
    res = False
    for (bb, kind, a, b, r, line) in comparisons(f):
        k = kind.lower() if isinstance(kind, str) else kind
        if k not in ("gt", "ge", "lt", "le"):
            continue
        na, nb = near_origins(f, a), near_origins(f, b)
        for side, mine, other_op in (("L", na, b), ("R", nb, a)):
            if ("param", pidx) not in mine or not lenlike(f, other_op):
                continue
            larger_is_true = (side == "L" and k in ("gt", "ge")) or (side == "R" and k in ("lt", "le"))
            for sw in switch_edges_on_local(f, r):
                rej = sw["true"] if larger_is_true else sw["false"]
                acc = sw["false"] if larger_is_true else sw["true"]
                reach = f.reachable([rej], avoid_edges=[(sw["sw"], acc)], avoid_blocks=[sw["sw"]])
                if not any(g in reach for g in goal):
                    res = True
    _pgate[key] = res
    return res


_selfbound = {}


def success_defs(fn):
    """Blocks that give the return place a non-error value (Ok/Some aggregate, a call result, a plain value)."""
    out = []
    for bi, b in enumerate(fn.blocks):
        if b["cl"]:
            continue
        for st in b["st"]:
            if st[0] == "a" and st[1][0] == 0 and not st[1][1]:
                rv = st[2]
                if rv["r"] == "agg" and rv.get("var") in ("Err", "None"):
                    continue
                out.append(bi)
        t = b["t"]
        if t["t"] == "call" and t["dest"][0] == 0 and not t["dest"][1]:
            d = t["fn"].get("d", "") if "d" in t["fn"] else ""
            if not d.endswith("from_residual"):
                out.append(bi)
    return out


def self_bounding(prog, fid, depth=0):
    """A reader helper that gates the value it returns: an upper-bound comparison inside it (or inside the helper whose
    result it returns) rejects the value when it exceeds a length-like / named bound."""
    if fid in _selfbound:
        return _selfbound[fid]
    f = prog.fns.get(fid)
    if f is None or depth > 3:
        return False
    _selfbound[fid] = False
    ret = near_origins(f, {"c": [0, []]})
    ra = {x for x in ret if x[0] in ("call", "param")}
    goal = success_defs(f)
    res = False
    for (bb, kind, a, b, r, line) in comparisons(f):
        k = kind.lower() if isinstance(kind, str) else kind
        if k not in ("gt", "ge", "lt", "le"):
            continue
        na, nb = near_origins(f, a), near_origins(f, b)
        la = {x for x in na if x[0] in ("call", "param")}
        lb = {x for x in nb if x[0] in ("call", "param")}
        for side, mine, other_op in (("L", la, b), ("R", lb, a)):
            if not (ra & mine) or not lenlike(f, other_op):
                continue
            larger_is_true = (side == "L" and k in ("gt", "ge")) or (side == "R" and k in ("lt", "le"))
            for sw in switch_edges_on_local(f, r):
                rej = sw["true"] if larger_is_true else sw["false"]
                acc = sw["false"] if larger_is_true else sw["true"]
                reach = f.reachable([rej], avoid_edges=[(sw["sw"], acc)], avoid_blocks=[sw["sw"]])
                if not any(g in reach for g in goal):
                    res = True
    if not res:
        for x in ra:
            if x[0] == "call" and x[1] in prog.fns and x[1] != fid:
                if self_bounding(prog, x[1], depth + 1):
                    res = True
    _selfbound[fid] = res
    return res


def _assert_restates_callers_gate(prog, fid, entries):
    """`debug_assert!(bytes.len() >= HEADER)` / `assert!(..)` inside a non-entry helper `fid`, where EVERY workspace caller
    reaches the call only past a comparison of the same two things (helper parameters replaced by the caller's arguments)
    whose other outcome cannot reach the call."""
    from ..guards import side_tokens
    h = prog.fns.get(fid)
    if h is None or h.is_closure() or any(e.id == fid for e in entries):
        return False
    pan = [bi for bi, t in h.calls() if PANICS.search(h.callee_of(t) or "") and not h.blocks[bi]["cl"]]
    if len(pan) != 1 or not (h.callee_of(h.blocks[pan[0]]["t"]) or "").endswith(("panicking::panic", "panicking::assert_failed", "panicking::panic_fmt")):
        return False
    # the comparison that decides the assertion: one outcome reaches the panic, the other cannot
    deciding = None
    for cmp in comparisons(h):
        for sw in switch_edges_on_local(h, cmp[4]):
            for bad, good in ((sw["true"], sw["false"]), (sw["false"], sw["true"])):
                if pan[0] in h.reachable([bad], avoid_edges=[(sw["sw"], good)]) and pan[0] not in h.reachable([good], avoid_edges=[(sw["sw"], bad)]):
                    deciding = cmp
    if deciding is None:
        return False
    ta, tb = side_tokens(h, deciding[2]), side_tokens(h, deciding[3])
    callers = [(g, bi, t) for g in prog.fns.values() if g.crate == h.crate for bi, t in g.calls() if (g.callee_of(t) or "") == fid and not g.blocks[bi]["cl"]]
    if not callers:
        return False
    for g, bi, t in callers:
        sub = {"p:%d" % (ai + 1): side_tokens(g, a) for ai, a in enumerate(t["args"])}

        def translate(toks):
            out = set()
            for x in toks:
                out |= sub.get(x, {x}) if x.startswith("p:") else {x}
            return {x for x in out if x.startswith(("c:", "k:", "f:"))}
        wa, wb = translate(ta), translate(tb)
        ok_ = False
        for cmp in comparisons(g):
            ga, gb = side_tokens(g, cmp[2]), side_tokens(g, cmp[3])
            if not ((wa <= ga and wb <= gb) or (wa <= gb and wb <= ga)):
                continue
            for sw in switch_edges_on_local(g, cmp[4]):
                for rej, acc in ((sw["true"], sw["false"]), (sw["false"], sw["true"])):
                    if bi not in g.reachable([rej], avoid_edges=[(sw["sw"], acc)], avoid_blocks=[sw["sw"]]) and g.path([0], [bi], avoid_blocks=[sw["sw"]]) is None:
                        ok_ = True
        if not ok_:
            return False
    return True


def _advanced(fn, operand, depth=0, seen=None):
    """Does the value pass through an addition of a constant (x + 1, checked_add(1), saturating_add(1)) on its way here?"""
    seen = seen if seen is not None else set()
    pl = op_place(operand)
    if pl is None or pl[0] in seen or depth > 8:
        return False
    seen.add(pl[0])
    for d in fn.defs().get(pl[0], ()):
        if d[0] == "assign":
            rv = d[4]
            if rv["r"] == "bin" and rv["op"] in ("Add", "AddWithOverflow", "AddUnchecked"):
                if (const_int(rv["a"]) or 0) >= 1 or (const_int(rv["b"]) or 0) >= 1:
                    return True
            for o2 in operands_of_rvalue(rv):
                if _advanced(fn, o2, depth + 1, seen):
                    return True
            if "p" in rv and _advanced(fn, {"c": rv["p"]}, depth + 1, seen):
                return True
        elif d[0] == "call":
            c = fn.callee_of(d[2]) or ""
            if re.search(r"::(checked_add|saturating_add|wrapping_add)$", c) and any((const_int(a) or 0) >= 1 for a in d[2]["args"]):
                return True
            if TRIVIAL.search(c):
                for a in d[2]["args"]:
                    if _advanced(fn, a, depth + 1, seen):
                        return True
    return False


def run(ctx):
    rep = ctx.report
    prog = ctx.prog("trusted")
    rep.rule("C13.R1", "A9 explicit panic constructs reachable from byte-level entry points: enumerated and reasoned")
    rep.rule("C13.R2", "A2 input-derived pre-allocation is dominated by an upper-bound gate / comes from a gating reader / is clamped")
    rep.rule("C13.R3", "recursion over input bytes carries a compared depth/budget parameter")
    rep.rule("C13.R4", "A1 wasm exports decode with an error arm")
    rep.rule("C13.R5", "A2 offsets/lengths gated before slicing")

    E = entry_points(prog)
    rep.check(len(E) >= 60, "C13.R1", "entries:count", "%d byte-level entry points discovered" % len(E), "only %d byte-level entry points discovered" % len(E), site="workspace")
    fns, ext = tree(prog, E)
    ids = {f.id for f in fns}
    rep.note("decoder trees: %d functions, %d external callees" % (len(fns), len(ext)))

    # ---- R1
    sites = set()
    for f in fns:
        if not f.crate.startswith(("warp_core", "echo_", "warp_wasm")):
            continue
        for bi, t in f.calls():
            if f.blocks[bi]["cl"]:
                continue
            c = f.callee_of(t) or ""
            if PANICS.search(c):
                kind = c.rsplit("::", 1)[-1]
                sites.add("%s|%s" % (f.id, kind))
    base = baseline("C13.panic_sites", sorted(sites))
    new_sites = sorted(sites - set(base))
    # an ASSERTION in a helper that merely restates a gate every caller already performed cannot fire: accept it
    new_sites = [s_ for s_ in new_sites if not _assert_restates_callers_gate(prog, s_.split("|")[0], E)]
    rep.check(not new_sites, "C13.R1", "panic-constructs:no-new", "%d explicit panic constructs reachable, all enumerated and reasoned (rules/baselines.json C13.panic_sites)" % len(sites),
              "new explicit panic construct(s) reachable from a byte-level entry point: %s" % new_sites[:4], site=new_sites[0].split("|")[0] if new_sites else "workspace")
    for s in sorted(sites & set(base))[:400]:
        rep.ok("C13.R1", "panic-site:" + s, "enumerated (see DESIGN.md C13 table)", site=s.split("|")[0])

    # ---- R2
    n_alloc = 0
    ordinal = {}
    for f in fns:
        if not f.crate.startswith(("warp_core", "echo_", "warp_wasm")):
            continue
        for bi, t in f.calls():
            if f.blocks[bi]["cl"]:
                continue
            c = f.callee_of(t) or ""
            if not ALLOC.search(c):
                continue
            if c.endswith("from_elem") or c.endswith("::resize") or "reserve" in c.rsplit("::", 1)[-1]:
                arg = t["args"][1]
            else:
                arg = t["args"][-1]
            ra = reader_atoms(f, arg)
            if not ra:
                continue  # constant, or len() of data already in memory: proportional by construction
            n_alloc += 1
            base_key = "alloc:%s@%s" % (f.id.replace("warp_core::", ""), sorted(x[1].rsplit("::", 1)[-1] for x in ra)[0])
            ordinal[base_key] = ordinal.get(base_key, 0) + 1
            key = "%s#%d" % (base_key, ordinal[base_key])
            clamp = any(x[0] == "call" and re.search(r"::min$", x[1]) for x in near_origins(f, arg))
            gate, how = upper_bound_gate(f, arg, bi)
            helper = [x[1] for x in ra if x[1] in prog.fns and self_bounding(prog, x[1])]
            okb = clamp or gate or bool(helper)
            why = "clamped by min" if clamp else (how if gate else ("size read by gating helper %s" % helper[0].rsplit("::", 1)[-1] if helper else ""))
            rep.check(okb, "C13.R2", key, why,
                      "pre-allocation sized by a value read from the input (%s) with no upper-bound gate against the remaining input, a cap, or a clamp: a few input bytes can "
                      "request an arbitrarily large allocation" % sorted(x[1].rsplit("::", 1)[-1] for x in ra), site=f.loc(t.get("line")))
    rep.check(n_alloc >= 15, "C13.R2", "alloc:sites", "%d input-sized pre-allocations examined" % n_alloc, "only %d input-sized pre-allocations found" % n_alloc, site="workspace")

    # ---- R3
    import sys
    sys.setrecursionlimit(20000)
    index, low, st, on, sccs, ctr = {}, {}, [], set(), [], [0]

    def sc(v):
        index[v] = low[v] = ctr[0]
        ctr[0] += 1
        st.append(v)
        on.add(v)
        for w in prog.callees(v)[0]:
            if w not in ids:
                continue
            if w not in index:
                sc(w)
                low[v] = min(low[v], low[w])
            elif w in on:
                low[v] = min(low[v], index[w])
        if low[v] == index[v]:
            comp = []
            while True:
                w = st.pop()
                on.discard(w)
                comp.append(w)
                if w == v:
                    break
            sccs.append(comp)
    for v in sorted(ids):
        if v not in index:
            sc(v)
    n_rec = 0
    for comp in sccs:
        if not (len(comp) > 1 or comp[0] in prog.callees(comp[0])[0]):
            continue
        members = [prog.fns[c] for c in comp]
        consumes = False
        for m in members:
            if m.is_closure():
                continue
            pt = fn_param_tys(m)
            if any("[u8]" in t or "Decoder" in t or "Cursor" in t or "Reader" in t for t in pt):
                consumes = True
        if not consumes:
            continue
        n_rec += 1
        budget = False
        stalled = []
        for m in members:
            if m.is_closure():
                continue
            og = m.origins()
            rec_calls = [bi for bi, t in m.calls() if (m.callee_of(t) or "") in comp]
            int_params = [i + 1 for i, t in enumerate(fn_param_tys(m)) if t in ("usize", "u32", "u16", "u64", "u8")]
            for i in int_params:
                # a gate on the parameter: comparison in m, or a `?`-propagated helper call on it, dominating the recursive calls
                gates = []
                for (bb, kind, a, b, r, line) in comparisons(m):
                    if any(x.kind == "param" and x.key == i and not x.steps for x in og.of_operand(a, deep=True) | og.of_operand(b, deep=True)):
                        gates.append(bb)
                for bi, t in m.calls():
                    c = m.callee_of(t) or ""
                    if c in prog.fns and c not in comp and "Result" in m.locals[t["dest"][0]]:
                        if any(any(x.kind == "param" and x.key == i and not x.steps for x in og.of_operand(a_, deep=True)) for a_ in t["args"]):
                            if any(any(y.kind == "param" for y in prog.fns[c].origins().of_operand(o, deep=True)) for cmp_ in comparisons(prog.fns[c]) for o in (cmp_[2], cmp_[3])):
                                gates.append(bi)
                passes_inc = any(any(x.kind == "param" and x.key == i for x in og.of_operand(a_, deep=True)) for bi in rec_calls for a_ in m.blocks[bi]["t"]["args"])
                if gates and rec_calls and passes_inc and dominates(m, gates, rec_calls) is None:
                    budget = True
                    # ... and every recursive call ADVANCES it: passing the depth on unchanged makes the bound vacuous on that path
                    for bi in rec_calls:
                        for a_ in m.blocks[bi]["t"]["args"]:
                            if not any(x.kind == "param" and x.key == i and not x.steps for x in og.of_operand(a_, deep=True)):
                                continue
                            if m.locals[op_place(a_)[0]] not in ("usize", "u32", "u16", "u64", "u8") if op_place(a_) else True:
                                continue
                            if not _advanced(m, a_):
                                stalled.append((m.name, m.block_line(bi)))
        name = sorted(comp)[0]
        if budget:
            rep.check(not stalled, "C13.R3", "recursion-advances-depth:%s" % name.replace("warp_core::", ""), "every recursive call passes an advanced depth",
                      "a recursive call passes the depth/budget parameter on UNCHANGED (%s): nesting through that path is not counted, so the depth bound does not bound it "
                      "(stack overflow on deeply nested input)" % stalled[:2], site=prog.fns[name].loc())
        rep.check(budget, "C13.R3", "recursion-budget:%s" % name.replace("warp_core::", ""), "recursion carries a compared depth/budget parameter",
                  "%s recurses over input bytes without a depth/budget bound: nesting depth is attacker-controlled (stack overflow)" % name, site=prog.fns[name].loc())
    rep.check(n_rec >= 2, "C13.R3", "recursion:sites", "%d input-consuming recursive components examined" % n_rec, "only %d input-consuming recursive components found" % n_rec, site="workspace")

    # ---- R8 cumulative reservation in recursive decoders (sibling agreement; round 6, seed S91)
    # A gate against the REMAINING input (R2) bounds one pre-allocation; in a recursive decoder every open nesting level
    # holds its own pre-allocation at the same time, so the live total is depth x bound unless the allocations draw on one
    # cumulative budget.  Where the repository already debits such a budget before an input-sized pre-allocation (a
    # `&mut self` helper that writes a self field from a checked subtraction of that same field, e.g. Decoder::reserve_nodes),
    # EVERY input-sized pre-allocation of that recursive function must be dominated by a debit: the array arm and the map
    # arm are siblings.  Decoders with no cumulative budget at all are not judged (nothing to agree with).
    rep.rule("C13.R8", "recursive decoders: every input-sized pre-allocation is dominated by the cumulative-budget debit its siblings perform")

    def debit_helper(g):
        if g is None or g.is_closure() or g.argc < 1 or not fn_param_tys(g)[0].startswith("&mut "):
            return False
        if not g.call_sites(r"::checked_sub$"):
            return False
        written = set()
        read = set()
        for bi, si, place, rv, line in g.assigns():
            if place_local(place) == 1:
                written |= {fs[2] for fs in field_steps(place)}
            if rv["r"] == "use":
                pl = op_place(rv["o"])
                if pl and place_local(pl) == 1:
                    read |= {fs[2] for fs in field_steps(pl)}
        return bool(written & read)
    n_cum = 0
    for comp in sccs:
        if not (len(comp) > 1 or comp[0] in prog.callees(comp[0])[0]):
            continue
        for fid in comp:
            f = prog.fns[fid]
            if f.is_closure() or not f.crate.startswith(("warp_core", "echo_", "warp_wasm")):
                continue
            debit_blocks = [bi for bi, t in f.calls() if not f.blocks[bi]["cl"] and debit_helper(prog.fns.get(f.callee_of(t) or ""))
                            and len(t["args"]) >= 2 and reader_atoms(f, t["args"][1])]  # the debit is sized by a value read from the input (a constant per-value charge is not a reservation)
            if not debit_blocks:
                continue
            allocs = []
            for bi, t in f.calls():
                if f.blocks[bi]["cl"] or not ALLOC.search(f.callee_of(t) or ""):
                    continue
                if reader_atoms(f, t["args"][-1]):
                    allocs.append((bi, t))
            for k, (bi, t) in enumerate(allocs, 1):
                n_cum += 1
                w = dominates(f, debit_blocks, [bi])
                rep.check(w is None, "C13.R8", "cumulative-reservation:%s#%d" % (f.id.replace("warp_core::", ""), k),
                          "pre-allocation is dominated by a cumulative-budget debit (%s)" % sorted({(f.callee_of(f.blocks[b]["t"]) or "").rsplit("::", 1)[-1] for b in debit_blocks}),
                          "input-sized pre-allocation at line %s of recursive decoder %s is reachable without the cumulative-budget debit its sibling arms perform: every open nesting "
                          "level can hold a full-size allocation at once (allocation amplification depth x bound)" % (t.get("line"), f.name), site=f.loc(t.get("line")))
    rep.check(n_cum >= 2, "C13.R8", "cumulative-reservation:sites", "%d pre-allocations in budgeted recursive decoders examined" % n_cum,
              "only %d pre-allocations in budgeted recursive decoders found (expected the Edict array and map arms)" % n_cum, site="workspace")

    # ---- R6 unchecked arithmetic on a declared length
    # A 64-bit length/count read from the input that is ADDED (or multiplied) with plain `+`/`*` before any upper bound
    # was established overflows for a hostile value: a debug build panics in the add, a release build wraps and panics in
    # the following slice.  The repository's idiom is "bound first (need(), a remaining-length compare, checked_add), then
    # add".  Evaluated on the helper-inlined view so that a cursor helper that adds its `n` parameter is judged with the
    # caller's argument.  128-bit arithmetic (cannot overflow from a 64-bit source) and the `&mut` cursor operand itself
    # (flow-insensitively merged) are not judged.
    from ..inline import inline_view
    rep.rule("C13.R6", "a 64-bit declared length is never added/multiplied with plain arithmetic before an upper-bound gate")
    DECL = re.compile(r"::(read_len|read_u64|read_uint|read_count|read_usize|read_varint|read_u128)$|::from_[lb]e_bytes$")
    n_arith = 0
    seen_keys = {}
    for f0 in fns:
        if not f0.crate.startswith(("warp_core", "echo_", "warp_wasm")) or f0.is_closure():
            continue
        raw = f0.rec.get("_raw")
        if raw is not None and "WithOverflow" not in raw:
            continue
        f, _p = inline_view(prog, f0)
        for bi, b in enumerate(f.blocks):
            if b["cl"]:
                continue
            for st_ in b["st"]:
                if st_[0] != "a" or st_[2]["r"] != "bin" or st_[2]["op"] not in ("AddWithOverflow", "MulWithOverflow"):
                    continue
                for o in (st_[2]["a"], st_[2]["b"]):
                    pl = op_place(o)
                    if pl is None or (pl[1] and pl[0] <= f.argc) or f.locals[pl[0]] in ("i128", "u128"):
                        continue
                    wide = set()
                    for x in near_origins(f, o):
                        if x[0] == "call" and DECL.search(x[1]):
                            ty = f.locals[f.blocks[x[2]]["t"]["dest"][0]]
                            if re.search(r"\b(u64|usize|i64)\b", ty):
                                wide.add(x)
                    if not wide:
                        continue
                    n_arith += 1
                    gate, how = upper_bound_gate(f, o, bi)
                    helper = [x[1] for x in wide if x[1] in prog.fns and self_bounding(prog, x[1])]
                    clamp = any(x[0] == "call" and re.search(r"::min$", x[1]) for x in near_origins(f, o))
                    base_key = "unchecked-arith:%s@%s" % (f0.id.replace("warp_core::", ""), sorted(x[1].rsplit("::", 1)[-1] for x in wide)[0])
                    okk = gate or bool(helper) or clamp
                    if base_key in seen_keys and (seen_keys[base_key] or not okk) and okk == seen_keys[base_key]:
                        continue
                    seen_keys[base_key] = okk
                    rep.check(okk, "C13.R6", base_key, how or ("gated by reader" if helper else "clamped"),
                              "a length read from the input (%s) is %s with plain arithmetic at line %s before any upper-bound gate: a hostile length overflows (debug: panic in the "
                              "add; release: wrap, then an out-of-range slice)" % (sorted(x[1].rsplit("::", 1)[-1] for x in wide), "added" if "Add" in st_[2]["op"] else "multiplied", st_[3]),
                              site=f0.loc(st_[3]))
    rep.check(n_arith >= 1, "C13.R6", "unchecked-arith:sites", "%d additions/multiplications of declared lengths examined" % n_arith, "no addition of a declared length found (anchor)", site="workspace")

    # ---- R7 constant index into a collection built from the input
    rep.rule("C13.R7", "`v[k]` with a constant k on a Vec filled from the input is dominated by a non-emptiness gate on the Vec or on the declared count it was filled from")
    n_idx = 0
    for f in fns:
        if not f.crate.startswith(("warp_core", "echo_", "warp_wasm")):
            continue
        for bi, t in f.calls():
            if f.blocks[bi]["cl"]:
                continue
            c = f.callee_of(t) or ""
            if not re.search(r"Vec<T, A> as std::ops::Index(Mut)?<I>>::index(_mut)?$", c) or len(t["args"]) != 2 or "k" not in t["args"][1]:
                continue
            n_idx += 1
            # the Vec local behind the receiver reference
            vec_locals = set()
            stack = [t["args"][0]]
            seen_l = set()
            while stack:
                o = stack.pop()
                pl = op_place(o)
                if pl is None or pl[0] in seen_l:
                    continue
                seen_l.add(pl[0])
                if f.locals[pl[0]].startswith("std::vec::Vec<"):
                    vec_locals.add(pl[0])
                for d in f.defs().get(pl[0], ()):
                    if d[0] == "assign":
                        rv = d[4]
                        if "p" in rv:
                            stack.append({"c": rv["p"]})
                        for o2 in operands_of_rvalue(rv):
                            stack.append(o2)
            size_atoms = set()
            for vl in vec_locals:
                for d in f.defs().get(vl, ()):
                    if d[0] == "call" and ALLOC.search(f.callee_of(d[2]) or ""):
                        size_atoms |= reader_atoms(f, d[2]["args"][-1])
            gated = False
            why = ""
            for (bb, kind, a, b, res, line) in comparisons(f):
                k = kind.lower() if isinstance(kind, str) else kind
                for mine, other, mine_left in ((a, b, True), (b, a, False)):
                    if const_int(other) != 0:
                        continue
                    no = near_origins(f, mine)
                    about_vec = bool(reader_atoms(f, mine) & size_atoms) or any(x[0] == "call" and re.search(r"::len$", x[1]) for x in no)
                    if not about_vec:
                        continue
                    # which outcome means "mine == 0"?
                    if k == "eq":
                        zero_true = True
                    elif k == "ne":
                        zero_true = False
                    elif (k == "gt" and mine_left) or (k == "lt" and not mine_left):
                        zero_true = False
                    elif (k == "le" and mine_left) or (k == "ge" and not mine_left):
                        zero_true = True
                    else:
                        continue
                    for sw in switch_edges_on_local(f, res):
                        zero_t = sw["true"] if zero_true else sw["false"]
                        nz = sw["false"] if zero_true else sw["true"]
                        reach = f.reachable([zero_t], avoid_edges=[(sw["sw"], nz)], avoid_blocks=[sw["sw"]])
                        if bi not in reach and f.path([0], [bi], avoid_blocks=[sw["sw"]]) is None:
                            gated, why = True, "non-emptiness gate@%s" % line
            for b2, t2 in f.calls():
                if (f.callee_of(t2) or "").endswith("::is_empty") and not f.blocks[b2]["cl"]:
                    for sw in switch_edges_on_local(f, t2["dest"][0]):
                        reach = f.reachable([sw["true"]], avoid_edges=[(sw["sw"], sw["false"])], avoid_blocks=[sw["sw"]])
                        if bi not in reach and f.path([0], [bi], avoid_blocks=[sw["sw"]]) is None:
                            gated, why = True, "is_empty gate@%s" % t2.get("line")
            rep.check(gated, "C13.R7", "const-index:%s" % f.id.replace("warp_core::", ""), why,
                      "%s indexes a Vec filled from the input with constant %s (line %s) and no dominating non-emptiness gate on the Vec or on its declared count: a zero-count record panics "
                      "(index out of bounds) instead of returning a decode error" % (f.name, t["args"][1].get("v", "?"), t.get("line")), site=f.loc(t.get("line")))
    rep.ok("C13.R7", "const-index:sites", "%d constant-index Vec accesses examined (zero is fine: `.first()`/`.get(k)` are total)" % n_idx, site="workspace")

    # ---- R4
    exports = [f for f in E if f.crate == "warp_wasm"]
    rep.check(len(exports) >= 8, "C13.R4", "exports:count", "%d byte-taking wasm exports" % len(exports), "only %d byte-taking wasm exports found" % len(exports), site="warp_wasm")
    for f in exports:
        dec = f.call_sites(r"echo_wasm_abi::decode_cbor$|unpack_\w+_v1$")
        for b in dec:
            okk, why = result_inspected(f, b)
            rep.check(okk, "C13.R4", "export:%s:decode-matched" % f.name, why, "decode result of %s is not inspected" % f.name, site=f.loc())
        direct = [bi for bi, t in f.calls() if PANICS.search(f.callee_of(t) or "") and not f.blocks[bi]["cl"]]
        rep.check(not direct, "C13.R4", "export:%s:no-direct-panic" % f.name, "no unwrap/expect/panic in the export body", "export %s contains %s" % (f.name, [(f.callee_of(f.blocks[b]["t"]) or "").rsplit("::", 1)[-1] for b in direct]), site=f.loc())

    # ---- R5
    RD = "warp_core::wsc::read::"
    for nm in ("read_slice", "read_bytes"):
        f = prog.fn(RD + nm)
        st_, detail = find_guard(prog, f, RD + "ReadError", "SectionOutOfBounds", {"c:saturating_add"}, {"c:len", "p:1"})
        rep.check(st_ == "ok", "C13.R5", "%s:end-gated" % nm, detail, "%s — %s" % (st_, detail), site=f.loc())
        idx = f.call_sites(r"Index.*::index$")
        cm = [c[0] for c in comparisons(f)]
        rep.check(bool(idx) and bool(cm) and dominates(f, cm, idx) is None, "C13.R5", "%s:compare-before-slice" % nm, "the bound comparison dominates the slice", "slicing is reachable without the bound comparison", site=f.loc())
    need = prog.fn("echo_wasm_abi::canonical::dec_value::need")
    rep.check(bool(comparisons(need)) and bool(need.call_sites(r"saturating_sub$")), "C13.R5", "canonical:need", "need() compares remaining (saturating) with the request", "need() lost its remaining-length comparison", site=need.loc())
    vw = prog.fn("warp_core::wsc::validate::validate_wsc")
    trv, _ = tree(prog, [vw])
    live = constructed_variants(trv, RD + "ReadError")
    for v in ("IndexRangeOutOfBounds", "BlobOutOfBounds", "SectionOutOfBounds", "WarpIndexOutOfBounds"):
        rep.check(v in live, "C13.R5", "validate_wsc:live:%s" % v, "range rejection live", "validate_wsc no longer rejects with %s" % v, site=vw.loc())
