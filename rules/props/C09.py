"""C09 — a scheduler pass is all-or-nothing and strictly ordered."""
from ..prims import *

EXPLANATION = (
    "Structural necessary conditions of C09: (R1) in the scheduler pass, from the point the checkpoints are taken, no "
    "error return and no re-raised panic is reachable without passing the runtime restore, the provenance restore and the "
    "receipt-correlation rollback (one named, reasoned exception); (R2) frame rule: every WorldlineRuntime / "
    "ProvenanceService field the pass body can write is written by the restore side, or is fault evidence, or is the "
    "global tick assigned after the loop; (R3) checkpoint structs: every field captured is restored; (R4) the engine "
    "state-swap guard restores on both exits every Engine field it or the commit body can write, including on drop; "
    "(R5) the global tick is assigned once, after the loop, and each committed head advances once; (R6) heads are visited "
    "in the ordered runnable set's order with faulted heads filtered; (R7) fault scoping is total over runtime errors. "
    "That restore restores the right VALUES is NOT decided."
    " Round 2: (R1a) nothing is captured into the rollback checkpoint on a path that follows a head's commit (pre-pass image); (R8) the receipt-correlation undo journal is recorded at the back and replayed newest-first."
    ' The receipt-correlation undo entry is pushed before the index writes it undoes; capture-before-commit covers the provenance checkpoint and captures performed inside per-head closures.'
)
ASSUMPTIONS = ["clone() of heads/frontiers captures their full value", "BTreeSet iteration is canonical order"]
FLOOR = 44

CO = "warp_core::coordinator::"
WR = CO + "WorldlineRuntime"
PSV = "warp_core::provenance_store::ProvenanceService"
LPS = "warp_core::provenance_store::LocalProvenanceStore"
EN = "warp_core::engine_impl::Engine"
GU = "warp_core::engine_impl::RuntimeCommitStateGuard"
EVIDENCE = {"scheduler_faults", "faulted_heads", "runtime_fault", "next_scheduler_fault_generation"}
# fields that exist only under the host_test feature (fault-injection seams), never in a production build
TEST_SEAMS = {"fail_next_echo_operation_action_tick_construction"}


def checkpoint_copy_rules(rep, prog, rid, only_fields=None):
    """Every state value built while taking the pre-pass checkpoint copies each field from the live value."""
    ck = prog.fn(WR + "::checkpoint_for")
    # whole-value capture: every WorldlineState / WorldlineFrontier / WriterHead value built while taking the checkpoint copies each of
    # its fields from the live value (a field reset to a constant — e.g. an emptied committed-ingress set — is restored as that constant)
    ck_tree, _ = tree(prog, [ck])
    n_copy = 0
    for adt_path in ("warp_core::worldline_state::WorldlineState", "warp_core::worldline_state::WorldlineFrontier", "warp_core::head::WriterHead"):
        prog.adt(adt_path)
        for g in ck_tree:
            ogg = g.origins()
            for bi, si, place, rv, line in g.assigns():
                if rv["r"] != "agg" or rv.get("adt") != adt_path:
                    continue
                for fld, o in zip(rv["fields"], rv["os"]):
                    if only_fields and fld not in only_fields:
                        continue
                    n_copy += 1
                    atoms = ogg.of_operand(o, deep=True)
                    from_live = any(a.kind == "param" for a in atoms)
                    rep.check(from_live, rid, "checkpoint-copies:%s.%s@%s" % (adt_path.rsplit("::", 1)[-1], fld, g.name),
                              "copied from the live value", "while taking the pre-pass checkpoint, %s.%s is filled from %s instead of the live value: rollback restores a reset field" % (
                                  adt_path.rsplit("::", 1)[-1], fld, sorted(str(a.key)[:40] for a in atoms)[:2]), site=g.loc(line))
    rep.check(n_copy >= (1 if only_fields else 8), rid, "checkpoint-copies:count", "%d field copies examined in the checkpoint tree" % n_copy, "only %d field copies found in the checkpoint tree" % n_copy, site=ck.loc())


def undo_journal_rules(rep, prog, rid):
    """An undo journal restores correctly only if it is replayed in the reverse of the order it was recorded in (two entries
    may save the previous value of the same key: only the OLDEST saved value is the pre-pass value).  Rule: the journal's entry
    vector is appended at the back by its recorders and every consumer that restores from it traverses it back-to-front."""
    J = CO + "ReceiptCorrelationRollback"
    E = CO + "ReceiptCorrelationRollbackEntry"
    prog.adt(J)
    ent = prog.adt(E)
    saved = [f["n"] for f in ent["variants"][0]["fields"] if f["n"].startswith("previous_")]
    rep.ok(rid, "undo-journal:entry-fields", "%d previous_* fields (an entry may also undo by key removal alone)" % len(saved), site=None)
    recorders, consumers = [], []
    for f in prog.fns.values():
        if f.crate != "warp_core" or "::tests::" in f.id:
            continue
        for bi, t in f.calls():
            callee = f.callee_of(t) or ""
            g = t["fn"].get("g") or ""
            if E.rsplit("::", 1)[-1] not in g:
                continue
            if re.search(r"Vec::<[^>]*ReceiptCorrelationRollbackEntry>::(push|insert|extend|append)", g):
                recorders.append((f, bi, g.rsplit("::", 1)[-1]))
            if re.search(r"Iterator>::next$|Vec::<[^>]*ReceiptCorrelationRollbackEntry>::pop$|DoubleEndedIterator>::next_back$", g) and (
                    "Drain<" in g or "Iter<" in g or "IntoIter<" in g or g.endswith("::pop")):
                consumers.append((f, bi, g))
    rep.check(bool(recorders) and all(k == "push" for f, bi, k in recorders), rid, "undo-journal:recorded-at-back",
              "%d recorder site(s), all Vec::push" % len(recorders), "journal entries are recorded by %s" % sorted({k for f, bi, k in recorders}), site=recorders[0][0].loc() if recorders else None)
    # an undo record is taken BEFORE the write it undoes: the push of the entry (whose previous_* values are read from the
    # live indexes) dominates every insert/remove on the indexes the rollback restores.  Pushed afterwards, `previous_*` holds
    # the post-write value and rollback restores nothing.
    RT = CO + "WorldlineRuntime"
    rb = prog.fn_opt(CO + "WorldlineRuntime::rollback_receipt_correlations")
    restored = set(mod_set([rb] + [prog.fns[c] for c in prog.closures_in(rb.id)], RT)) if rb is not None else set()
    for f, bi, kname in recorders:
        ogf = f.origins()
        writes = []
        for b2, t2 in f.calls():
            c2 = f.callee_of(t2) or ""
            if f.blocks[b2]["cl"] or not re.search(r"(BTreeMap|BTreeSet).*::(insert|remove|retain|clear|extend|append)$|btree_map::.*Entry.*::(or_insert\w*|or_default|insert\w*)$", c2) or not t2["args"]:
                continue
            flds = {st_[2] for at in ogf.of_operand(t2["args"][0], deep=True) for st_ in at.steps if isinstance(st_, tuple) and st_[0] == RT}
            if flds & restored:
                writes.append(b2)
        w_ = dominates(f, [bi], writes) if writes else None
        rep.check(bool(writes) and w_ is None, rid, "undo-journal:recorded-before-the-write:%s" % f.name, "the entry is pushed before any of the %d index writes it undoes" % len(writes),
                  "%s pushes the undo entry AFTER writing the indexes it is meant to undo (%s): its previous_* values are read from the already-updated state" % (
                      f.name, f.describe_path(w_) if w_ else "no index write found"), site=f.loc(f.block_line(bi)))
    rep.check(bool(consumers), rid, "undo-journal:consumer-found", "%d traversal site(s)" % len(consumers), "no traversal of the undo journal found (rollback missing?)", site=None)
    for f, bi, g in consumers:
        lifo = ("Rev<" in g and g.endswith("::next")) or g.endswith("::pop") or (g.endswith("::next_back") and "Rev<" not in g)
        rep.check(lifo, rid, "undo-journal:replayed-newest-first:%s" % f.name, "traversal is %s" % g.split(" as ")[0][:90],
                  "%s replays the undo journal oldest-first (%s): when two entries saved the previous value of the same key, the newer entry's "
                  "saved value (not the pre-pass value) is what remains after rollback" % (f.name, g.split(" as ")[0][:90]), site=f.loc(f.blocks[bi]["t"].get("line")))


def run(ctx):
    rep = ctx.report
    prog = ctx.prog("trusted")
    rep.rule("C09.R1", "A1 rollback on every failure exit after the checkpoints (exception: residual of inbox_mut(..).ok_or(UnknownHead), infeasible)")
    rep.rule("C09.R2", "A4 frame rule: Mod(pass body) ⊆ Mod(restore ∪ rollback) ∪ {global_tick after loop} ∪ fault evidence")
    rep.rule("C09.R3", "A3 checkpoint structs: captured fields = restored fields")
    rep.rule("C09.R4", "A4/A7 engine swap guard: saved set covers enter's and the commit body's writes; Drop restores; armed cleared")
    rep.rule("C09.R5", "A1 exactly-one advance: one global_tick assignment after the loop; advance_tick on the success path")
    rep.rule("C09.R6", "A8/A1 canonical head order from the ordered runnable set; faulted heads filtered")
    rep.rule("C09.R8", "A1 undo journal: receipt-correlation rollback entries are recorded at the back and replayed newest-first")
    rep.rule("C09.R7", "A6 fault scoping total over RuntimeError; fault recording only on the failure arms")

    st = prog.fn(CO + "SchedulerCoordinator::super_tick_inner")
    # ---- R1a  the rollback checkpoint is a PRE-pass image: nothing is captured into it once a head of the pass may have committed
    RC = CO + "RuntimeCheckpoint"
    PCK = "warp_core::provenance_store::ProvenanceCheckpoint"
    prog.adt(RC)
    prog.adt(PCK)
    capt = set()
    for f in prog.fns.values():
        if f.crate == "warp_core" and f.id.startswith((CO, "warp_core::provenance_store::")) and not f.is_closure() and "::tests::" not in f.id:
            raw = f.rec.get("_raw")
            if raw is not None and "RuntimeCheckpoint" not in raw and "ProvenanceCheckpoint" not in raw:
                continue
            for adt_ in (RC, PCK):
                if agg_blocks(f, adt_) or (mod_set([f], adt_) and not f.name.startswith("restore")):
                    capt.add(f.id)
    # wrappers that merely forward to a capturer capture too
    changed_ = True
    while changed_:
        changed_ = False
        for f in prog.fns.values():
            if f.crate == "warp_core" and f.id.startswith((CO, "warp_core::provenance_store::")) and f.id not in capt and not f.is_closure() and "::tests::" not in f.id:
                raw = f.rec.get("_raw")
                if raw is not None and "Checkpoint" not in raw:
                    continue
                if any((f.callee_of(t) or "") in capt for bi, t in f.calls()) and any("Checkpoint" in ty for ty in fn_param_tys(f) + [fn_ret_ty(f)]):
                    capt.add(f.id)
                    changed_ = True
    cap_sites = [bi for bi, t in st.calls() if (st.callee_of(t) or "") in capt and not st.blocks[bi]["cl"]]
    # a capture performed inside a closure that the pass runs per head happens at that call
    for bi, t in st.calls():
        if st.blocks[bi]["cl"] or bi in cap_sites:
            continue
        for a in t["args"]:
            for at in st.origins().of_operand(a, deep=False):
                roots_ = []
                if at.kind == "agg" and at.key[0] in prog.fns:
                    roots_.append(at.key[0])
                elif at.kind == "agg" and len(at.key) == 4:
                    rv_ = st.blocks[at.key[2]]["st"][at.key[3]][2]
                    for o_ in rv_.get("os", []):
                        for at2 in st.origins().of_operand(o_, deep=False):
                            if at2.kind == "agg" and at2.key[0] in prog.fns:
                                roots_.append(at2.key[0])
                for r_ in roots_:
                    c_ = prog.fns[r_]
                    if any((g.callee_of(t2) or "") in capt for g in [c_] + [prog.fns[x] for x in prog.closures_in(c_.id)] for b2, t2 in g.calls()):
                        cap_sites.append(bi)
    commit_sites = []
    for bi, t in st.calls():
        if st.blocks[bi]["cl"]:
            continue
        roots = []
        c = st.callee_of(t) or ""
        if c in prog.fns:
            roots.append(c)
        for a in t["args"]:
            # a closure handed to the call, directly or wrapped once (`catch_unwind(AssertUnwindSafe(|| ..))`)
            for at in st.origins().of_operand(a, deep=False):
                if at.kind == "agg" and at.key[0] in prog.fns:
                    roots.append(at.key[0])
                elif at.kind == "agg" and len(at.key) == 4:
                    rv_ = st.blocks[at.key[2]]["st"][at.key[3]][2]
                    for o_ in rv_.get("os", []):
                        for at2 in st.origins().of_operand(o_, deep=False):
                            if at2.kind == "agg" and at2.key[0] in prog.fns:
                                roots.append(at2.key[0])
            if "fn" in a and a.get("fn") in prog.fns:
                roots.append(a["fn"])
        if roots:
            ids_, _e = prog.reach(roots)
            if any(i.endswith("Engine::commit_with_state") or i.endswith("Engine::commit_with_receipt") for i in ids_):
                commit_sites.append(bi)
    rep.check(bool(cap_sites) and bool(commit_sites), "C09.R1", "pass:capture-and-commit-sites", "%d checkpoint capture site(s), %d commit site(s)" % (len(cap_sites), len(commit_sites)),
              "capture sites=%d commit sites=%d (capturers: %s)" % (len(cap_sites), len(commit_sites), sorted(x.rsplit("::", 1)[-1] for x in capt)), site=st.loc())
    for c in commit_sites:
        tgt = st.blocks[c]["t"].get("tgt")
        w = st.path([tgt], cap_sites) if tgt is not None else None
        rep.check(w is None, "C09.R1", "pass:checkpoint-captured-before-any-commit", "no state is captured into the rollback checkpoint after a head may have committed",
                  "the rollback checkpoint captures runtime state AFTER an earlier head of the same pass may have committed (%s): a later failure restores a frontier that already "
                  "contains that head's commit" % st.describe_path(w), site=st.loc(st.block_line(w[-1]) if w else None))
    # ---- R1
    rck = st.call_sites(r"WorldlineRuntime::checkpoint_for$")
    pck = st.call_sites(r"ProvenanceService::checkpoint_for$")
    r_restore = st.call_sites(r"WorldlineRuntime::restore$")
    p_restore = st.call_sites(r"ProvenanceService::restore$")
    rollback = st.call_sites(r"WorldlineRuntime::rollback_receipt_correlations$")
    rep.check(len(rck) == 1 and len(pck) == 1 and len(r_restore) >= 2 and len(p_restore) >= 2 and len(rollback) >= 2, "C09.R1", "pass:anchors",
              "checkpoints (runtime, provenance) and restore/rollback sites on both failure arms",
              "checkpoint_for=%d/%d restore=%d/%d rollback=%d" % (len(rck), len(pck), len(r_restore), len(p_restore), len(rollback)), site=st.loc())
    if rck and pck:
        re_ = result_edges(st, pck[0])
        start = [tgt for (sw, tgt) in re_["ok"]]
        rep.check(bool(start), "C09.R1", "pass:checkpoint-ok-edge", "checkpoint success edge found", "no `?` on provenance.checkpoint_for", site=st.loc())
        rep.check(dominates(st, rck, pck) is None, "C09.R1", "pass:runtime-checkpoint-first", "runtime checkpoint precedes the provenance checkpoint", "checkpoint order changed", site=st.loc())
        oks, errs = ok_return_blocks(st)
        resumes = diverging_calls(st, r"panic::resume_unwind$|panicking::resume_unwind$")
        rep.check(bool(resumes), "C09.R1", "pass:panic-arm", "panic arm re-raises after restoring", "no resume_unwind in the pass (panic arm missing)", site=st.loc())
        # named exception
        exc_edges = []
        exc_found = False
        for (bi, srcs, err, ok) in residual_sites(st):
            if "inbox_mut" in srcs and err and bi in st.reachable(start):
                exc_edges.append(err)
                exc_found = True
        rep.check(exc_found, "C09.R1", "pass:exception-still-exists", "named exception `heads.inbox_mut(key).ok_or(UnknownHead)?` present",
                  "the named exception no longer exists (table out of date)", site=st.loc())
        # the exception is infeasible only if the loop body never changes the key set of `heads`: checked in R2b below
        for name, cut in (("runtime-restore", r_restore), ("provenance-restore", p_restore), ("correlation-rollback", rollback)):
            w = st.path(start, errs, avoid_blocks=cut, avoid_edges=exc_edges)
            rep.check(w is None, "C09.R1", "pass:err-return-passes-%s" % name, "every error return after the checkpoints passes %s" % name,
                      "an error return avoids %s: %s" % (name, st.describe_path(w)), site=st.loc())
            w = st.path(start, resumes, avoid_blocks=cut)
            rep.check(w is None, "C09.R1", "pass:resume-passes-%s" % name, "the re-raised panic passes %s" % name,
                      "resume_unwind reachable without %s: %s" % (name, st.describe_path(w)), site=st.loc())
        # the commit runs under catch_unwind (otherwise a panic skips the rollback)
        cu = st.call_sites(r"panic::catch_unwind$")
        rep.check(len(cu) == 1, "C09.R1", "pass:commit-under-catch_unwind", "the per-head commit closure runs under catch_unwind", "catch_unwind sites: %d" % len(cu), site=st.loc())
        clos = [prog.fns[c] for c in prog.closures_in(st.id)]
        commit_cl = [c for c in clos if c.call_sites(r"Engine::commit_with_state$")]
        rep.check(len(commit_cl) == 1, "C09.R1", "pass:commit-inside-closure", "commit_with_state is called inside the guarded closure",
                  "commit_with_state is called from %d closures of the pass" % len(commit_cl), site=st.loc())
        rep.check(not st.call_sites(r"Engine::commit_with_state$") and not st.call_sites(r"append_local_commit$"), "C09.R1", "pass:no-commit-outside-closure",
                  "no commit/append outside the guarded closure", "commit or append is called outside catch_unwind", site=st.loc())
        # restore uses the checkpoints taken before the loop
        og = st.origins()
        for b in r_restore:
            t = st.blocks[b]["t"]
            rep.check(any(a.kind == "call" and a.key[1] == rck[0] for a in og.of_operand(t["args"][1], deep=True)), "C09.R1", "pass:restore-from-pre-pass-checkpoint",
                      "runtime.restore receives the pre-pass checkpoint", "runtime.restore argument is not the pre-pass checkpoint", site=st.loc(t.get("line")))
        for b in p_restore:
            t = st.blocks[b]["t"]
            rep.check(any(a.kind == "call" and a.key[1] == pck[0] for a in og.of_operand(t["args"][1], deep=True)), "C09.R1", "pass:provenance-restore-from-checkpoint",
                      "provenance.restore receives the pre-pass checkpoint", "provenance.restore argument is not the pre-pass checkpoint", site=st.loc(t.get("line")))

    # ---- R2
    stops = {prog.fn(x).id for x in (WR + "::restore", WR + "::rollback_receipt_correlations", WR + "::record_scheduler_head_fault",
                                     WR + "::record_scheduler_runtime_fault", PSV + "::restore")}
    ids, _ = prog.reach([st], stop=lambda x: x in stops)
    body = [prog.fns[i] for i in ids if i not in stops]
    rep.check(len(body) > 300, "C09.R2", "frame:body-size", "pass body tree has %d functions" % len(body), "pass body tree suspiciously small (%d)" % len(body), site=st.loc())
    restore_tree, _ = tree(prog, [prog.fn(WR + "::restore"), prog.fn(WR + "::rollback_receipt_correlations")])
    allowed = set(mod_set(restore_tree, WR))
    bmods = mod_set(body, WR)
    for fld in sorted(bmods):
        if fld in EVIDENCE:
            rep.ok("C09.R2", "frame:WorldlineRuntime.%s:evidence" % fld, "fault evidence (kept on failure by design)", site=WR)
            continue
        if fld in TEST_SEAMS:
            rep.ok("C09.R2", "frame:WorldlineRuntime.%s:test-seam" % fld, "host_test-only fault-injection flag", site=WR)
            continue
        rep.check(fld in allowed, "C09.R2", "frame:WorldlineRuntime.%s" % fld, "written by the pass and by restore/rollback",
                  "the pass can write WorldlineRuntime.%s (%s:%s) but neither restore nor the correlation rollback writes it" % (fld, bmods[fld][0][0], bmods[fld][0][1]),
                  site=bmods[fld][0][0])
    # evidence fields are written only by the fault recorders / outside the body
    for fld in sorted(EVIDENCE & set(bmods)):
        rep.bad("C09.R2", "frame:evidence-written-by-body:%s" % fld, "fault evidence field %s is written by the pass body itself at %s" % (fld, bmods[fld][0]), site=bmods[fld][0][0])
    # global_tick: assigned in super_tick_inner only after the loop (R5) and in restore
    ptree, _ = tree(prog, [prog.fn(PSV + "::restore")])
    for adt in (PSV, LPS):
        pallowed = set(mod_set(ptree, adt))
        pm = mod_set(body, adt)
        for fld in sorted(pm):
            rep.check(fld in pallowed, "C09.R2", "frame:%s.%s" % (adt.rsplit("::", 1)[-1], fld), "written by the pass and by provenance restore",
                      "the pass can write %s.%s (%s) but provenance restore does not" % (adt, fld, pm[fld][0][0]), site=pm[fld][0][0])
    # R2b: the loop body never inserts/removes heads (keeps the named exception infeasible): heads written only via inbox_mut / restore
    phr = "warp_core::head::PlaybackHeadRegistry"
    hm = mod_set([f for f in body if f.id != st.id], phr)
    head_inserters = [f.id for f in body if f.call_sites(r"PlaybackHeadRegistry::(insert|remove)$")]
    rep.check(not head_inserters, "C09.R2", "frame:heads-keyset-stable", "no head is registered or removed inside the pass body",
              "the pass body can insert/remove heads (%s): the UnknownHead residual becomes feasible" % head_inserters[:2], site=st.loc())

    # ---- R3 checkpoint struct coverage
    ck = prog.fn(WR + "::checkpoint_for")
    rs = prog.fn(WR + "::restore")
    rc = prog.adt(CO + "RuntimeCheckpoint")
    built = set()
    for bi, si, place, rv, line in ck.assigns():
        if rv["r"] == "agg" and rv.get("adt") == CO + "RuntimeCheckpoint":
            built |= set(rv["fields"])
    readr = set(read_set([rs], CO + "RuntimeCheckpoint"))
    for f in rc["variants"][0]["fields"]:
        rep.check(f["n"] in built and f["n"] in readr, "C09.R3", "RuntimeCheckpoint.%s" % f["n"], "captured and restored",
                  "RuntimeCheckpoint.%s captured=%s restored=%s" % (f["n"], f["n"] in built, f["n"] in readr), site=ck.loc())
    checkpoint_copy_rules(rep, prog, "C09.R3")
    rbe = prog.adt(CO + "ReceiptCorrelationRollbackEntry")
    rb = prog.fn(WR + "::rollback_receipt_correlations")
    rbr = set(read_set([rb] + [prog.fns[c] for c in prog.closures_in(rb.id)], CO + "ReceiptCorrelationRollbackEntry"))
    for f in rbe["variants"][0]["fields"]:
        rep.check(f["n"] in rbr, "C09.R3", "ReceiptCorrelationRollbackEntry.%s" % f["n"], "read by the rollback",
                  "rollback entry field %s is recorded but never used to roll back" % f["n"], site=rb.loc())
    pc = prog.adt("warp_core::provenance_store::ProvenanceCheckpoint")
    prs = prog.fn(PSV + "::restore")
    prt, _ = tree(prog, [prs])
    prr = set(read_set(prt, "warp_core::provenance_store::ProvenanceCheckpoint"))
    for f in pc["variants"][0]["fields"]:
        rep.check(f["n"] in prr, "C09.R3", "ProvenanceCheckpoint.%s" % f["n"], "read by provenance restore",
                  "ProvenanceCheckpoint.%s is captured but never restored" % f["n"], site=prs.loc())

    # ---- R4 engine swap guard
    enter = prog.fn(GU + "::<'a>::enter")
    fin = prog.fn(GU + "::<'a>::finish_success")
    rer = prog.fn(GU + "::<'a>::restore_error")
    m_enter = set(mod_set([enter], EN))
    m_fin = set(mod_set([fin], EN))
    m_err = set(mod_set([rer], EN))
    for fld in sorted(m_enter):
        rep.check(fld in m_fin and fld in m_err, "C09.R4", "guard:Engine.%s:restored-on-both-exits" % fld, "swapped in enter, restored by finish_success and restore_error",
                  "Engine.%s is swapped by enter but restored by finish_success=%s restore_error=%s" % (fld, fld in m_fin, fld in m_err), site=enter.loc())
    cws = prog.fn(EN + "::commit_with_state")
    gstops = {enter.id, fin.id, rer.id}
    ids2, _ = prog.reach([cws], stop=lambda x: x in gstops)
    cbody = [prog.fns[i] for i in ids2 if i not in gstops]
    cm = mod_set(cbody, EN)
    for fld in sorted(cm):
        rep.check(fld in m_err, "C09.R4", "guard:commit-body-writes:Engine.%s" % fld, "restored by restore_error",
                  "the commit body can write Engine.%s (%s) which restore_error does not restore" % (fld, cm[fld][0][0]), site=cm[fld][0][0])
    for f in (enter, fin, rer):
        rep.check(bool(f.call_sites(r"MaterializationBus::clear$")), "C09.R4", "guard:%s:bus-cleared" % f.name, "materialization bus cleared",
                  "%s no longer clears the materialization bus" % f.name, site=f.loc())
    drops = [f for f in prog.fns.values() if f.rec.get("impl_trait", "").endswith("ops::Drop") and f.rec.get("impl_adt") == GU]
    rep.check(len(drops) == 1 and bool(drops[0].call_sites(r"RuntimeCommitStateGuard.*::restore_error$")), "C09.R4", "guard:drop-restores",
              "Drop for the guard calls restore_error (panic and early-return paths)", "the guard's Drop impl no longer calls restore_error", site=enter.loc())
    armed_f = assign_blocks(fin, GU, "armed")
    armed_e = assign_blocks(rer, GU, "armed")
    rep.check(bool(armed_f) and bool(armed_e), "C09.R4", "guard:armed-cleared", "armed cleared on both exits", "armed flag not cleared (finish=%d error=%d)" % (len(armed_f), len(armed_e)), site=fin.loc())
    rep.check(len(cws.call_sites(r"RuntimeCommitStateGuard.*::enter$")) == 1 and len(cws.call_sites(r"RuntimeCommitStateGuard.*::finish_success$")) == 1,
              "C09.R4", "guard:wired-in-commit_with_state", "commit_with_state enters the guard and finishes it on success", "guard wiring changed", site=cws.loc())
    # finish_success only on the Ok arm
    fs = cws.call_sites(r"RuntimeCommitStateGuard.*::finish_success$")
    oks2, errs2 = ok_return_blocks(cws)
    if fs:
        w = cws.path([cws.blocks[fs[0]]["t"]["tgt"]], errs2)
        rep.check(w is None, "C09.R4", "guard:finish-only-on-success", "finish_success is not followed by an error return", "error return after finish_success", site=cws.loc())

    # ---- R5
    gt = assign_blocks(st, WR, "global_tick")
    rep.check(len(gt) == 1, "C09.R5", "global-tick:single-assignment", "one assignment to runtime.global_tick in the pass", "global_tick assigned at %d sites" % len(gt), site=st.loc())
    if gt:
        heads_ = loop_heads(st)
        # after the assignment no loop head is reachable (it sits after the loop) and only the Ok return follows
        reach = st.reachable(gt)
        rep.check(not any(h in reach for h in heads_), "C09.R5", "global-tick:after-loop", "assigned after the head loop", "global_tick assigned inside the loop", site=st.loc())
        rep.check(not any(e in reach for e in ok_return_blocks(st)[1]), "C09.R5", "global-tick:then-ok", "nothing fallible follows the global tick assignment",
                  "an error return is reachable after global_tick was advanced", site=st.loc())
        ogs = st.origins()
        src = [rv for bi, si, place, rv, line in st.assigns() if bi in gt and place[1] and place[1][-1][-1] == "global_tick"]
        ok_src = any(any(a.kind == "call" and a.key[0].endswith("checked_increment") for a in ogs.of_operand(rv["o"], deep=True)) for rv in src if "o" in rv)
        rep.check(ok_src, "C09.R5", "global-tick:increment-by-one", "new value = checked_increment(old)", "global_tick is not assigned from checked_increment", site=st.loc())
    adv_sites = [c for c in [prog.fns[x] for x in prog.closures_in(st.id)] if c.call_sites(r"WorldlineFrontier::advance_tick$")]
    rep.check(len(adv_sites) == 1 and len(adv_sites[0].call_sites(r"WorldlineFrontier::advance_tick$")) == 1, "C09.R5", "frontier:advance-once",
              "advance_tick called once per committed head", "advance_tick call sites changed", site=st.loc())
    if adv_sites:
        c = adv_sites[0]
        ap = c.call_sites(r"append_local_commit$")
        at = c.call_sites(r"WorldlineFrontier::advance_tick$")
        cm_ = c.call_sites(r"Engine::commit_with_state$|commit_scheduler_action_batch_to_state_v1$")
        rep.check(bool(ap) and dominates(c, ap, at) is None and dominates(c, cm_, ap) is None, "C09.R5", "frontier:commit-append-advance-order",
                  "commit, then provenance append, then frontier advance", "commit/append/advance order changed", site=c.loc())
        rc_ = c.call_sites(r"record_committed_ingress$")
        rep.check(bool(rc_) and dominates(c, ap, rc_) is None, "C09.R5", "frontier:ingress-recorded-after-append", "committed ingress recorded after the provenance append",
                  "record_committed_ingress not dominated by append", site=c.loc())

    # ---- R6
    wr = prog.adt(WR)
    phr_adt = prog.adt("warp_core::head::PlaybackHeadRegistry")
    inner = phr_adt["variants"][0]["fields"][0]["ty"]
    rep.check("BTreeMap" in inner and "WriterHeadKey" in inner, "C09.R6", "heads:ordered-registry", "PlaybackHeadRegistry wraps %s" % inner[:80],
              "PlaybackHeadRegistry is %s (iteration order no longer canonical)" % inner, site="warp_core::head::PlaybackHeadRegistry")
    rbd = prog.fn("warp_core::head::RunnableWriterSet::rebuild")
    ogr = rbd.origins()
    pushes = rbd.call_sites(r"Vec.*::push$")
    src_ok = bool(pushes) and all(any(a.kind == "call" and a.key[0].endswith("PlaybackHeadRegistry::iter") for a in ogr.of_operand(rbd.blocks[b]["t"]["args"][1], deep=True)) for b in pushes)
    rep.check(src_ok and not rbd.call_sites(r"::sort|::reverse$|::swap$"), "C09.R6", "runnable:rebuilt-in-registry-order",
              "runnable keys are pushed in the registry's (ordered map) iteration order", "RunnableWriterSet::rebuild no longer copies keys in registry order", site=rbd.loc())
    rws_path = "warp_core::head::RunnableWriterSet"
    writers = sorted({f.id for f in prog.fns.values() if f.crate == "warp_core" and "keys" in mod_set([f], rws_path)})
    okw = all(w.rsplit("::", 1)[-1] in ("rebuild", "retain", "clear") or "::retain::" in w for w in writers)
    rep.check(okw and len(writers) >= 3, "C09.R6", "runnable:writers", "only rebuild/retain/clear write the runnable keys",
              "RunnableWriterSet.keys is written by %s" % writers, site=rws_path)
    sorts = st.call_sites(r"::sort|::reverse$|::shuffle|::swap$")
    rep.check(not sorts, "C09.R6", "pass:no-reordering", "head keys are taken in set order, never re-ordered", "the pass re-orders head keys (%d sites)" % len(sorts), site=st.loc())
    rr = st.call_sites(r"WorldlineRuntime::refresh_runnable$")
    rep.check(bool(rr) and dominates(st, rr, rck) is None, "C09.R6", "pass:refresh-before-iteration", "runnable set refreshed before the pass", "refresh_runnable missing", site=st.loc())
    rf = prog.fn(WR + "::refresh_runnable")
    rep.check(bool(rf.call_sites(r"RunnableWriterSet::retain$")) and bool(rf.call_sites(r"RunnableWriterSet::clear$")), "C09.R6", "refresh:faulted-filtered",
              "faulted heads are filtered and a runtime fault clears the set", "refresh_runnable no longer filters faulted heads / clears on runtime fault", site=rf.loc())
    fc = [prog.fns[c] for c in prog.closures_in(rf.id)]
    rep.check(any(any(s[2] == "faulted_heads" for s in field_steps(p)) for c in fc + [rf] for bi, p, l in places_read_in(c)), "C09.R6", "refresh:filter-uses-faulted_heads",
              "retain closure consults faulted_heads", "retain closure does not read faulted_heads", site=rf.loc())
    st0 = [bi for bi, p, l in places_read_in(st) if any(s == (WR, "WorldlineRuntime", "runtime_fault") for s in field_steps(p))]
    rep.check(bool(st0), "C09.R6", "pass:runtime-fault-blocks", "an active runtime fault blocks the pass", "runtime_fault is not consulted at pass entry", site=st.loc())

    # ---- R8
    undo_journal_rules(rep, prog, "C09.R8")

    # ---- R7
    sf = prog.fn(CO + "scheduler_fault_scope_for_error")
    re_enum = CO + "RuntimeError"
    ms = match_absorbed(sf, re_enum)
    rep.check(bool(ms), "C09.R7", "fault-scope:matches-RuntimeError", "scope function matches on RuntimeError", "scheduler_fault_scope_for_error no longer matches on RuntimeError", site=sf.loc())
    from ..baselines import baseline
    for bb, missing, arms in ms[:1]:
        base = baseline("C09.fault_scope.wildcard", sorted(missing))
        rep.check(set(missing) == set(base), "C09.R7", "fault-scope:wildcard-set", "wildcard absorbs the %d confirmed variants" % len(base),
                  "variants absorbed by the wildcard changed: +%s -%s" % (sorted(set(missing) - set(base)), sorted(set(base) - set(missing))), site=sf.loc())
    rec_calls = st.call_sites(r"record_scheduler_(head|runtime)_fault$")
    if rck:
        pre = [b for b in rec_calls if b not in st.reachable([st.blocks[pck[0]]["t"]["tgt"]])] if pck else []
        post = [b for b in rec_calls if b not in pre]
        for b in post:
            w = st.path([st.blocks[pck[0]]["t"]["tgt"]], [b], avoid_blocks=r_restore)
            rep.check(w is None, "C09.R7", "fault-recorded-after-restore", "fault evidence is recorded after the rollback (so it survives it)",
                      "fault recorded before restore (restore would erase it): %s" % st.describe_path(w), site=st.loc(st.block_line(b)))
