"""C01 — a tick's outcome depends on the candidate set, never on arrival order."""
from ..prims import *

EXPLANATION = (
    "Structural necessary conditions of C01 decided on MIR/type facts: (R1) the pending queue's dedupe key, comparison "
    "sort and radix digit function read the same key components (scope, rule, nonce) with the confirmed digit table and "
    "pass count; both sorts are reachable from drain under the size threshold; (R2) rule callbacks receive an immutable "
    "view: GraphView holds only shared references, GraphStore has no interior mutability, the executor signature gets "
    "only GraphView by value + &mut TickDelta; (R3) pre-state clone and executor phase dominate state application; "
    "(R4) the parallel merge sorts by sort_key and rejects equal-key/different-op before any Ok return; (R6) no "
    "ambient nondeterminism source is reachable from the commit path. Equality of the two sort orders on all keys and "
    "post-state = pre-state + accepted effects are NOT decided."
    ' Round 2: every scheduler field that can hold candidates or footprints is a map keyed by TxId (no cross-transaction candidate state).'
)
ASSUMPTIONS = ["sort_unstable_by / BTreeMap are correct", "dyn TelemetrySink and rule fn pointers are opaque host code"]
FLOOR = 35

SCHED = "warp_core::scheduler::"
THIN = SCHED + "RewriteThin"
KEY_FIELDS = {"scope_be32", "rule_id", "nonce"}
# confirmed by reading scheduler.rs::bucket16 — LSD order: nonce (low,high), rule (low,high), scope pairs 15..0
DIGITS = {"0": ("nonce", 0), "1": ("nonce", 1), "2": ("rule_id", 0), "3": ("rule_id", 1)}


def thin_fields_read(fn):
    out = set()
    for bi, p, line in places_read_in(fn):
        for (adt, var, f) in field_steps(p):
            if adt == THIN:
                out.add(f)
    return out


def queue_order_rules(rep, prog, rid):
    """Pending-queue ordering / dedupe rules, shared by C01.R1 and C03.R6."""
    # ---------------- R1
    cmp_thin = prog.fn(SCHED + "cmp_thin")
    bucket = prog.fn(SCHED + "bucket16")
    tr_cmp, _ = tree(prog, [cmp_thin])
    read_cmp = set()
    for f in tr_cmp:
        read_cmp |= thin_fields_read(f)
    read_b = thin_fields_read(bucket)
    rep.check(read_cmp == KEY_FIELDS, rid, "cmp_thin:key-components", "cmp_thin reads %s" % sorted(read_cmp),
              "cmp_thin reads %s, expected %s" % (sorted(read_cmp), sorted(KEY_FIELDS)), site=cmp_thin.loc())
    rep.check(read_b == KEY_FIELDS, rid, "bucket16:key-components", "bucket16 reads %s" % sorted(read_b),
              "bucket16 reads %s, expected %s" % (sorted(read_b), sorted(KEY_FIELDS)), site=bucket.loc())
    rep.check(read_b == read_cmp, rid, "cmp_thin~bucket16:agree", "both orderings use the same components",
              "the two orderings disagree on key components: %s vs %s" % (sorted(read_cmp), sorted(read_b)), site=bucket.loc())
    # digit table: switch on `pass`
    og = bucket.origins()
    sw = None
    for bi, b in enumerate(bucket.blocks):
        t = b["t"]
        if t["t"] == "sw":
            at = og.of_operand(t["o"])
            if any(a.kind == "param" and a.key == 2 and not a.steps for a in at):
                if len(t["v"]) >= 2:
                    sw = (bi, t)
    rep.check(sw is not None, rid, "bucket16:digit-switch", "bucket16 switches on its pass parameter",
              "no switch on the pass parameter found in bucket16", site=bucket.loc())
    got_digits = {}
    if sw:
        bi, t = sw
        all_targets = [x[1] for x in t["v"]] + [t["ow"]]
        for val, tgt in t["v"]:
            others = [x for x in all_targets if x != tgt]
            reach = bucket.reachable([tgt], avoid_blocks=others)
            for b2 in reach:
                tt = bucket.blocks[b2]["t"]
                if tt["t"] == "call" and (bucket.callee_of(tt) or "").endswith("u16_from_u32_le"):
                    fa = atom_param_fields(og.of_operand(tt["args"][0], deep=True))
                    idx = const_int(tt["args"][1])
                    for (pi, fl) in fa:
                        if pi == 1 and fl:
                            got_digits[val] = (fl[-1], idx)
        for val, want in sorted(DIGITS.items()):
            rep.check(got_digits.get(val) == want, rid, "bucket16:digit:%s" % val,
                      "pass %s extracts %s digit %d" % (val, want[0], want[1]),
                      "pass %s extracts %s, expected %s (LSD order nonce<rule<scope)" % (val, got_digits.get(val), want), site=bucket.loc())
    # scope passes: range constants lo/hi and the mirror constant
    cmp_consts = set()
    for (bb, kind, a, b, res, line) in comparisons(bucket):
        for o in (a, b):
            v = const_int(o)
            if v is not None:
                cmp_consts.add(v)
    sub_consts = set()
    for bi, si, place, rv, line in bucket.assigns():
        if rv["r"] == "bin" and rv["op"] in ("Sub", "SubWithOverflow", "SubUnchecked"):
            v = const_int(rv["a"])
            if v is not None:
                sub_consts.add(v)
    scope_calls = [b for b in bucket.call_sites(r"u16_be_from_pair32$")]
    rep.check(len(scope_calls) >= 1, rid, "bucket16:scope-digits", "scope digits extracted by u16_be_from_pair32",
              "bucket16 no longer extracts scope digits via u16_be_from_pair32", site=bucket.loc())
    lo = len(DIGITS)
    # scope is [u8;32] => 16 two-byte digits
    thin_adt = prog.adt(THIN)
    scope_ty = [f["ty"] for f in thin_adt["variants"][0]["fields"] if f["n"] == "scope_be32"]
    nbytes = None
    if scope_ty:
        import re as _re
        m = _re.match(r"\[u8; (\d+)\]", scope_ty[0])
        if m:
            nbytes = int(m.group(1))
    rep.check(nbytes is not None, rid, "thin:scope-width", "scope_be32 is [u8; %s]" % nbytes, "scope_be32 is not a byte array: %s" % scope_ty, site=THIN)
    if nbytes:
        hi = lo + nbytes // 2 - 1
        total = hi + 1
        rep.check({lo, hi} <= cmp_consts, rid, "bucket16:scope-pass-range",
                  "scope passes cover %d..=%d (%d bytes / 2 digits)" % (lo, hi, nbytes),
                  "scope pass range constants %s do not include %d and %d" % (sorted(cmp_consts), lo, hi), site=bucket.loc())
        rep.check(hi in sub_consts, rid, "bucket16:scope-pass-mirror",
                  "pair index = %d - pass (least-significant pair first)" % hi,
                  "pair index is not computed as %d - pass (constants subtracted from: %s)" % (hi, sorted(sub_consts)), site=bucket.loc())
        rs = prog.fn(SCHED + "PendingTx::<P>::radix_sort")
        ends = set()
        for bi, si, place, rv, line in rs.assigns():
            if rv["r"] == "agg" and rv.get("adt", "").endswith("ops::Range"):
                v = const_int(rv["os"][1]) if len(rv["os"]) > 1 else None
                s0 = const_int(rv["os"][0])
                if v is not None and s0 == 0:
                    ends.add(v)
        rep.check(total in ends, rid, "radix_sort:pass-count",
                  "radix_sort runs passes 0..%d = every digit bucket16 covers" % total,
                  "radix_sort pass ranges %s do not equal the %d digits bucket16 covers" % (sorted(ends), total), site=rs.loc())
        # every pass runs: from the pass loop's Some-edge no path returns to the loop head without the count and scatter (bucket16) steps.
        # (A data-dependent pass skip makes the sort's correctness a value-level argument about the skip predicate.)
        bk = rs.call_sites(r"scheduler::bucket16$")
        ogr = rs.origins()
        outer = None
        for h in loop_heads(rs):
            if "ops::Range<" in (rs.callee_of(rs.blocks[h]["t"]) or ""):
                outer = h
        rep.check(outer is not None, rid, "radix_sort:pass-loop", "pass loop found", "could not identify the `for pass in 0..N` loop", site=rs.loc())
        if outer is not None and bk:
            re_ = result_edges(rs, outer)
            for (sw, tgt) in re_["some"]:
                inner = [h for h in loop_heads(rs) if h != outer]  # the count / prefix / scatter loops themselves (empty-slice exits are infeasible: n > 1)
                w = rs.path([tgt], [outer], avoid_blocks=bk + inner, avoid_edges=set(re_["none"]))
                rep.check(w is None, rid, "radix_sort:every-pass-executes", "no pass can be skipped: every iteration counts and scatters by bucket16",
                          "a radix pass can be skipped (path back to the loop head without bucket16): %s — canonical order then depends on the skip predicate" % rs.describe_path(w), site=rs.loc())
        rep.check(len(rs.call_sites(r"scheduler::bucket16$")) >= 2, rid, "radix_sort:uses-bucket16",
                  "count and scatter both use bucket16", "radix_sort no longer uses bucket16 for both count and scatter", site=rs.loc())
    # drain reaches both sorts, compares with the threshold, and hands cmp_thin to the comparison sort
    dr = prog.fn(SCHED + "PendingTx::<P>::drain_in_order")
    sorts = dr.call_sites(r"sort_unstable_by$|::sort_by$")
    rad = dr.call_sites(r"PendingTx::<P>::radix_sort$")
    rep.check(len(sorts) == 1 and len(rad) == 1, rid, "drain:both-sorts", "drain_in_order reaches comparison sort and radix sort",
              "drain_in_order sort calls: cmp=%d radix=%d" % (len(sorts), len(rad)), site=dr.loc())
    for b in sorts:
        t = dr.blocks[b]["t"]
        fnarg = [o.get("fn") for o in t["args"] if "fn" in o]
        rep.check(any((x or "").endswith("scheduler::cmp_thin") for x in fnarg), rid, "drain:cmp-sort-uses-cmp_thin",
                  "comparison sort is given cmp_thin", "comparison sort comparator is %s, not cmp_thin" % fnarg, site=dr.loc(t.get("line")))
    thr = [1 for (bb, kind, a, b, res, line) in comparisons(dr) if "SMALL_SORT_THRESHOLD" in str(a.get("def", "")) + str(b.get("def", ""))
           or "SMALL_SORT_THRESHOLD" in str(a.get("k", "")) + str(b.get("k", ""))]
    rep.check(bool(thr), rid, "drain:threshold-compare", "sort choice compares the batch size with SMALL_SORT_THRESHOLD",
              "no comparison with SMALL_SORT_THRESHOLD in drain_in_order", site=dr.loc())
    # every path from entry to the drain loop with n>1 passes a sort: the `drain(..)` call is dominated by (sort | radix | n<=1 edge)
    drains = dr.call_sites(r"Vec.*::drain$")
    rep.check(len(drains) == 1, rid, "drain:drain-site", "one drain of the thin vector", "expected one Vec::drain call, got %d" % len(drains), site=dr.loc())
    # dedupe key
    enq = prog.fn(SCHED + "PendingTx::<P>::enqueue")
    ogq = enq.origins()
    gets = enq.call_sites(r"BTreeMap.*::get$")
    inserts = enq.call_sites(r"BTreeMap.*::insert$")
    rep.check(len(gets) == 1 and len(inserts) == 1, rid, "enqueue:index-lookups", "one index lookup and one index insert",
              "index get/insert sites: %d/%d" % (len(gets), len(inserts)), site=enq.loc())
    for b in gets + inserts:
        t = enq.blocks[b]["t"]
        params = set(a.key for a in ogq.of_operand(t["args"][1], deep=True) if a.kind == "param")
        rep.check({2, 3} <= params and 4 not in params, rid, "enqueue:dedupe-key:%s" % ("get" if b in gets else "insert"),
                  "index key derives from (scope, rule id) only", "index key derives from params %s, expected {scope, rule_id}" % sorted(params),
                  site=enq.loc(t.get("line")))
    thin_aggs = [(bi, rv) for bi, si, place, rv, line in enq.assigns() if rv["r"] == "agg" and rv.get("adt") == THIN]
    rep.check(len(thin_aggs) == 1, rid, "enqueue:thin-construction", "one RewriteThin construction", "RewriteThin constructions: %d" % len(thin_aggs), site=enq.loc())
    for bi, rv in thin_aggs:
        m = dict(zip(rv["fields"], rv["os"]))
        ps = set(a.key for a in ogq.of_operand(m["scope_be32"], deep=True) if a.kind == "param")
        pr = set(a.key for a in ogq.of_operand(m["rule_id"], deep=True) if a.kind == "param")
        rep.check(ps == {2} and pr == {3}, rid, "enqueue:thin-key-fields", "thin key fields come from the (scope, rule) parameters",
                  "RewriteThin.scope_be32/rule_id derive from params %s/%s" % (sorted(ps), sorted(pr)), site=enq.loc())
    # dedupe-index position stability: `index` stores positions into `thin`; an operation that moves/removes elements of `thin`
    # must be followed by `index.clear()` before returning (drain does), or the function must re-point the displaced key too
    # (>= 2 index writes).  Otherwise a later duplicate enqueue lands on another candidate's record.
    PT = SCHED + "PendingTx"
    MOVERS = r"Vec::<T, A>::(swap_remove|remove|insert|retain|retain_mut|truncate|dedup\w*|drain|split_off|clear)$|slice::<impl \[T\]>::(sort\w*|reverse|swap|rotate\w*|copy_from_slice)$|PendingTx::<P>::radix_sort$"
    n_movers = 0
    for f in prog.find_fns(r"^warp_core::scheduler::PendingTx::<P>::"):
        if f.is_closure():
            continue
        ogf = f.origins()
        movers = []
        for bi, t in f.calls():
            c = f.callee_of(t) or ""
            if re.search(MOVERS, c) and not f.blocks[bi]["cl"]:
                recv = ogf.of_operand(t["args"][0], deep=True) if t["args"] else frozenset()
                if c.endswith("radix_sort") or any(steps_have(a, "PendingTx", "thin") for a in recv):
                    movers.append(bi)
        if not movers or f.name == "radix_sort":
            continue
        n_movers += 1
        clears = [bi for bi, t in f.calls() if re.search(r"BTreeMap.*::clear$", f.callee_of(t) or "") and any(steps_have(a, "PendingTx", "index") for a in ogf.of_operand(t["args"][0], deep=True))]
        idx_writes = [bi for bi, t in f.calls() if re.search(r"BTreeMap.*::(insert|get_mut|remove|entry)$", f.callee_of(t) or "") and any(steps_have(a, "PendingTx", "index") for a in ogf.of_operand(t["args"][0], deep=True))]
        rets = f.return_blocks()
        w = f.path([f.blocks[movers[0]]["t"].get("tgt") or movers[0]], rets, avoid_blocks=clears)
        okm = (w is None) or len(idx_writes) >= 2
        rep.check(okm, rid, "dedupe-index:positions-stable:%s" % f.name, "thin is reordered only where the index is cleared afterwards (or the displaced key is re-pointed)",
                  "%s moves elements of `thin` (%s) without clearing the dedupe index or re-pointing the displaced key: a later duplicate enqueue overwrites a different candidate" % (
                      f.name, [(f.callee_of(f.blocks[b]["t"]) or "").rsplit("::", 1)[-1] for b in movers]), site=f.loc())
    rep.check(n_movers >= 1, rid, "dedupe-index:movers-found", "%d PendingTx function(s) reorder thin (drain)" % n_movers, "no function reorders thin (drain vanished?)", site=PT)
    # candidate state is per transaction: every scheduler field that can hold candidates or their footprints is a map keyed
    # by TxId.  A side slot (a recycled queue, a cache) lets one transaction's candidates reach another tick's drain.
    for sname in ("RadixScheduler", "LegacyScheduler"):
        adt_ = prog.adt(SCHED + sname)
        for fld_ in adt_["variants"][0]["fields"]:
            ty_ = fld_["ty"]
            if re.search(r"PendingRewrite|PendingTx|Footprint", ty_):
                rep.check(ty_.startswith("std::collections::BTreeMap<warp_core::tx::TxId,"), rid, "candidates-are-per-transaction:%s.%s" % (sname, fld_["n"]),
                          "keyed by TxId", "%s.%s: %s holds candidate state outside the per-transaction map: candidates of one transaction (e.g. an aborted one) can leak into "
                          "another tick's drain" % (sname, fld_["n"], ty_[:120]), site=SCHED + sname)
    renq = prog.fn(SCHED + "RadixScheduler::enqueue")
    ogr = renq.origins()
    for b in renq.call_sites(r"PendingTx::<P>::enqueue$"):
        t = renq.blocks[b]["t"]
        a1 = ogr.of_operand(t["args"][1], deep=True)
        a2 = ogr.of_operand(t["args"][2], deep=True)
        rep.check(any(steps_have(a, "PendingRewrite", "scope_hash") for a in a1) and any(steps_have(a, "PendingRewrite", "compact_rule") for a in a2),
                  rid, "scheduler-enqueue:key", "queue key = (rewrite.scope_hash, rewrite.compact_rule)",
                  "queue key is not (scope_hash, compact_rule)", site=renq.loc(t.get("line")))



def run(ctx):
    rep = ctx.report
    prog = ctx.prog("trusted")
    rep.rule("C01.R1", "A5/A10 queue key agreement: cmp_thin, bucket16 and the dedupe index use the same key components; digit table; pass bound")
    rep.rule("C01.R2", "A8/A7 executors see an immutable pre-tick view (types)")
    rep.rule("C01.R3", "A1 dominance: pre-state clone before application; all executors before apply_to_state; patch from merged deltas")
    rep.rule("C01.R4", "A1 canonicalisation: sort on sort_key and conflict rejection dominate every Ok return of the merge")
    rep.rule("C01.R6", "A9 no ambient nondeterminism reachable from the commit path")

    queue_order_rules(rep, prog, "C01.R1")

    # ---------------- R2
    gv = prog.adt("warp_core::graph_view::GraphView")
    for f in gv["variants"][0]["fields"]:
        rep.check("&mut" not in f["ty"] and f["vis"] != "pub", "C01.R2", "GraphView.%s:shared-private" % f["n"],
                  "field %s: %s (%s)" % (f["n"], f["ty"], f["vis"]), "GraphView.%s is %s with visibility %s" % (f["n"], f["ty"], f["vis"]),
                  site="warp_core::graph_view::GraphView")
    hits, allowed = interior_mut(prog, "warp_core::graph::GraphStore")
    rep.check(not hits, "C01.R2", "GraphStore:no-interior-mutability", "no UnsafeCell reachable from GraphStore (%d refcount cells allowed)" % len(allowed),
              "GraphStore reaches interior mutability: %s" % [(t, p[-3:]) for t, p in hits[:3]], site="warp_core::graph::GraphStore")
    rule = prog.adt("warp_core::rule::RewriteRule")
    for f in rule["variants"][0]["fields"]:
        if f["n"] in ("matcher", "executor", "compute_footprint"):
            ty = f["ty"]
            okk = "GraphView" in ty and "GraphStore" not in ty and "WarpState" not in ty and "Engine" not in ty
            if f["n"] != "executor":
                okk = okk and "&mut" not in ty and "&'c mut" not in ty and " mut " not in ty
            else:
                okk = okk and ty.count("mut ") == 1 and "TickDelta" in ty
            rep.check(okk, "C01.R2", "RewriteRule.%s:signature" % f["n"], ty, "rule callback signature grants more than an immutable view: %s" % ty,
                      site="warp_core::rule::RewriteRule")
    # no public GraphView method hands out the store or a &mut
    for f in prog.find_fns(r"^warp_core::graph_view::GraphView::<'a>::"):
        if f.is_closure():
            continue
        rt = fn_ret_ty(f)
        bad = ("&mut" in rt or " mut " in rt or "GraphStore" in rt) and f.vis == "pub"
        rep.check(not bad, "C01.R2", "GraphView::%s:return" % f.name, "returns %s" % rt,
                  "public GraphView::%s returns %s (exposes the store or mutability)" % (f.name, rt), site=f.loc())
    # warp-core forbids unsafe: no unsafe fn bodies in the crate
    unsafe_fns = [f.id for f in prog.fns.values() if f.crate == "warp_core" and f.rec.get("unsafe")]
    rep.check(not unsafe_fns, "C01.R2", "warp_core:no-unsafe-fn", "no unsafe fn in warp_core", "unsafe fns: %s" % unsafe_fns[:5], site="warp_core")

    # ---------------- R3
    cw = prog.fn("warp_core::engine_impl::Engine::commit_with_receipt")
    clones = [b for b in cw.call_sites(r"Clone.*::clone$") if "WarpState" in cw.blocks[b]["t"]["fn"].get("g", "") or
              "warp_core::state::WarpState" in (cw.callee_of(cw.blocks[b]["t"]) or "")]
    apply_calls = cw.call_sites(r"Engine::apply_reserved_rewrites$")
    diffs = cw.call_sites(r"tick_patch::diff_state$")
    rep.check(len(clones) >= 1 and len(apply_calls) == 1 and len(diffs) == 1, "C01.R3", "commit:anchors",
              "state clone (%d), apply_reserved_rewrites, diff_state present" % len(clones),
              "anchors: clones=%d apply=%d diff=%d" % (len(clones), len(apply_calls), len(diffs)), site=cw.loc())
    if clones and apply_calls and diffs:
        w = dominates(cw, clones, apply_calls)
        rep.check(w is None, "C01.R3", "commit:pre-state-captured-before-apply", "state_before clone dominates apply_reserved_rewrites",
                  "apply_reserved_rewrites reachable before the pre-state clone: %s" % (cw.describe_path(w) if w else ""), site=cw.loc())
        w = dominates(cw, apply_calls, diffs)
        rep.check(w is None, "C01.R3", "commit:diff-after-apply", "diff_state runs after application",
                  "diff_state reachable before apply: %s" % (cw.describe_path(w) if w else ""), site=cw.loc())
        ogc = cw.origins()
        t = cw.blocks[diffs[0]]["t"]
        a0 = ogc.of_operand(t["args"][0], deep=True)
        a1 = ogc.of_operand(t["args"][1], deep=True)
        from_clone = any(a.kind == "call" and a.key[1] in clones for a in a0)
        from_self = any(a.kind == "param" and a.key == 1 and steps_have(a, "Engine", "state") for a in a1)
        rep.check(from_clone and from_self, "C01.R3", "commit:diff-operands", "diff_state(state_before clone, self.state)",
                  "diff_state operands are not (pre-state clone, self.state)", site=cw.loc(t.get("line")))
        # reserve (admission) happens before the clone: every candidate decision is made on the pre-tick state
        res = cw.call_sites(r"Engine::reserve_for_receipt$")
        w = dominates(cw, res, apply_calls)
        rep.check(bool(res) and w is None, "C01.R3", "commit:reserve-before-apply", "admission precedes application",
                  "application reachable without admission", site=cw.loc())
    ar = prog.fn("warp_core::engine_impl::Engine::apply_reserved_rewrites")
    ex = ar.call_sites(r"parallel::exec::execute_work_queue$")
    mg = ar.call_sites(r"engine_impl::merge_parallel_deltas$")
    ap = ar.call_sites(r"WarpTickPatchV1::apply_to_state$")
    bw = ar.call_sites(r"parallel::exec::build_work_units$")
    rep.check(len(ex) == 1 and len(mg) == 1 and len(ap) == 1 and len(bw) == 1, "C01.R3", "apply:anchors", "execute/merge/apply sites present",
              "execute_work_queue=%d merge=%d apply_to_state=%d build_work_units=%d" % (len(ex), len(mg), len(ap), len(bw)), site=ar.loc())
    if ex and mg and ap:
        rep.check(dominates(ar, ex, mg) is None and dominates(ar, mg, ap) is None, "C01.R3", "apply:execute-merge-apply-order",
                  "all executors run, then merge, then one application", "execute/merge/apply are not in dominance order", site=ar.loc())
        oga = ar.origins()
        t = ar.blocks[mg[0]]["t"]
        rep.check(any(a.kind == "call" and a.key[1] == ex[0] for a in oga.of_operand(t["args"][0], deep=True)), "C01.R3", "apply:merge-consumes-worker-results",
                  "merge consumes execute_work_queue's results", "merge input does not come from execute_work_queue", site=ar.loc())
        t = ar.blocks[ap[0]]["t"]
        rep.check(any(a.kind == "call" and a.key[1] == mg[0] for a in oga.of_operand(t["args"][0], deep=True)), "C01.R3", "apply:patch-from-merge",
                  "the applied patch is built from the merged ops", "applied patch does not derive from merge_parallel_deltas", site=ar.loc())
        # nothing mutates self.state between entry and apply_to_state other than apply_to_state itself
        muts = []
        for bi, si, place, rv, line in ar.assigns():
            if rv["r"] == "ref" and rv["bk"] in ("mut", "two"):
                if any(s == ("warp_core::engine_impl::Engine", "Engine", "state") for s in field_steps(rv["p"])):
                    muts.append((bi, line))
        for c in prog.closures_in(ar.id):
            cf = prog.fns[c]
            for bi, si, place, rv, line in cf.assigns():
                if rv["r"] == "ref" and rv["bk"] in ("mut", "two") and any(s[2] == "state" and s[0].endswith("Engine") for s in field_steps(rv["p"])):
                    muts.append((c, line))
        rep.check(len(muts) == 1, "C01.R3", "apply:single-state-mutation", "self.state is mutably borrowed once (for apply_to_state)",
                  "self.state is mutably borrowed at %s" % muts, site=ar.loc())

    # ---------------- R4
    mp = prog.fn("warp_core::engine_impl::merge_parallel_deltas")
    oks, errs = ok_return_blocks(mp)
    sorts = mp.call_sites(r"sort_unstable_by$|::sort_by$|::sort_by_key$|::sort_unstable_by_key$|::sort$|::sort_unstable$")
    merged = mp.call_sites(r"::merge_deltas$")
    if merged:
        # delta_validate configuration: the canonical merge is merge_deltas (sort + conflict detection live there)
        md = prog.fn(mp.callee_of(mp.blocks[merged[0]]["t"]))
        mds = md.call_sites(r"::sort_by$|::sort_unstable_by$|::sort_by_key$|::sort$")
        rep.check(bool(mds) and dominates(md, mds, ok_return_blocks(md)[0]) is None, "C01.R4", "merge:delegates-to-merge_deltas",
                  "merge_parallel_deltas delegates to merge_deltas, whose Ok returns are dominated by its sort", "merge_deltas no longer sorts before returning Ok", site=md.loc())
    else:
        rep.check(len(sorts) >= 1 and len(oks) >= 1, "C01.R4", "merge:sort-present", "sort call present (%d), Ok returns %d" % (len(sorts), len(oks)),
                  "merge_parallel_deltas has no sort (%d) or no Ok return (%d)" % (len(sorts), len(oks)), site=mp.loc())
        if sorts and oks:
            w = dominates(mp, sorts, oks)
            rep.check(w is None, "C01.R4", "merge:sort-dominates-ok", "every Ok return passes the sort",
                      "Ok return reachable without sorting: %s" % (mp.describe_path(w) if w else ""), site=mp.loc())
        # the sort comparator reads tuple field 0 (the sort_key)
        keyed = False
        for c in prog.closures_in(mp.id):
            cf = prog.fns[c]
            if cf.call_sites(r"Ord.*::cmp$|::cmp$"):
                for bi, p, line in places_read_in(cf):
                    if any(s[0] == "(tuple)" and s[2] == "0" for s in field_steps(p)):
                        keyed = True
        sk = [c for c in prog.closures_in(mp.id) if prog.fns[c].call_sites(r"WarpOp::sort_key$")]
        rep.check(keyed and bool(sk), "C01.R4", "merge:sorts-by-sort_key", "ops are keyed by WarpOp::sort_key and compared on that key",
                  "sort is not keyed by WarpOp::sort_key (keyed=%s, sort_key closures=%d)" % (keyed, len(sk)), site=mp.loc())
        ic = agg_blocks(mp, "warp_core::engine_impl::EngineError", "InternalCorruption")
        rep.check(len(ic) >= 2, "C01.R4", "merge:conflict-rejections", "%d InternalCorruption rejections (same-key conflict, new-warp write)" % len(ic),
                  "expected >=2 InternalCorruption rejection sites, found %d" % len(ic), site=mp.loc())
        dd = mp.call_sites(r"::dedup_by$|::dedup_by_key$|::dedup$")
        wn = mp.call_sites(r"check_write_to_new_warp$")
        rep.check(bool(dd) and bool(wn), "C01.R4", "merge:dedup-and-new-warp-check", "dedup + new-warp check present",
                  "dedup=%d check_write_to_new_warp=%d" % (len(dd), len(wn)), site=mp.loc())
        if dd and sorts:
            rep.check(dominates(mp, sorts, dd) is None, "C01.R4", "merge:sort-before-dedup", "dedup happens on sorted ops", "dedup before sort", site=mp.loc())
        # an equal-key/different-op pair must reach the Err: the `!=`/`==` comparisons exist in the window loop
        cmps = comparisons(mp)
        rep.check(len(cmps) >= 2, "C01.R4", "merge:window-comparisons", "%d comparisons in the conflict scan" % len(cmps),
                  "conflict scan comparisons missing (%d)" % len(cmps), site=mp.loc())
    # poisoned deltas only resume_unwind
    tr_mp, ext = tree(prog, [mp])
    rep.check(any("resume_unwind" in e for e in ext), "C01.R4", "merge:poisoned-resumes", "poisoned deltas re-raise the panic",
              "merge no longer resumes the panic of a poisoned delta", site=mp.loc())
    # WarpTickPatchV1::new canonicalises through an ordered map keyed by sort_key
    pn = prog.fn("warp_core::tick_patch::WarpTickPatchV1::new")
    trn, _ = tree(prog, [pn])
    rep.check(any(f.call_sites(r"WarpOp::sort_key$") for f in trn) and any(f.call_sites(r"BTreeMap.*::insert$|BTreeMap.*::entry$") for f in trn),
              "C01.R4", "patch-new:canonical-order", "patch constructor orders ops by sort_key via BTreeMap",
              "WarpTickPatchV1::new no longer routes ops through a BTreeMap keyed by sort_key", site=pn.loc())

    # ---------------- R6
    entries = [cw, prog.fn("warp_core::engine_impl::Engine::commit_with_state"), prog.fn("warp_core::engine_impl::Engine::apply_in_warp"),
               prog.fn(SCHED + "RadixScheduler::drain_for_tx"), prog.fn(SCHED + "RadixScheduler::reserve")]
    hits, nfn, next_ = reach_forbidden(prog, entries, NONDET)
    rep.note("R6 tree: %d workspace functions, %d external callees" % (nfn, next_))
    rep.check(nfn > 200, "C01.R6", "commit-tree:size", "commit call tree has %d functions" % nfn, "commit call tree suspiciously small: %d" % nfn, site=cw.loc())
    if not hits:
        rep.ok("C01.R6", "commit-tree:no-nondeterminism", "no clock/random/env/thread-id/HashMap reachable from %d entries" % len(entries), site=cw.loc())
    for b, chain in hits:
        rep.bad("C01.R6", "commit-tree:reaches:" + b, "nondeterminism source reachable: " + " -> ".join(chain), site=chain[-2] if len(chain) > 1 else None)
