"""C02 — parallel execution is invisible: every worker schedule commits the same tick."""
from ..prims import *

EXPLANATION = (
    "Structural necessary conditions of C02: (R1) at every thread::Scope::spawn site of the parallel executors the "
    "spawned closure captures nothing with interior mutability except one atomic claim counter (no shared accumulator, "
    "no second channel between workers) and never captures a TickDelta by reference; (R2) work units are built in "
    "canonical warp order and shard routing is a pure function of the node id; (R3) per-shard executors re-sort by "
    "shard id before returning and worker results are consumed only by the canonical merge; (R4) a poisoned delta is "
    "never read/merged. Bit-identity across all schedules is the conclusion of the canonical-merge argument and is NOT decided."
    " Round 2 (R5): no op is dropped or de-duplicated between the workers' deltas and the canonical sort; no store reference in the work-queue worker is produced before the unit was claimed."
)
ASSUMPTIONS = ["Rust aliasing rules (shared refs to Freeze data are read-only)", "canonical merge premises are checked in C01.R4"]
FLOOR = 25

EXEC = "warp_core::parallel::exec::"


def spawn_sites(prog, fns):
    """(fn, bb, closure agg rvalue) for every Scope::spawn call in the given bodies."""
    out = []
    for f in fns:
        for bb in f.call_sites(r"thread::Scope.*::spawn$|thread::scoped::Scope.*::spawn$|std::thread::spawn$"):
            t = f.blocks[bb]["t"]
            og = f.origins()
            cl = None
            for a in t["args"]:
                for at in og.of_operand(a):
                    if at.kind == "agg" and isinstance(at.key, tuple):
                        adt, var, b2, si = at.key
                        rv = f.blocks[b2]["st"][si][2]
                        if rv.get("ak") == "closure":
                            cl = rv
            out.append((f, bb, cl))
    return out


def run(ctx):
    rep = ctx.report
    prog = ctx.prog("trusted")
    rep.rule("C02.R1", "A8: captures of every spawned worker closure: interior mutability limited to one Atomic<usize> claim counter; no &TickDelta / &mut shared")
    rep.rule("C02.R2", "A1/A9: build_work_units sorts by warp id before building units; shard_of is pure")
    rep.rule("C02.R3", "A1/A7: per-shard executors sort by shard id; worker results flow only into merge_parallel_deltas")
    rep.rule("C02.R4", "A7: PoisonedDelta's delta is never read; Poisoned results are never merged")

    entries = [prog.fn(EXEC + n) for n in ("execute_work_queue", "execute_parallel", "execute_parallel_sharded",
                                           "execute_parallel_sharded_with_policy", "execute_parallel_with_policy",
                                           "execute_parallel_with_adaptive_routing", "execute_parallel_sharded_with_adaptive_routing")]
    tr, ext = tree(prog, entries)
    sites = spawn_sites(prog, tr)
    rep.check(len(sites) >= 6, "C02.R1", "spawn-sites:count", "%d spawn sites in the parallel executors" % len(sites),
              "expected >= 6 spawn sites, found %d" % len(sites), site=EXEC)
    # any spawn elsewhere in warp-core would be an unreviewed worker pool
    all_sites = spawn_sites(prog, [f for f in prog.fns.values() if f.crate == "warp_core"])
    outside = [(f.id, f.block_line(bb)) for f, bb, cl in all_sites if not f.id.startswith(EXEC)]
    rep.check(not outside, "C02.R1", "spawn-sites:only-in-exec", "all thread spawns live in parallel::exec",
              "thread spawn outside parallel::exec: %s" % outside[:3], site=outside[0][0] if outside else None)
    for f, bb, cl in sites:
        key = f.id.replace(EXEC, "")
        if cl is None:
            rep.bad("C02.R1", "spawn:%s:closure" % key, "spawned closure could not be resolved", site=f.loc(f.block_line(bb)))
            continue
        atomics = 0
        for name, o in zip(cl["fields"], cl["os"]):
            p = op_place(o)
            ty = f.locals[p[0]] if p is not None and not p[1] else None
            if ty is None:
                # constant or projected capture: look through the place's local type
                ty = f.locals[p[0]] if p is not None else "const"
            if ty not in prog.tys:
                rep.bad("C02.R1", "spawn:%s:capture:%s:type" % (key, name), "capture type %s not in the type graph" % ty, site=f.loc(f.block_line(bb)))
                continue
            hits, allowed = interior_mut(prog, ty)
            non_counter = [h for h in hits if "Atomic<usize>" not in " ".join(h[1]) and "AtomicUsize" not in " ".join(h[1]) and "Atomic.v" not in (h[1][-1] if h[1] else "")]
            counter = [h for h in hits if h not in non_counter]
            if counter:
                atomics += 1
                rep.check(ty.startswith("&") and "Atomic<usize>" in ty, "C02.R1", "spawn:%s:capture:%s:claim-counter" % (key, name),
                          "claim counter captured as %s" % ty, "atomic reached through %s" % ty, site=f.loc(f.block_line(bb)))
            rep.check(not non_counter, "C02.R1", "spawn:%s:capture:%s:no-shared-mutable" % (key, name),
                      "capture %s: %s — no interior mutability" % (name, ty),
                      "capture %s: %s reaches interior mutability via %s" % (name, ty, [h[1][-3:] for h in non_counter[:2]]), site=f.loc(f.block_line(bb)))
            rep.check(not (ty.startswith("&") and "TickDelta" in ty), "C02.R1", "spawn:%s:capture:%s:no-shared-delta" % (key, name),
                      "", "a TickDelta is captured by reference (%s): workers would accumulate into shared state" % ty, site=f.loc(f.block_line(bb)))
            rep.check(not ty.startswith("&mut"), "C02.R1", "spawn:%s:capture:%s:no-mut-borrow" % (key, name),
                      "", "worker closure captures a mutable borrow %s" % ty, site=f.loc(f.block_line(bb)))
        rep.check(atomics <= 1, "C02.R1", "spawn:%s:single-counter" % key, "%d atomic capture(s)" % atomics,
                  "%d atomics captured: a second atomic is a second channel between workers" % atomics, site=f.loc(f.block_line(bb)))
    # statics referenced from the worker call trees: a `static mut` or interior-mutable static is a hidden channel
    refd = {}
    for f in tr:
        for b in f.blocks:
            for st in b["st"]:
                if st[0] == "a":
                    for o in operands_of_rvalue(st[2]):
                        if "static" in o:
                            refd.setdefault(o["static"], f.id)
                    if st[2]["r"] == "tlr":
                        refd.setdefault(st[2]["def"], f.id)
            t = b["t"]
            if t["t"] == "call":
                for o in t["args"]:
                    if "static" in o:
                        refd.setdefault(o["static"], f.id)
    bad_static = []
    for path, user in sorted(refd.items()):
        c = prog.consts.get(path)
        if c is None:
            continue  # external static (std internals)
        cell = False
        if c["ty"] in prog.tys:
            h, _ = interior_mut(prog, c["ty"])
            cell = bool(h)
        if c.get("mut") or cell:
            bad_static.append((path, user))
    rep.check(not bad_static, "C02.R1", "workers:no-mutable-static", "worker trees reference %d statics, none mutable" % len(refd),
              "worker trees reference mutable/interior-mutable statics: %s" % bad_static[:3], site=bad_static[0][1] if bad_static else EXEC)

    # ---- R2
    bw = prog.fn(EXEC + "build_work_units")
    sorts = bw.call_sites(r"::sort_by_key$|::sort_unstable_by_key$|::sort_by$|::sort_unstable_by$|::sort$")
    units = agg_blocks(bw, "warp_core::parallel::exec::WorkUnit")
    rep.check(len(sorts) >= 1 and len(units) >= 1, "C02.R2", "build_work_units:anchors", "sort and WorkUnit construction present",
              "sort=%d WorkUnit constructions=%d" % (len(sorts), len(units)), site=bw.loc())
    if sorts and units:
        w = dominates(bw, sorts, units)
        rep.check(w is None, "C02.R2", "build_work_units:sort-dominates-units", "units are built from warp-sorted input",
                  "WorkUnit built before sorting: %s" % (bw.describe_path(w) if w else ""), site=bw.loc())
        keyc = [c for c in prog.closures_in(bw.id)]
        reads_warp = False
        for c in keyc:
            for bi, p, line in places_read_in(prog.fns[c]):
                if any(s[0] == "(tuple)" and s[2] == "0" for s in field_steps(p)):
                    reads_warp = True
        rep.check(reads_warp, "C02.R2", "build_work_units:sort-key-is-warp", "sort key is the warp id (tuple field 0)",
                  "sort key closure does not read the warp id", site=bw.loc())
    so = prog.fn("warp_core::parallel::shard::shard_of")
    trs, exts = tree(prog, [so])
    hits, _, _ = reach_forbidden(prog, [so], NONDET)
    stat = [e for f in trs for bi, si, place, rv, line in f.assigns() if rv["r"] == "tlr" for e in [rv["def"]]]
    rep.check(not hits and not stat and fn_param_tys(so) == ["&warp_core::ident::NodeId"], "C02.R2", "shard_of:pure",
              "shard_of(&NodeId) reaches no ambient state", "shard_of is not a pure function of the node id: %s %s %s" % (hits[:1], stat[:1], fn_param_tys(so)), site=so.loc())
    ps = prog.fn("warp_core::parallel::shard::partition_into_shards")
    rep.check(bool(ps.call_sites(r"shard::shard_of$")) or any(prog.fns[c].call_sites(r"shard::shard_of$") for c in prog.closures_in(ps.id)),
              "C02.R2", "partition:uses-shard_of", "partitioning routes by shard_of(item.scope)", "partition_into_shards no longer routes via shard_of", site=ps.loc())
    mask_uses = [c for c in ("warp_core::parallel::shard::NUM_SHARDS", "warp_core::parallel::shard::SHARD_MASK") if c in prog.consts]
    if len(mask_uses) == 2:
        try:
            n = int(prog.consts[mask_uses[0]]["val"].split("_")[0].replace("const ", ""))
            m = int(prog.consts[mask_uses[1]]["val"].split("_")[0].replace("const ", ""))
            rep.check(m == n - 1 and n & (n - 1) == 0, "C02.R2", "shard:mask-matches-count", "SHARD_MASK = NUM_SHARDS-1 = %d" % m,
                      "SHARD_MASK %d != NUM_SHARDS %d - 1" % (m, n), site=mask_uses[1])
        except ValueError:
            pass

    # shard iteration is bounded by NUM_SHARDS itself: a truncated quotient of it (NUM_SHARDS / workers rounds) silently drops the tail
    # shards whenever the worker count does not divide the shard count
    n_idx = 0
    for name in ("execute_dynamic_per_worker", "execute_dynamic_per_shard", "execute_static_per_worker", "execute_static_per_shard", "execute_dedicated_per_shard"):
        f = prog.fn(EXEC + name)
        for body in [f] + [prog.fns[c] for c in prog.closures_in(f.id)]:
            og = body.origins()
            idx_locals = set()
            for bi, pl, line in places_read_in(body):
                if "VirtualShard" in body.locals[pl[0]]:
                    for e in pl[1]:
                        if isinstance(e, list) and e[0] == "i":
                            idx_locals.add((e[1], line))
            for (il, line) in sorted(idx_locals):
                t = {"args": [None, {"c": [il, []]}], "line": line}
                from ..engine import resolve_upvars
                atoms = og.of_operand(t["args"][1], deep=True)
                g = body
                while g.is_closure():
                    atoms = resolve_upvars(g, atoms, True)
                    g = prog.fns.get(g.rec.get("parent"))
                    if g is None:
                        break
                # helper iterators (`static_round_robin_shards(..)`): include what the helper's return value derives from
                extra = set()
                for a in atoms:
                    if a.kind == "call" and a.key[0] in prog.fns:
                        h = prog.fns[a.key[0]]
                        for hb in [h] + [prog.fns[c2] for c2 in prog.closures_in(h.id)]:
                            for x in hb.origins().of_local(0, deep=True):
                                extra.add(x)
                atoms = set(atoms) | extra
                ns = [a for a in atoms if a.kind == "const" and "NUM_SHARDS" in str(a.key)]
                if not ns:
                    continue
                n_idx += 1
                lossy_only = all(any(isinstance(s_, str) and s_.startswith("op:") for s_ in a.steps) for a in ns)
                rep.check(not lossy_only, "C02.R2", "shard-bound:%s" % name, "shard ids are bounded by NUM_SHARDS itself",
                          "%s indexes shards with ids bounded only by a truncated quotient of NUM_SHARDS: tail shards are never executed when the worker count does not divide it" % name,
                          site=body.loc(t.get("line")))
    rep.check(n_idx >= 2, "C02.R2", "shard-bound:sites", "%d shard-index sites bounded by NUM_SHARDS examined" % n_idx, "only %d shard-index sites found" % n_idx, site=EXEC)

    # ---- R3
    for name in ("execute_dynamic_per_shard", "execute_static_per_shard", "execute_dedicated_per_shard"):
        f = prog.fn(EXEC + name)
        bodies = [f] + [prog.fns[c] for c in prog.closures_in(f.id)]
        found = False
        for b in bodies:
            ss = b.call_sites(r"::sort_by_key$|::sort_unstable_by_key$")
            if ss:
                w = dominates(b, ss, b.return_blocks())
                joins = b.call_sites(r"::flat_map$|::map$|JoinHandle.*::join$|ScopedJoinHandle.*::join$")
                found = found or (w is None)
        rep.check(found, "C02.R3", "%s:sort-by-shard-dominates-return" % name, "worker output is re-ordered by shard id before returning",
                  "%s returns deltas without sorting by shard id" % name, site=f.loc())
    # consumers of execute_work_queue
    users = [f for f in prog.fns.values() if f.crate == "warp_core" and f.call_sites(r"exec::execute_work_queue$")]
    rep.check(len(users) >= 1, "C02.R3", "execute_work_queue:callers", "%d caller(s)" % len(users), "no caller of execute_work_queue", site=EXEC)
    for u in users:
        og = u.origins()
        ex = u.call_sites(r"exec::execute_work_queue$")
        dest = u.blocks[ex[0]]["t"]["dest"][0]
        consumers = []
        for bi, t in u.calls():
            if bi in ex:
                continue
            for a in t["args"]:
                if any(at.kind == "call" and at.key[1] == ex[0] for at in og.of_operand(a)):
                    consumers.append(prog.old_name_of(u.callee_of(t) or "") or u.callee_of(t) or "?")
        rep.check(consumers and all(c.endswith("merge_parallel_deltas") for c in consumers), "C02.R3", "execute_work_queue:only-merged:%s" % u.name,
                  "worker results flow only into merge_parallel_deltas", "worker results are consumed by %s" % consumers, site=u.loc())

    # ---- R5 the merge sees every op of every worker, and every unit runs against its own warp's store
    rep.rule("C02.R5", "A1: no op is dropped between the workers' deltas and the canonical sort (how ops were grouped into deltas is a scheduling accident); "
                       "no store reference outlives one claimed unit")
    DROPPERS = r"Iterator>?::(filter|filter_map|take_while|skip_while|skip|take|step_by|map_while)$|::retain(_mut)?$|::dedup(_by|_by_key)?$|BTreeSet.*::insert$|HashSet.*::insert$|BTreeMap.*::(insert|entry)$|::truncate$"
    merges = [prog.fn("warp_core::engine_impl::merge_parallel_deltas")]
    md = prog.fn_opt("warp_core::parallel::merge::merge_deltas")
    if md is not None:
        merges.append(md)
    for mf in merges:
        sorts = mf.call_sites(r"::sort(_by|_by_key|_unstable|_unstable_by|_unstable_by_key)?$")
        if mf.name == "merge_parallel_deltas" and not sorts and mf.call_sites(r"merge::merge_deltas$"):
            rep.ok("C02.R5", "merge-keeps-every-op:%s" % mf.name, "delegates to merge_deltas in this configuration", site=mf.loc())
            continue
        early = []
        for b in mf.call_sites(DROPPERS):
            if dominates(mf, sorts, [b]) is not None:
                early.append((mf.name, mf.block_line(b), (mf.callee_of(mf.blocks[b]["t"]) or "").rsplit("::", 1)[-1]))
        # closures handed to adaptors before the sort run before the sort
        for bi, si, place, rv, line in mf.assigns():
            if rv["r"] == "agg" and rv.get("ak") == "closure" and rv["adt"] in prog.fns and dominates(mf, sorts, [bi]) is not None:
                stack_ = [rv["adt"]] + prog.closures_in(rv["adt"])
                for cid in stack_:
                    c = prog.fns[cid]
                    for b in c.call_sites(DROPPERS + r"|bool::then_some$|bool::then$"):
                        early.append((c.name, c.block_line(b), (c.callee_of(c.blocks[b]["t"]) or "").rsplit("::", 1)[-1]))
        rep.check(bool(sorts) and not early, "C02.R5", "merge-keeps-every-op:%s" % mf.name, "every op reaches the canonical sort and the equal-key conflict test",
                  "%s drops or de-duplicates ops before the canonical sort (%s): two divergent writes to one key are resolved silently when they share a delta and rejected when they "
                  "do not — the outcome depends on how work was distributed" % (mf.name, early[:3]), site=mf.loc())
    ewq = prog.fn(EXEC + "execute_work_queue")
    n_workers = 0
    for cid in prog.closures_in(ewq.id):
        c = prog.fns[cid]
        claims = c.call_sites(r"atomic::Atomic.*::fetch_add$")
        if not claims:
            continue
        n_workers += 1
        stale = []
        for l_, ty_ in enumerate(c.locals):
            if "GraphStore" not in ty_ or l_ <= c.argc:
                continue
            for d in c.defs().get(l_, ()):
                bb_ = d[1] if d[0] in ("assign", "call") else None
                if bb_ is not None and not c.blocks[bb_]["cl"] and dominates(c, claims, [bb_]) is not None:
                    stale.append((ty_[:60], c.block_line(bb_)))
        rep.check(not stale, "C02.R5", "worker:store-resolved-per-claimed-unit", "every store reference in the worker loop is produced after the unit was claimed",
                  "the worker keeps a store reference across claimed units (%s): a unit can run against the store of a previously claimed unit's warp" % stale[:2], site=c.loc())
    rep.check(n_workers >= 1, "C02.R5", "worker:found", "%d work-queue worker closure(s)" % n_workers, "work-queue worker closure not found", site=ewq.loc())

    # ---- R4
    pd = "warp_core::parallel::exec::PoisonedDelta"
    readers = []
    for f in prog.fns.values():
        if f.crate != "warp_core":
            continue
        if f.rec.get("impl_trait", "").endswith("Debug") or f.rec.get("impl_trait", "").endswith("Drop"):
            continue
        for bi, p, line in places_read_in(f):
            if any(s[0] == pd and s[2] in ("_delta", "delta") for s in field_steps(p)):
                readers.append((f.id, line))
    rep.check(not readers, "C02.R4", "PoisonedDelta:delta-never-read", "no function reads PoisonedDelta's delta",
              "PoisonedDelta's delta is read at %s" % readers[:3], site=readers[0][0] if readers else pd)
