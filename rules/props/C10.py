"""C10 — what was acknowledged survives any crash; what was not is invisible."""
from ..prims import *
from ..guards import find_guard, side_tokens

EXPLANATION = (
    "Structural necessary conditions of C10: (R1) write ordering: frames before the commit marker, the commit marker "
    "record is appended with sync=true, every write precedes the sync, atomic files are written temp→sync→rename→dir-sync; "
    "(R2) no storage Result is dropped anywhere in warp-core (named exceptions only); (R3) a submission/tick is "
    "acknowledged (Ok) only after the durable append succeeded, or it was already durable, or the post-error durable "
    "lookup says it landed; (R4) every error return after the in-memory mutation restores the pre-call runtime "
    "(and provenance / action maps for ticks); (R5) the WAL cursor and frontier digests advance only after the store "
    "append succeeded; (R6) recovery reaches no rule callback, commit or observer; (R7) append/commit/publish are "
    "fenced by the writer lock and the epoch comparison, and a fresh epoch takes the lock before reloading the ledger. "
    "That recovery reconstructs exactly the longest committed prefix for every torn length is NOT decided."
    " Round 2: (R8) truncation is physical — every success return of the truncating rewrite passes the segment rewrite, both truncation arms of writable recovery propagate their result, and the writer's after-error cursor refresh recovers through the truncating recovery; (R9) sibling agreement between dense-LSN recovery and the derivation of a fresh writer epoch's first LSN (known finding F9)."
    ' (R10) both rebuilders of the durable retry index take every recovered submission (no filtering adaptor).'
)
ASSUMPTIONS = ["fsync/rename semantics of the host file system", "a single segment file: sync_all of the commit record also flushes earlier frames"]
FLOOR = 60

CW = "warp_core::causal_wal::"
TH = "warp_core::trusted_runtime_host::"
FS = CW + "FilesystemWalStore"
TW = TH + "TrustedRuntimeWal"

STORAGE_CALLS = (r"(File.*::sync_all$|Write.*::write_all$|std::fs::rename$|causal_wal::sync_directory(_store)?$|causal_wal::append_segment_record$|"
                 r"::append_frame$|::flush_commit$|::flush_external_action_commit$|::flush_commit_with_capabilities$|::append_transaction$|"
                 r"::truncate_tail_after$|::publish_manifest$|::persist_writer_epoch_ledger$|causal_wal::rewrite_segment_records$|"
                 r"causal_wal::write_manifest_atomic$|causal_wal::write_writer_epoch_ledger_atomic$|::close_epoch$|::seal_segment$|::rotate_segment$|"
                 r"std::fs::write$|std::fs::remove_file$|std::fs::create_dir_all$|File.*::set_len$|File.*::sync_data$)")


def run(ctx):
    rep = ctx.report
    prog = ctx.prog("trusted")
    rep.rule("C10.R1", "A1/A10 commit marker last and synced; write ≺ sync; temp ≺ sync ≺ rename ≺ dir sync")
    rep.rule("C10.R2", "error discipline: no storage Result dropped (accepted idioms: ?, match/if let, return, map_err chain)")
    rep.rule("C10.R3", "A1 acknowledge-after-commit")
    rep.rule("C10.R4", "A1/A4 rollback of in-memory state on every later error return")
    rep.rule("C10.R5", "A1 cursor/frontier fields advance only on after_ok(store append)")
    rep.rule("C10.R6", "A9 recovery runs no application callback")
    rep.rule("C10.R7", "A1/A2 writer-epoch fencing")

    # ---------------- R1
    for store in (FS, CW + "InMemoryWalStore"):
        f = prog.fn(store + "::append_transaction")
        fr = f.call_sites(r"::append_frame$")
        fl = f.call_sites(r"::flush_commit_with_capabilities$|::flush_commit$")
        nm = store.rsplit("::", 1)[-1]
        rep.check(len(fr) == 1 and len(fl) == 1, "C10.R1", "%s:append-anchors" % nm, "frames appended then commit flushed", "append_frame=%d flush=%d" % (len(fr), len(fl)), site=f.loc())
        if fr and fl:
            after = f.reachable([f.blocks[fl[0]]["t"]["tgt"]]) if f.blocks[fl[0]]["t"].get("tgt") is not None else set()
            rep.check(fr[0] not in after, "C10.R1", "%s:no-frame-after-commit" % nm, "no frame append after the commit marker", "a frame can be appended after the commit marker", site=f.loc())
            w = f.path([0], fl, avoid_blocks=[])  # reachable at all
            okk, why = result_inspected(f, fr[0])
            rep.check(okk, "C10.R1", "%s:frame-error-stops-commit" % nm, "a failed frame append is propagated (`?`) before the commit",
                      "frame append result dropped: the commit marker could follow a missing frame", site=f.loc())
            for (bi, srcs, err, ok) in residual_sites(f):
                if "append_frame" in srcs and err:
                    w2 = f.path([err[1]], fl, avoid_edges=[ok] if ok else [])
                    rep.check(w2 is None, "C10.R1", "%s:frame-error-never-commits" % nm, "flush is unreachable from a failed frame append",
                              "commit flush reachable after a failed frame append: %s" % f.describe_path(w2), site=f.loc())
            val = f.call_sites(r"WalCommittedTransaction::validate$")
            rep.check(bool(val) and dominates(f, val, fr) is None, "C10.R1", "%s:validated-before-append" % nm, "transaction validated before any byte is appended",
                      "append reachable without validating the transaction", site=f.loc())
    fc = prog.fn(FS + "::flush_commit_with_capabilities")
    asr = fc.call_sites(r"causal_wal::append_segment_record$")
    rep.check(len(asr) == 1, "C10.R1", "flush_commit:writes-commit-record", "one commit record write", "append_segment_record sites in flush: %d" % len(asr), site=fc.loc())
    for b in asr:
        t = fc.blocks[b]["t"]
        syncarg = t["args"][2]
        rep.check("k" in syncarg and "true" in syncarg["k"], "C10.R1", "flush_commit:commit-record-synced", "commit marker is appended with sync = true",
                  "commit marker is appended with sync = %s" % (syncarg.get("k") or "non-constant"), site=fc.loc(t.get("line")))
        og = fc.origins()
        rep.check(any(a.kind == "agg" and "DiskWalRecord" in str(a.key[0]) and a.key[1] == "Commit" for a in og.of_operand(t["args"][1], deep=True)), "C10.R1",
                  "flush_commit:record-is-commit", "the record written is DiskWalRecord::Commit", "flush does not write a Commit record", site=fc.loc())
        ledger = fc.call_sites(r"::persist_writer_epoch_ledger$")
        rep.check(bool(ledger) and dominates(fc, [b], ledger) is None, "C10.R1", "flush_commit:ledger-after-marker", "epoch ledger persisted after the commit marker",
                  "ledger persisted before the commit marker", site=fc.loc())
    aps = prog.fn(CW + "append_segment_record")
    wr = aps.call_sites(r"::write_all$")
    sy = aps.call_sites(r"::sync_all$")
    rep.check(len(wr) >= 4 and len(sy) == 1, "C10.R1", "segment-record:anchors", "%d writes, one sync" % len(wr), "write_all=%d sync_all=%d" % (len(wr), len(sy)), site=aps.loc())
    if wr and sy:
        for wb in wr:
            rep.check(dominates(aps, [wb], sy) is None, "C10.R1", "segment-record:write-before-sync", "every write precedes the sync", "a write is not dominated before sync_all", site=aps.loc())
        after_sync = aps.reachable([aps.blocks[sy[0]]["t"]["tgt"]])
        rep.check(not any(w_ in after_sync for w_ in wr), "C10.R1", "segment-record:no-write-after-sync", "nothing is written after the sync", "a write follows sync_all", site=aps.loc())
        # sync parameter gates: on its true edge Ok is only reachable through sync_all
        sws = [(bi, t) for bi, b in enumerate(aps.blocks) for t in [b["t"]] if t["t"] == "sw" and op_place(t["o"]) is not None and
               any(a.kind == "param" and a.key == 3 for a in aps.origins().of_operand(t["o"]))]
        rep.check(len(sws) == 1, "C10.R1", "segment-record:sync-flag-branch", "one branch on the sync flag", "branches on sync flag: %d" % len(sws), site=aps.loc())
        for bi, t in sws:
            oks, errs = ok_return_blocks(aps)
            true_t = t["ow"]
            false_ts = [x[1] for x in t["v"]]
            w = aps.path([true_t], oks, avoid_blocks=sy, avoid_edges=[(bi, x) for x in false_ts])
            rep.check(w is None, "C10.R1", "segment-record:sync-true-implies-synced", "sync=true: Ok only after sync_all", "Ok reachable with sync=true without sync_all", site=aps.loc())
        okk, why = result_inspected(aps, sy[0])
        rep.check(okk, "C10.R1", "segment-record:sync-error-propagated", why, "sync_all result dropped", site=aps.loc())
    for name in ("write_manifest_atomic", "write_writer_epoch_ledger_atomic"):
        f = prog.fn(CW + name)
        chain = [f.call_sites(r"::write_all$"), f.call_sites(r"::sync_all$"), f.call_sites(r"fs::rename$"), f.call_sites(r"causal_wal::sync_directory_store$")]
        okc = all(chain) and all(dominates(f, chain[i], chain[i + 1]) is None for i in range(3))
        rep.check(okc, "C10.R1", "%s:temp-sync-rename-dirsync" % name, "write → sync → rename → directory sync", "atomic publish order broken: %s" % [len(c) for c in chain], site=f.loc())
        cr = f.call_sites(r"File::create$")
        if cr and chain[2]:
            ogf = f.origins()
            t = f.blocks[chain[2][0]]["t"]
            src_tok = side_tokens(f, t["args"][0])
            cre_tok = side_tokens(f, f.blocks[cr[0]]["t"]["args"][0])
            rep.check(src_tok & cre_tok - {"p:1"} != set() or src_tok == cre_tok, "C10.R1", "%s:rename-source-is-temp" % name, "the renamed file is the synced temp file",
                      "rename source is not the file that was written", site=f.loc())

    # ---------------- R8 truncation is physical
    rep.rule("C10.R8", "A1 a recovery that reports a truncated tail physically removes it: the rewrite/clear runs on every success path of the truncating functions, "
                       "and the writer's after-error cursor refresh recovers through the truncating (writer) recovery")
    rw = prog.fn(CW + "rewrite_filesystem_segments_after_truncation")
    sites = rw.call_sites(r"causal_wal::rewrite_segment_records$")
    succ = [b for b in success_blocks(rw) if b not in sites]
    rep.check(len(sites) >= 1, "C10.R8", "truncate:rewrite-called", "segments are rewritten", "rewrite_filesystem_segments_after_truncation no longer rewrites the segments", site=rw.loc())
    if sites:
        w = rw.path([0], succ, avoid_blocks=sites) if succ else None
        rep.check(w is None, "C10.R8", "truncate:no-success-without-rewrite", "every success return passes the segment rewrite",
                  "rewrite_filesystem_segments_after_truncation can return Ok without rewriting (%s): a torn partial record (never decoded, so never counted) stays at the end of "
                  "the segment and the next acknowledged transaction is appended behind it" % rw.describe_path(w), site=rw.loc())
    rf = prog.fn(CW + "recover_filesystem_store")
    rws = rf.call_sites(r"causal_wal::rewrite_filesystem_segments_after_truncation$")
    cls = rf.call_sites(r"causal_wal::clear_filesystem_segments$")
    rep.check(len(rws) == 1 and len(cls) == 1, "C10.R8", "recover:truncation-sites", "TruncatedAfter → rewrite, TruncatedAll → clear", "rewrite=%d clear=%d" % (len(rws), len(cls)), site=rf.loc())
    for b in rws + cls:
        okk, why = result_inspected(rf, b)
        rep.check(okk, "C10.R8", "recover:truncation-result-propagated:%s" % (rf.callee_of(rf.blocks[b]["t"]) or "").rsplit("::", 1)[-1], why, "truncation error dropped", site=rf.loc())
    # the posture switch that reaches them is on (mode, tail_posture): both truncation arms exist under Writable
    rc = prog.fn(TH + "TrustedRuntimeWal::refresh_cursor_from_store_for_writer")
    fr = rc.call_sites(r"TrustedRuntimeWalCursor::from_recovery$")
    rep.check(len(fr) == 1, "C10.R8", "writer-refresh:anchor", "cursor rebuilt from a recovery report", "from_recovery sites: %d" % len(fr), site=rc.loc())
    for b in fr:
        no = near_origins(rc, rc.blocks[b]["t"]["args"][0])
        calls = {x[1].rsplit("::", 1)[-1] for x in no if x[0] == "call"}
        rep.check("recover_for_writer" in calls and "recover_read_only" not in calls, "C10.R8", "writer-refresh:truncating-recovery",
                  "the writer's cursor is rebuilt from recover_for_writer (uncommitted tail removed first)",
                  "after a store error the writer's cursor is rebuilt from %s: frames of the failed transaction stay in the segment and the retry appends duplicate LSNs behind them" % sorted(calls),
                  site=rc.loc())

    # ---------------- R10 the recovered retry index answers for EVERY recovered submission
    rep.rule("C10.R10", "A1/sibling: the two functions that rebuild the durable submission-acceptance (retry) index from a recovery report — on open and after a store "
                        "error — take every entry of the recovered submission index: no filtering adaptor between `entries()` and the collected map")
    DROP = r"Iterator>?::(filter|filter_map|take_while|skip_while|skip|take|step_by|map_while)$|::retain(_mut)?$|bool::then_some$|bool::then$"
    sib = {}
    for nm in ("from_config", "refresh_cursor_from_store_for_writer"):
        g = prog.fn(TH + "TrustedRuntimeWal::" + nm)
        bodies = [g] + [prog.fns[c] for c in prog.closures_in(g.id)]
        rsi = g.call_sites(r"recover_submission_index$")
        rep.check(len(rsi) == 1, "C10.R10", "retry-index:%s:anchor" % nm, "rebuilt from recover_submission_index", "%s: recover_submission_index sites %d" % (nm, len(rsi)), site=g.loc())
        drops = []
        for b_ in bodies:
            for bi in b_.call_sites(DROP):
                # only adaptors applied to the recovered index: their receiver derives from the recover_submission_index result
                t_ = b_.blocks[bi]["t"]
                ats = b_.origins().of_operand(t_["args"][0], deep=True) if t_["args"] else frozenset()
                if b_ is not g or any(a.kind == "call" and a.key[0].endswith("recover_submission_index") for a in ats):
                    drops.append(((b_.callee_of(t_) or "").rsplit("::", 1)[-1], b_.block_line(bi)))
        sib[nm] = drops
        rep.check(not drops, "C10.R10", "retry-index:%s:keeps-every-entry" % nm, "every recovered submission enters the retry index",
                  "%s drops recovered submissions from the retry index (%s): after a restart a retry of such a submission is not recognised and is committed again" % (nm, drops[:2]), site=g.loc())

    # ---------------- R9 a fresh writer epoch starts dense with the durable log
    rep.rule("C10.R9", "sibling agreement: recovery requires dense LSNs (validate_recovery_frame_order: lsn == previous + 1), so the first LSN of a fresh "
                       "writer epoch may only be `next(an LSN that was written)` or the caller's recovered next LSN — never `next(previous epoch's started_at_lsn)`, "
                       "which skips an LSN when that epoch wrote nothing")
    fo = prog.fn(CW + "validate_recovery_frame_order")
    dense = [c for c in comparisons(fo) if c[1] in ("Ne", "Eq", "ne", "eq") and any(x[0] == "call" and x[1].endswith("checked_next") for o in (c[2], c[3]) for x in near_origins(fo, o))]
    rep.check(bool(dense), "C10.R9", "recovery:lsn-dense", "recovery demands lsn == next(previous lsn)", "validate_recovery_frame_order no longer demands dense LSNs", site=fo.loc())
    af = prog.fn(FS + "::acquire_fresh_writer_epoch")
    nexts = [bi for bi, t in af.calls() if (af.callee_of(t) or "").endswith("Lsn::checked_next") or any(a.get("fn", "") and str(a["fn"]).endswith("Lsn::checked_next") for a in t["args"])]
    rep.check(bool(nexts), "C10.R9", "epoch-start:anchor", "%d checked_next site(s) derive the epoch's first LSN" % len(nexts), "acquire_fresh_writer_epoch no longer derives a start LSN with checked_next", site=af.loc())
    for bi in nexts:
        reads = chain_field_reads(af, af.blocks[bi]["t"]["args"][0])
        unwritten = sorted(r_ for r_ in reads if r_[1] == "started_at_lsn")
        rep.check(not unwritten, "C10.R9", "epoch-start:dense-with-durable-log", "the start LSN is next(final_lsn) of the previous epoch or the caller's recovered next LSN",
                  "acquire_fresh_writer_epoch derives the new epoch's first LSN as next(%s.%s): when the previous epoch closed without a commit that LSN was never written, the new "
                  "epoch's first acknowledged transaction leaves an LSN gap and every later recovery fails with LsnContinuityMismatch" % unwritten[0] if unwritten else "", site=af.loc(af.block_line(bi)))

    # ---------------- R2
    exceptions = {
        ("warp_core::trusted_runtime_host::TrustedRuntimeWal::try_update_evidence_catalog_after_commit", "*"): "best-effort evidence catalog update (posture flagged NeedsRebuild)",
    }
    n_sites = 0
    srx = re.compile(STORAGE_CALLS)
    for f in prog.fns.values():
        if f.crate != "warp_core":
            continue
        if f.file.endswith("_tests.rs"):
            continue
        for bi, t in f.calls():
            if f.blocks[bi]["cl"]:
                continue
            callee = f.callee_of(t) or ""
            if not srx.search(callee):
                continue
            rty = f.locals[t["dest"][0]] if not t["dest"][1] else ""
            if "Result" not in rty:
                continue
            n_sites += 1
            okk, why = result_inspected(f, bi)
            if not okk and (f.id, "*") in exceptions:
                rep.ok("C10.R2", "exception:%s" % f.id.replace("warp_core::", ""), exceptions[(f.id, "*")], site=f.loc())
                continue
            rep.check(okk, "C10.R2", "storage-result:%s@%s" % (callee.rsplit("::", 1)[-1], f.id.replace("warp_core::", "")), why,
                      "the Result of %s is dropped in %s (%s)" % (callee, f.id, why), site=f.loc(t.get("line")))
    rep.check(n_sites >= 60, "C10.R2", "storage-result:site-count", "%d storage call sites checked" % n_sites, "only %d storage call sites found" % n_sites, site="warp_core")

    # ---------------- R3
    sub = prog.fn(TH + "TrustedRuntimeHostApp::<'_>::submit_intent_with_runtime_wal_ack_inner")
    oks, errs = ok_return_blocks(sub)
    has = sub.call_sites(r"TrustedRuntimeWal::has_submission_acceptance$")
    rec = sub.call_sites(r"TrustedRuntimeWal::record_submission_acceptance$")
    rcv = sub.call_sites(r"TrustedRuntimeWal::recover_filesystem_submission_acceptance_after_error$")
    rep.check(len(has) == 1 and len(rec) == 1 and len(rcv) == 1 and len(oks) >= 1, "C10.R3", "submit:anchors", "durability gates present",
              "has=%d record=%d recover=%d ok-returns=%d" % (len(has), len(rec), len(rcv), len(oks)), site=sub.loc())
    if has and rec and rcv:
        gates = []
        for b in has + rcv:
            for sw in succ_edges_of_bool_call(sub, b) or []:
                gates.append((sw["sw"], sw["true"]))
        re_ = result_edges(sub, rec[0])
        gates += re_["ok"]
        rep.check(len(gates) >= 3, "C10.R3", "submit:gate-edges", "%d durable-evidence edges" % len(gates), "could not identify all durable-evidence edges (%d)" % len(gates), site=sub.loc())
        w = reachable_without_edges(sub, oks, gates)
        rep.check(w is None, "C10.R3", "submit:ack-only-when-durable", "Ok(handle) is reachable only through durable evidence",
                  "a submission can be acknowledged without durable evidence: %s" % sub.describe_path(w), site=sub.loc())
    rsa = prog.fn(TW + "::record_submission_acceptance")
    tick_fns = [rsa] + [prog.fn(TW + "::" + n) for n in ("record_tick_receipt", "record_tick_receipt_batch")]
    for f in tick_fns:
        ap = f.call_sites(r"TrustedRuntimeWal::append_transaction$")
        okf, _ = ok_return_blocks(f)
        rep.check(len(ap) == 1 and bool(okf), "C10.R3", "%s:appends" % f.name, "one durable append", "append sites: %d" % len(ap), site=f.loc())
        if ap:
            re_ = result_edges(f, ap[0])
            w = reachable_without_edges(f, okf, re_["ok"])
            rep.check(bool(re_["ok"]) and w is None, "C10.R3", "%s:ok-only-after-append" % f.name, "Ok only after the append succeeded",
                      "%s can return Ok without a successful append" % f.name, site=f.loc())
    ta = prog.fn(TW + "::append_transaction")
    sa = ta.call_sites(r"::append_transaction$")
    okt, _ = ok_return_blocks(ta)
    if sa:
        re_ = result_edges(ta, sa[0])
        w = reachable_without_edges(ta, okt, re_["ok"])
        rep.check(bool(re_["ok"]) and w is None, "C10.R3", "wal-append:ok-only-after-store-append", "Ok(commit) only after store.append_transaction succeeded",
                  "TrustedRuntimeWal::append_transaction can succeed without the store append", site=ta.loc())
    rep.check(len(sa) == 1, "C10.R3", "wal-append:store-append-site", "one store append", "store append sites: %d" % len(sa), site=ta.loc())
    to = prog.fn(TH + "TrustedRuntimeHost::tick_once")
    okto, errto = ok_return_blocks(to)
    recs = to.call_sites(r"TrustedRuntimeWal::record_tick_receipt(_batch)?$")
    rcvt = to.call_sites(r"recover_filesystem_tick_commit_after_error$")
    rep.check(len(recs) == 2 and len(rcvt) == 1, "C10.R3", "tick:anchors", "tick receipt append sites and post-error lookup present", "record=%d recover=%d" % (len(recs), len(rcvt)), site=to.loc())
    # the match on `result`: its Err arm returns Err unless the durable lookup says it landed
    if recs and rcvt:
        sws = succ_edges_of_bool_call(to, rcvt[0]) or []
        for sw in sws:
            w = to.path([sw["false"]], okto, avoid_edges=[(sw["sw"], sw["true"])], avoid_blocks=loop_heads(to))
            rep.check(w is None, "C10.R3", "tick:failed-append-not-acknowledged", "a failed WAL append that did not land never reaches Ok",
                      "tick can be acknowledged after a failed append: %s" % to.describe_path(w), site=to.loc())
        rep.check(bool(sws), "C10.R3", "tick:recover-branch", "post-error durable lookup is branched on", "recover lookup not branched on", site=to.loc())

    # ---------------- R4
    host = TH + "TrustedRuntimeHost"
    mut = sub.call_sites(r"WorldlineRuntime::submit_app_intent$|WorldlineRuntime::submit_contract_inverse_intent$")
    restore = assign_blocks(sub, host, "runtime")
    rep.check(len(mut) >= 1 and len(restore) >= 1, "C10.R4", "submit:rollback-anchors", "mutation calls and runtime restores present", "mutations=%d restores=%d" % (len(mut), len(restore)), site=sub.loc())
    clone = [b for b in sub.call_sites(r"Clone.*::clone$") if "WorldlineRuntime" in (sub.callee_of(sub.blocks[b]["t"]) or "") + sub.blocks[b]["t"]["fn"].get("g", "")]
    rep.check(bool(clone) and dominates(sub, clone, mut) is None, "C10.R4", "submit:snapshot-before-mutation", "runtime snapshot taken before the mutation", "no runtime clone before mutation", site=sub.loc())
    for m in mut:
        re_ = result_edges(sub, m)
        starts = [tgt for (sw, tgt) in re_["ok"]]
        w = sub.path(starts, errs, avoid_blocks=restore)
        rep.check(bool(starts) and w is None, "C10.R4", "submit:err-after-mutation-restores", "every error return after the mutation restores host.runtime",
                  "an error return after the in-memory submission does not restore host.runtime: %s" % sub.describe_path(w), site=sub.loc())
    stc = to.call_sites(r"super_tick_with_echo_operation_actions_v1$")
    rep.check(len(stc) == 1, "C10.R4", "tick:super-tick-site", "one scheduler pass per tick_once", "super_tick sites: %d" % len(stc), site=to.loc())
    if stc:
        re_ = result_edges(to, stc[0])
        starts = [tgt for (sw, tgt) in re_["ok"]]
        for fld in ("runtime", "provenance", "echo_operation_action_outcomes", "admitted_echo_operation_actions"):
            rb = assign_blocks(to, host, fld)
            w = to.path(starts, errto, avoid_blocks=rb)
            rep.check(bool(rb) and bool(starts) and w is None, "C10.R4", "tick:err-after-pass-restores:%s" % fld, "every error return after the pass restores host.%s" % fld,
                      "an error return after the scheduler pass does not restore host.%s: %s" % (fld, to.describe_path(w)), site=to.loc())
        # frame: host fields written after the pass
        after = to.reachable(starts)
        written = {fld for fld, blocks in self_field_assign_blocks(to, host, include_mut_borrows=True).items() if any(b in after for b in blocks)}
        allowed = {"runtime", "provenance", "echo_operation_action_outcomes", "admitted_echo_operation_actions", "runtime_wal",
                   "pending_echo_operation_actions", "echo_operation_action_admission_obstructions"}
        late_only = {"pending_echo_operation_actions", "echo_operation_action_admission_obstructions"}
        rep.check(written <= allowed, "C10.R4", "tick:frame", "host fields written after the pass: %s" % sorted(written),
                  "tick_once writes host fields %s after the pass that no error path restores" % sorted(written - allowed), site=to.loc())
        for fld in sorted(written & late_only):
            blocks = [b for b in self_field_assign_blocks(to, host, include_mut_borrows=True)[fld] if b in after]
            leak = any(to.path([b], errto) for b in blocks)
            rep.check(not leak, "C10.R4", "tick:late-bookkeeping:%s" % fld, "written only after the last fallible step",
                      "host.%s is written before a fallible step without being restored" % fld, site=to.loc())

    # ---------------- R5
    n5 = 0
    for f in prog.find_fns(r"^warp_core::trusted_runtime_host::TrustedRuntimeWal::"):
        if f.is_closure():
            continue
        ap = f.call_sites(r"TrustedRuntimeWal::append_transaction$|Store.*::append_transaction$|::append_transaction$")
        ap = [b for b in ap if f.id != TW + "::append_transaction" or True]
        if not ap or f.name in ("in_memory_rollback_snapshot",):
            continue
        if len(ap) != 1:
            continue
        re_ = result_edges(f, ap[0])
        if not re_["ok"]:
            continue
        fields = self_field_assign_blocks(f, TW)
        for fld, blocks in sorted(fields.items()):
            if fld in ("store",):
                continue
            n5 += 1
            w = reachable_without_edges(f, blocks, re_["ok"])
            rep.check(w is None, "C10.R5", "advance-after-append:%s.%s" % (f.name, fld), "TrustedRuntimeWal.%s assigned only after the append succeeded" % fld,
                      "%s assigns TrustedRuntimeWal.%s without a successful durable append: %s" % (f.name, fld, f.describe_path(w)), site=f.loc())
    rep.check(n5 >= 8, "C10.R5", "advance-after-append:count", "%d cursor/frontier assignments checked" % n5, "only %d cursor assignments found" % n5, site=TW)

    # ---------------- R6
    ent = [prog.fn(TH + "TrustedRuntimeHost::enable_runtime_wal"), prog.fn(TW + "::recover_read_only")]
    ids, ext = prog.reach(ent)
    bad = [i for i in ids if re.search(r"Engine::commit_with_(state|receipt)$|SchedulerCoordinator::super_tick|Engine::apply_in_warp$|parallel::exec::execute_|"
                                       r"ObservationService::observe|rule::RewriteRule", i)]
    rep.check(not bad and len(ids) > 200, "C10.R6", "recovery:no-commit-or-tick", "recovery tree (%d fns) reaches no commit/tick/observe" % len(ids),
              "recovery reaches %s" % bad[:3], site=ent[0].loc())
    ind = []
    for i in ids:
        f = prog.fns[i]
        for bi, t in f.calls():
            fj = t["fn"]
            if "ind" in fj and ("GraphView" in fj["ind"] or "ContractQueryObserver" in fj["ind"] or "ContractInverse" in fj["ind"]):
                ind.append((i, fj["ind"][:60]))
    rep.check(not ind, "C10.R6", "recovery:no-rule-callback", "no rule executor / observer callback is invoked during recovery",
              "recovery invokes an application callback: %s" % ind[:2], site=ent[0].loc())

    # ---------------- R7
    af = prog.fn(FS + "::acquire_fresh_writer_epoch")
    lk = af.call_sites(r"causal_wal::acquire_writer_epoch_lock$")
    rl = af.call_sites(r"::reload_writer_epoch_ledger$")
    rep.check(bool(lk) and bool(rl) and dominates(af, lk, rl) is None, "C10.R7", "fresh-epoch:lock-before-reload", "writer lock taken before the ledger is reloaded",
              "ledger reloaded before taking the writer lock", site=af.loc())
    for p_ in lk + rl:
        okk, why = result_inspected(af, p_)
        rep.check(okk, "C10.R7", "fresh-epoch:%s-propagated" % (af.callee_of(af.blocks[p_]["t"]) or "").rsplit("::", 1)[-1], why, "result dropped", site=af.loc())
    fenced = [("<warp_core::causal_wal::FilesystemWalStore as warp_core::causal_wal::WalStorePort>::append_frame", r"causal_wal::append_segment_record$"),
              (FS + "::flush_commit_with_capabilities", r"causal_wal::append_segment_record$"),
              ("<warp_core::causal_wal::FilesystemWalStore as warp_core::causal_wal::WalStorePort>::publish_manifest", r"causal_wal::write_manifest_atomic$"),
              ("<warp_core::causal_wal::FilesystemWalStore as warp_core::causal_wal::WalStorePort>::close_epoch", r"::persist_writer_epoch_ledger$")]
    for path, sink in fenced:
        f = prog.fn(path)
        ew = f.call_sites(r"::ensure_writer_lock$")
        sk = f.call_sites(sink)
        rep.check(bool(ew) and bool(sk) and dominates(f, ew, sk) is None, "C10.R7", "fenced:%s:lock-checked-first" % f.name, "ensure_writer_lock dominates the write",
                  "%s writes without ensure_writer_lock" % f.name, site=f.loc())
        st, detail = find_guard(prog, f, CW + "WalStoreError", "WriterEpochMismatch", {"f:active_epoch", "f:epoch_id"}, {"p:2"})
        rep.check(st == "ok", "C10.R7", "fenced:%s:epoch-compared" % f.name, detail, "%s — %s" % (st, detail), site=f.loc())
