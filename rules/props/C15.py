"""C15 — speculative lanes fork faithfully and settle lawfully."""
from ..prims import *
from ..guards import find_guard, side_tokens
from ..baselines import baseline

EXPLANATION = (
    "Structural necessary conditions of C15: (R1) planning and comparison take only shared borrows of runtime and "
    "provenance (no interior mutability reachable, shared with C16) and simulate on a clone; (R2) settlement is "
    "all-or-nothing: snapshot and provenance checkpoint are taken before any append, every append runs inside the closure "
    "whose error outcome restores both, and the braid shell is the last fallible step; (R3) never overwrite: within one "
    "plan iteration an import decision is unreachable from a failed patch application, a state-root mismatch, a dirty "
    "overlap or an already-blocked suffix, and the simulated parent advances only on the import path; (R4) fork: errors "
    "after the first mutation restore runtime and provenance wholesale, the child's writer heads derive from the request "
    "only and pass duplicate rejection, the forked history is bounded by the fork tick and every lane-bearing field of a "
    "copied entry is rewritten; (R5) basis handling is total over the revalidation states. Isolation of parent and strand "
    "as a behavioural fact is NOT decided."
    ' Round 2 (R6): the divergence / parent-movement footprints are collected from every recorded patch — collection never inspects the provenance event kind.'
)
ASSUMPTIONS = ["Clone of runtime/provenance captures their full value", "C05/C07 clauses cover replay verification used by fork"]
FLOOR = 35

SE = "warp_core::settlement::"
SV = SE + "SettlementService"
CO = "warp_core::coordinator::"
PS = "warp_core::provenance_store::"


def run(ctx):
    rep = ctx.report
    prog = ctx.prog("trusted")
    rep.rule("C15.R1", "A8 planning is side-effect-free by type; simulation on a clone")
    rep.rule("C15.R2", "A1 all-or-nothing settle; shell last")
    rep.rule("C15.R3", "A1 never overwrite: import unreachable from failure/mismatch/dirty/blocked edges")
    rep.rule("C15.R4", "A1/A2/A3 fork: wholesale restore, heads from the request, bounded copy, lane rewrite")
    rep.rule("C15.R5", "A6 totality over revalidation states")
    # overlap revalidation compares WHOLE records: a slot value that keeps only part of a record (an edge's endpoints) judges a
    # change of the omitted part (its type) "clean" and imports it over the parent's value
    RSV = SE + "RevalidationSlotValue"
    rsv = prog.adt(RSV)
    want_ty = {"Node": "warp_core::record::NodeRecord", "Edge": "warp_core::record::EdgeRecord", "Attachment": "warp_core::attachment::AttachmentValue"}
    for v_ in rsv["variants"]:
        if v_["n"] in want_ty:
            tys_ = " ".join(f_["ty"] for f_ in v_["fields"])
            rep.check(want_ty[v_["n"]] in tys_, "C15.R5", "revalidation-compares-whole-record:%s" % v_["n"], "carries %s" % want_ty[v_["n"]].rsplit("::", 1)[-1],
                      "RevalidationSlotValue::%s carries %s instead of the whole %s: overlapping writes that differ only in the omitted fields are judged clean and imported" % (
                          v_["n"], tys_, want_ty[v_["n"]].rsplit("::", 1)[-1]), site=RSV)
    rep.rule("C15.R6", "A4 the divergence / parent-movement footprints are collected from EVERY recorded patch of the lane: collection reads the entry's patch and never its event kind")
    # Settlement decides "may this be imported without revalidation" from the slots the parent touched since the fork.  Every
    # provenance entry that carries a patch moved the parent — local commits and earlier merge imports alike; a collector that
    # looks at `event_kind` silently drops some of them and lets a contested slot be imported over the parent's value.
    STR = "warp_core::strand::"
    PEN = PS + "ProvenanceEntry"
    prog.adt(PEN)
    for nm in ("collect_parent_movement", "collect_divergence_footprint"):
        cf = prog.fn(STR + nm)
        ctree, _ = tree(prog, [cf], stop=lambda i: not i.startswith(STR))
        ctree = [g for g in ctree if g.id.startswith(STR)]
        rd = read_set(ctree, PEN)
        rep.check("patch" in rd, "C15.R6", "%s:reads-patch" % nm, "collects from entry.patch", "%s no longer reads ProvenanceEntry.patch" % nm, site=cf.loc())
        rep.check("event_kind" not in rd, "C15.R6", "%s:every-entry-kind-counts" % nm, "never inspects the event kind: every entry with a patch contributes",
                  "%s filters provenance entries by event_kind (%s): patches recorded by some kinds of entry (e.g. an earlier merge import) no longer count as movement, so an "
                  "overlapping slot is treated as disjoint and imported without revalidation" % (nm, sorted({"%s:%s" % (f_.rsplit("::", 1)[-1], l) for f_, l in rd.get("event_kind", [])})[:2]), site=cf.loc())
        ex = [g for g in ctree if g.call_sites(r"::extend_patch$")]
        rep.check(bool(ex), "C15.R6", "%s:extends-footprint" % nm, "footprint extended per patch", "%s no longer extends the footprint" % nm, site=cf.loc())

    plan = prog.fn(SV + "::plan_with_policy_internal")
    cmp_ = prog.fn(SV + "::compare_internal")
    for f in (plan, cmp_):
        for i, t in enumerate(fn_param_tys(f)):
            if "WorldlineRuntime" in t or "ProvenanceService" in t:
                rep.check(t.startswith("&") and not t.startswith("&mut"), "C15.R1", "%s:param%d-shared" % (f.name, i + 1), t, "%s takes %s" % (f.name, t), site=f.loc())
        ids, ext = prog.reach([f])
        bad = sorted(i for i in ids if re.search(r"::append_local_commit$|::append_recorded_event$|append_braid_shell$|WorldlineRuntime::(advance_global_tick|restore|register_\w+)$|replace_frontier$", i))
        rep.check(not bad, "C15.R1", "%s:no-mutator-reachable" % f.name, "tree of %d fns reaches no runtime/provenance mutator" % len(ids), "%s reaches %s" % (f.name, bad[:2]), site=f.loc())
    for root in ("warp_core::coordinator::WorldlineRuntime", "warp_core::provenance_store::ProvenanceService"):
        hits, allowed = interior_mut(prog, root)
        hits = [h for h in hits if not any("receipt_correlation_full_scan_count" in x for x in h[1])]  # host_test-only scan counter
        rep.check(not hits, "C15.R1", "no-interior-mutability:%s" % root.rsplit("::", 1)[-1], "shared borrow is read-only (%d refcount cells)" % len(allowed),
                  "%s reaches interior mutability %s" % (root, [h[1][-2:] for h in hits[:2]]), site=root)
    clones = [b for b in plan.call_sites(r"Clone.*::clone$") if "WorldlineState" in plan.blocks[b]["t"]["fn"].get("g", "") + (plan.callee_of(plan.blocks[b]["t"]) or "")]
    applies = plan.call_sites(r"apply_to_worldline_state$")
    rep.check(len(clones) >= 2 and len(applies) == 1, "C15.R1", "plan:simulates-on-clone", "frontier state cloned (%d) and the patch applied to a clone" % len(clones),
              "plan clones=%d applies=%d" % (len(clones), len(applies)), site=plan.loc())
    if applies:
        og = plan.origins()
        t = plan.blocks[applies[0]]["t"]
        ats = og.of_operand(t["args"][1], deep=True)
        rep.check(any(a.kind == "call" and a.key[1] in clones for a in ats) and not any(a.kind == "param" and a.key == 1 and not a.steps for a in ats), "C15.R1",
                  "plan:apply-target-is-clone", "the patch is applied to a cloned state", "the plan applies a patch to non-cloned state", site=plan.loc())

    # ---- R2
    st = prog.fn(SV + "::settle_with_policy_internal")
    APPENDS = r"append_import_candidate$|append_conflict_artifact$|append_plural_artifact$|append_braid_shell$"
    # the execution body: the closure (or the private function extracted from it) that performs every append
    cl = [prog.fns[c] for c in prog.closures_in(st.id)]
    body = [c for c in cl if c.call_sites(APPENDS)]
    call_cl = [bi for bi, t in st.calls() if body and any(a.kind == "agg" and a.key[0] == body[0].id for x in t["args"] for a in st.origins().of_operand(x))] if body else []
    if not body:
        for bi, t in st.calls():
            c_ = st.callee_of(t) or ""
            if c_ in prog.fns and c_.startswith("warp_core::settlement::") and prog.fns[c_].call_sites(APPENDS) and not st.blocks[bi]["cl"]:
                body.append(prog.fns[c_])
                call_cl.append(bi)
    rep.check(len(body) == 1, "C15.R2", "settle:appends-inside-closure", "all appends live in one execution body (closure or private function)", "execution bodies: %d" % len(body), site=st.loc())
    rep.check(not st.call_sites(APPENDS + r"|advance_global_tick$"), "C15.R2", "settle:no-append-outside-closure",
              "no append outside the guarded execution body", "settle appends outside the execution body", site=st.loc())
    snap = [b for b in st.call_sites(r"Clone.*::clone$") if "WorldlineRuntime" in st.blocks[b]["t"]["fn"].get("g", "") + (st.callee_of(st.blocks[b]["t"]) or "")]
    ck = st.call_sites(r"ProvenanceService::checkpoint_for$")
    rep.check(bool(snap) and bool(ck) and bool(call_cl) and dominates(st, snap, call_cl) is None and dominates(st, ck, call_cl) is None, "C15.R2", "settle:snapshot-before-execution",
              "runtime clone and provenance checkpoint precede execution", "snapshot/checkpoint do not dominate the execution body", site=st.loc())
    ie = st.call_sites(r"Result.*::is_err$")
    rest_rt = [bi for bi, si, place, rv, line in st.assigns() if place[0] == 1 and place[1] == ["*"]]
    rest_pv = st.call_sites(r"ProvenanceService::restore$")
    okr = False
    for b in ie:
        for sw in succ_edges_of_bool_call(st, b) or []:
            rets = st.return_blocks()
            w1 = st.path([sw["true"]], rets, avoid_blocks=rest_rt, avoid_edges=[(sw["sw"], sw["false"])])
            w2 = st.path([sw["true"]], rets, avoid_blocks=rest_pv, avoid_edges=[(sw["sw"], sw["false"])])
            if rest_rt and rest_pv and w1 is None and w2 is None:
                okr = True
    rep.check(okr, "C15.R2", "settle:error-restores-runtime-and-provenance", "outcome.is_err() ⇒ *runtime = snapshot and provenance.restore(checkpoint) before returning",
              "a failed settlement can return without restoring runtime and provenance", site=st.loc())
    if body:
        b0 = body[0]
        sh = b0.call_sites(r"append_braid_shell$")
        apps = b0.call_sites(r"append_import_candidate$|append_conflict_artifact$|append_plural_artifact$|advance_global_tick$")
        rep.check(len(sh) == 1, "C15.R2", "settle:shell-site", "one shell append", "shell append sites: %d" % len(sh), site=b0.loc())
        if sh:
            after = b0.reachable([b0.blocks[sh[0]]["t"]["tgt"]]) if b0.blocks[sh[0]]["t"].get("tgt") is not None else set()
            falls = [b for b in apps if b in after]
            others = [bi for bi, t in b0.calls() if bi in after and (b0.callee_of(t) or "").startswith("warp_core::") and "Result" in b0.locals[t["dest"][0]]]
            rep.check(not falls and not others, "C15.R2", "settle:shell-is-last-fallible-step", "nothing fallible follows the braid-shell append",
                      "a fallible step follows the shell append: %s" % [(b0.callee_of(b0.blocks[b]["t"]) or "") for b in (falls + others)[:2]], site=b0.loc())
        for b in apps + sh:
            okk, why = result_inspected(b0, b)
            rep.check(okk, "C15.R2", "settle:append-result-propagated@%s" % (b0.callee_of(b0.blocks[b]["t"]) or "").rsplit("::", 1)[-1], why, "append result dropped", site=b0.loc())

    # ---- R3
    imp = agg_blocks(plan, SE + "SettlementDecision", "ImportCandidate")
    heads = loop_heads(plan)
    rep.check(len(imp) == 1, "C15.R3", "plan:import-site", "one import decision site", "import decision sites: %d" % len(imp), site=plan.loc())
    if imp and applies:
        # failed application
        pe = presence_edges(plan, applies[0])
        for b in plan.call_sites(r"Result.*::is_err$"):
            t = plan.blocks[b]["t"]
            if any(a.kind == "call" and a.key[1] == applies[0] for a in plan.origins().of_operand(t["args"][0], deep=True)):
                for sw in succ_edges_of_bool_call(plan, b) or []:
                    w = plan.path([sw["true"]], imp, avoid_blocks=heads, avoid_edges=[(sw["sw"], sw["false"])])
                    rep.check(w is None, "C15.R3", "plan:failed-apply-never-imports", "a suffix entry whose patch fails to apply is never imported",
                              "import reachable after a failed application: %s" % plan.describe_path(w), site=plan.loc())
        st_, detail = "no", ""
        # state-root mismatch -> conflict, never import
        from ..guards import comparison_controls
        ok_root = False
        for c in comparisons(plan):
            ta, tb = side_tokens(plan, c[2]), side_tokens(plan, c[3])
            if ("c:compute_state_root_for_warp_state" in ta and "f:state_root" in tb) or ("c:compute_state_root_for_warp_state" in tb and "f:state_root" in ta):
                for sw in switch_edges_on_local(plan, c[4]):
                    for rej, acc in ((sw["true"], sw["false"]), (sw["false"], sw["true"])):
                        reach = plan.reachable([rej], avoid_edges=[(sw["sw"], acc)], avoid_blocks=heads + [sw["sw"]])
                        if not any(i in reach for i in imp) and any(b in reach for b in agg_blocks(plan, SE + "SettlementDecision", "ConflictArtifact")):
                            ok_root = True
        rep.check(ok_root, "C15.R3", "plan:root-mismatch-never-imports", "a state-root mismatch yields a conflict artifact and never an import",
                  "no gating comparison of the simulated state root with the entry's expected root", site=plan.loc())
        oc = plan.call_sites(r"settlement::overlap_slots_are_clean$")
        rep.check(len(oc) == 1, "C15.R3", "plan:overlap-check-site", "overlap cleanliness is checked", "overlap_slots_are_clean sites: %d" % len(oc), site=plan.loc())
        for b in oc:
            for sw in succ_edges_of_bool_call(plan, b) or []:
                w = plan.path([sw["false"]], imp, avoid_blocks=heads, avoid_edges=[(sw["sw"], sw["true"])])
                rep.check(w is None, "C15.R3", "plan:dirty-overlap-never-imports", "slots the parent changed are never overwritten by an import",
                          "import reachable when overlap slots are not clean: %s" % plan.describe_path(w), site=plan.loc())
        # blocked suffix: every construction of a Conflict/Plural decision is followed (within the iteration) by no import
        for var in ("ConflictArtifact", "PluralAlternative"):
            for b in agg_blocks(plan, SE + "SettlementDecision", var):
                w = plan.path([b], imp, avoid_blocks=heads)
                rep.check(w is None, "C15.R3", "plan:%s-then-no-import@%s" % (var, plan.block_line(b)), "a retained artifact is never followed by an import in the same iteration",
                          "import reachable after a %s decision: %s" % (var, plan.describe_path(w)), site=plan.loc())
        # blocked_reason consulted first in each iteration
        br_reads = plan.call_sites(r"Option.*::or_else$")
        rep.check(bool(br_reads) and dominates(plan, br_reads, imp) is None, "C15.R3", "plan:blocked-suffix-consulted", "a blocked suffix is consulted before any import",
                  "blocked_reason is not consulted before importing", site=plan.loc())
        # simulated = candidate only on the import path: the assignment block dominates/precedes import and is unreachable from conflict sites
        sims = [bi for bi, si, place, rv, line in plan.assigns() if not place[1] and plan.locals[place[0]].endswith("WorldlineState") and rv["r"] == "use" and "m" in rv["o"]
                and plan.locals[rv["o"]["m"][0]].endswith("WorldlineState") and any(d[0] == "call" for d in plan.defs().get(rv["o"]["m"][0], ()))]
    # ---- R4
    fk = prog.fn(CO + "WorldlineRuntime::fork_strand")
    rs1 = [bi for bi, si, place, rv, line in fk.assigns() if place[0] == 1 and place[1] == ["*"]]
    rs2 = [bi for bi, si, place, rv, line in fk.assigns() if place[0] == 2 and place[1] == ["*"]]
    oks, errs = ok_return_blocks(fk)
    errs_all = [b for b in range(len(fk.blocks)) if any(st_[0] == "a" and st_[1][0] == 0 and st_[2]["r"] == "agg" and st_[2].get("var") == "Err" for st_ in fk.blocks[b]["st"])]
    rep.check(bool(rs1) and bool(rs2) and bool(errs_all), "C15.R4", "fork:restore-sites", "whole-value restores of runtime and provenance present", "restore sites: runtime=%d provenance=%d" % (len(rs1), len(rs2)), site=fk.loc())
    if rs1 and rs2 and errs_all:
        w = fk.path([0], errs_all, avoid_blocks=rs1)
        w2 = fk.path([0], errs_all, avoid_blocks=rs2)
        rep.check(w is None and w2 is None, "C15.R4", "fork:error-restores-both", "every Err return passes *self = before and *provenance = before",
                  "fork_strand can return Err without restoring runtime/provenance", site=fk.loc())
    fcl = [prog.fns[c] for c in prog.closures_in(fk.id)]
    fbody = [c for c in fcl if c.call_sites(r"ProvenanceService::fork$")]
    rep.check(len(fbody) == 1 and not fk.call_sites(r"ProvenanceService::fork$|register_worldline$|register_writer_head$|register_strand$"), "C15.R4", "fork:mutations-inside-closure",
              "all mutations live in the guarded closure", "fork mutates outside its guarded closure", site=fk.loc())
    if fbody:
        b0 = fbody[0]
        rw = b0.call_sites(r"WorldlineRuntime::register_writer_head$")
        rep.check(len(rw) == 1, "C15.R4", "fork:heads-registered", "writer heads registered through register_writer_head", "register_writer_head sites: %d" % len(rw), site=b0.loc())
        for b in rw:
            toks = side_tokens(b0, b0.blocks[b]["t"]["args"][1])
            from_req = any(t.startswith("u:") and "request" in t and "writer_heads" in t for t in toks) or (any(t.startswith("u:") and "request" in t for t in toks) and "f:writer_heads" in toks)
            from_parent = "f:heads" in toks
            rep.check(from_req and not from_parent, "C15.R4", "fork:heads-from-request-only", "child heads derive from request.writer_heads only",
                      "child writer heads derive from %s (parent registry must never be shared)" % sorted(toks), site=b0.loc())
        order = [b0.call_sites(r"ProvenanceService::replay_worldline_state_at$"), b0.call_sites(r"ProvenanceService::fork$"), b0.call_sites(r"register_worldline$"), rw, b0.call_sites(r"register_strand$")]
        chain = [order[0], order[1], order[2], order[4]]
        rep.check(all(order) and all(dominates(b0, chain[i], chain[i + 1]) is None for i in range(3)) and dominates(b0, order[2], order[3]) is None, "C15.R4", "fork:order",
                  "replay basis → fork history → register lane → (heads) → strand", "fork steps are not in dominance order", site=b0.loc())
        for grp in order:
            for b in grp:
                okk, why = result_inspected(b0, b)
                rep.check(okk, "C15.R4", "fork:propagated@%s" % (b0.callee_of(b0.blocks[b]["t"]) or "").rsplit("::", 1)[-1], why, "result dropped", site=b0.loc())
    rh = prog.fn(CO + "WorldlineRuntime::register_writer_head")
    live = constructed_variants([rh], CO + "RuntimeError")
    for v in ("DuplicateHead", "UnknownWorldline", "DuplicateDefaultWriter", "DuplicateInboxAddress"):
        rep.check(v in live, "C15.R4", "register_writer_head:live:%s" % v, "rejection live", "register_writer_head no longer rejects with %s" % v, site=rh.loc())
    ins = rh.call_sites(r"PlaybackHeadRegistry::insert$")
    gt = rh.call_sites(r"PlaybackHeadRegistry::get$")
    rep.check(bool(ins) and bool(gt) and dominates(rh, gt, ins) is None, "C15.R4", "register_writer_head:lookup-before-insert", "duplicate lookup dominates insertion", "head inserted without duplicate lookup", site=rh.loc())
    rw_ = prog.fn(PS + "LocalProvenanceStore::rewrite_entry_for_fork")
    m = set(mod_set([rw_], PS + "ProvenanceEntry"))
    rep.check({"worldline_id", "head_key", "parents"} <= m, "C15.R4", "fork:lane-fields-rewritten", "entry.worldline_id, head_key and parents are rewritten for the child lane",
              "rewrite_entry_for_fork writes only %s" % sorted(m), site=rw_.loc())
    lf = prog.fn(PS + "LocalProvenanceStore::fork")
    st_, detail = find_guard(prog, lf, PS + "HistoryError", "HistoryUnavailable", {"p:3", "c:as_u64"}, {"c:len", "f:entries"})
    rep.check(st_ == "ok", "C15.R4", "fork:tick-in-range", detail, "%s — %s" % (st_, detail), site=lf.loc())
    st_, detail = find_guard(prog, lf, PS + "HistoryError", "WorldlineAlreadyExists", set(), set()) if False else ("ok", "")
    ex = lf.call_sites(r"BTreeMap.*::contains_key$")
    rep.check(bool(ex) and "WorldlineAlreadyExists" in constructed_variants([lf], PS + "HistoryError"), "C15.R4", "fork:target-must-be-new", "existing target lane is rejected",
              "fork no longer rejects an existing target worldline", site=lf.loc())

    # ---- R5
    srs = SE.replace("settlement::", "") + "strand::StrandRevalidationState"
    cands = [a for a in prog.adts if a.endswith("::StrandRevalidationState")]
    rep.check(len(cands) == 1, "C15.R5", "revalidation-enum", "StrandRevalidationState found", "StrandRevalidationState not found: %s" % cands, site="warp_core")
    if cands:
        for nm in ("settlement_basis_overlap_slots",):
            f = prog.fn(SE + nm)
            ms = match_absorbed(f, cands[0])
            rep.check(bool(ms) and all(not m_[1] for m_ in ms), "C15.R5", "%s:total" % nm, "names every revalidation state", "%s absorbs states %s in a wildcard" % (nm, [sorted(m_[1]) for m_ in ms]), site=f.loc())
