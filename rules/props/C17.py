"""C17 — external actions move once through request, claim and settlement — durably."""
from ..prims import *
from ..guards import check_strength, check_zip_lengths, check_whole_sequence
from ..guards import find_guard, find_presence_guard, side_tokens
from ..baselines import baseline

EXPLANATION = (
    "Structural necessary conditions of C17: (R1) typestate: the grant types are neither Clone nor Copy, have no public "
    "field, are consumed by value by the next step and are constructed only by the three step functions and the "
    "coordinator's recovery accessors; (R2) durable before grant: in each step the grant is constructed, and the index "
    "mutated, only after the coordinator's append succeeded; inside the append frames precede the commit flush, the "
    "coordinator is marked not-ready before the first byte and ready/cursor-advanced only after the flush succeeded; "
    "(R3) linearity guards: duplicate request/claim/settlement, identity, authorization, basis, attempt budget, lease and "
    "settlement-claim bindings each gate the append; (R4) recovery recomputes the index from the log and rejects "
    "mismatching frontier digests; every rejection stays live; (R5) retry reconciliation and observation take the "
    "coordinator by shared reference and no store. Equality of recovered and uninterrupted index is NOT decided."
    " Round 2: guard strength on the linearity gates; re-issuing a grant after a crash is gated on the next step's record being absent (recorded_request: claim; claim_grant: settlement of any kind)."
)
ASSUMPTIONS = ["WAL store port implementations honour their contract (C10)", "compile-fail witnesses (thorough tier) check the typestate from an external crate"]
FLOOR = 60

EA = "warp_core::external_action::"
PE = EA + "ExternalActionProtocolErrorV1"
CO = EA + "ExternalActionCoordinatorV1"
GRANTS = {
    EA + "DurablyRecordedExternalActionRequestV1": {"record_external_action_request", "recorded_request"},
    EA + "ExternalActionClaimGrantV1": {"claim_external_action", "claim_grant"},
    EA + "AdmittedExternalActionSettlementV1": {"admit_external_action_settlement", "admitted_settlement", "reconcile_external_action_settlement_retry"},
}
STEPS = [
    (EA + "record_external_action_request", EA + "DurablyRecordedExternalActionRequestV1", None),
    (EA + "claim_external_action", EA + "ExternalActionClaimGrantV1", EA + "DurablyRecordedExternalActionRequestV1"),
    (EA + "admit_external_action_settlement", EA + "AdmittedExternalActionSettlementV1", EA + "ExternalActionClaimGrantV1"),
]
GUARDS = [
    (EA + "claim_external_action", "RequestIdentityMismatch", {"f:request", "c:get"}, {"f:request", "p:4"}),
    (EA + "claim_external_action", "UnauthorizedAdapter", {"f:operation_id", "p:5"}, {"f:operation_id", "f:request"}),
    (EA + "claim_external_action", "UnauthorizedAdapter", {"f:authority_scope_digest", "p:5"}, {"f:authority_scope_digest", "f:request"}),
    (EA + "claim_external_action", "AuthorizationBindingMismatch", {"f:request_id", "p:5"}, {"f:request_id", "f:request"}),
    (EA + "claim_external_action", "AuthorizationBindingMismatch", {"f:basis_digest", "p:5"}, {"f:basis_digest", "f:request"}),
    (EA + "claim_external_action", "StaleBasis", {"p:6"}, {"f:basis_digest", "f:request"}),
    (EA + "claim_external_action", "AttemptBudgetExhausted", {"p:7"}, {"f:max_attempts", "f:budget"}),
    (EA + "claim_external_action", "MissingLeaseEvidence", {"p:8"}, set()),
    (EA + "admit_external_action_settlement", "SettlementClaimMismatch", {"f:request", "c:get"}, {"f:request", "p:4"}),
    (EA + "admit_external_action_settlement", "SettlementClaimMismatch", {"f:claim", "c:get"}, {"f:claim", "p:4"}),
    (EA + "admit_external_action_settlement", "SettlementClaimMismatch", {"f:claim_commit_digest", "c:get"}, {"f:claim_commit_digest", "p:4"}),
    (EA + "validate_settlement_candidate", "SettlementClaimMismatch", {"f:request_id", "p:3"}, {"f:request_id", "p:1"}),
    (EA + "validate_settlement_candidate", "SettlementClaimMismatch", {"f:attempt_id", "p:3"}, {"f:attempt_id", "p:2"}),
    (EA + "validate_settlement_candidate", "SettlementClaimMismatch", {"f:adapter_id", "p:3"}, {"f:adapter_id", "p:2"}),
    (EA + "validate_settlement_candidate", "SettlementClaimMismatch", {"f:basis_digest", "p:3"}, {"f:basis_digest", "p:1"}),
    (EA + "validate_settlement_candidate", "SettlementSchemaMismatch", {"f:settlement_schema_digest", "p:3"}, {"f:settlement_schema_digest", "p:1"}),
    (EA + "validate_settlement_candidate", "SettlementBudgetExceeded", {"f:canonical_result_bytes", "c:len"}, {"f:max_settlement_bytes", "f:budget"}),
    (EA + "validate_settlement_candidate", "SettlementResultDigestMismatch", {"f:canonical_result_bytes", "c:hash"}, {"f:declared_result_digest"}),
    (EA + "ExternalActionRequestV1::validate_identity", "RequestIdentityMismatch", {"f:request_id"}, {"c:expected_request_id_digest"}),
    (EA + "reconcile_external_action_settlement_retry", "ConflictingSettlement", {"f:settlement", "c:get"}, {"c:from_candidate"}),
]
PRESENCE = [
    (EA + "record_external_action_request", "DuplicateRequest", {"c:get", "f:index"}),
    (EA + "claim_external_action", "DuplicateClaim", {"f:claim"}),
    (EA + "admit_external_action_settlement", "DuplicateSettlement", {"f:settlement"}),
    # re-issuing a grant after a crash is gated on the NEXT step's record being absent (the grant moves once): a work grant is
    # never re-issued for a request that already has a durable settlement of ANY kind, a request grant never after a claim
    (CO + "::recorded_request", "DuplicateClaim", {"f:claim"}),
    (CO + "::claim_grant", "DuplicateSettlement", {"f:settlement"}),
]


def run(ctx):
    rep = ctx.report
    prog = ctx.prog("trusted")
    rep.rule("C17.R1", "A7/A8 typestate: grants not Clone/Copy, private fields, by-value consumption, constructor monopoly")
    rep.rule("C17.R2", "A1 durable before grant / index mutation; append ordering and ready/cursor discipline")
    rep.rule("C17.R3", "A2 linearity guards gate the append")
    rep.rule("C17.R4", "A2/A11 recovery recomputes and rejects; rejections live")
    rep.rule("C17.R5", "A8/A9 retry and observation are read-only and store-free")

    # ---- R1
    for g, allowed in GRANTS.items():
        adt = prog.adt(g)
        short = g.rsplit("::", 1)[-1]
        derives = {i["trait"].rsplit("::", 1)[-1] for i in prog.impls if i.get("adt") == g and i.get("trait")}
        if short != "AdmittedExternalActionSettlementV1":
            rep.check(not ({"Clone", "Copy"} & derives), "C17.R1", "%s:not-clone" % short, "traits implemented: %s" % sorted(derives),
                      "%s implements %s: a grant could be duplicated" % (short, sorted({"Clone", "Copy"} & derives)), site=g)
        for f in adt["variants"][0]["fields"]:
            rep.check(f["vis"] != "pub", "C17.R1", "%s.%s:private" % (short, f["n"]), "field visibility %s" % f["vis"],
                      "%s.%s is public: the grant can be forged" % (short, f["n"]), site=g)
        makers = set()
        for f in prog.fns.values():
            if not f.crate.startswith(("warp_core", "warp_wasm", "echo_")):
                continue
            if f.rec.get("impl_trait"):
                continue  # derived Clone/PartialEq bodies of the one clonable result type
            if agg_blocks(f, g):
                makers.add(f.name if not f.is_closure() else prog.fns[f.rec["root"]].name)
        rep.check(makers <= allowed and makers, "C17.R1", "%s:constructor-monopoly" % short, "constructed only in %s" % sorted(makers),
                  "%s is constructed in %s (allowed: %s)" % (short, sorted(makers - allowed), sorted(allowed)), site=g)
    cap = prog.adt("warp_core::causal_wal::ExternalActionCoordinatorCapability")
    rep.check(all(f["vis"] != "pub" for f in cap["variants"][0]["fields"]), "C17.R1", "coordinator-capability:private", "capability token has a private field",
              "ExternalActionCoordinatorCapability can be constructed outside the crate", site="warp_core::causal_wal::ExternalActionCoordinatorCapability")
    for path, out, inp in STEPS:
        f = prog.fn(path)
        if inp:
            ptys = fn_param_tys(f)
            rep.check(inp in ptys, "C17.R1", "%s:consumes-grant-by-value" % f.name, "takes %s by value" % inp.rsplit("::", 1)[-1],
                      "%s no longer consumes %s by value (params: %s)" % (f.name, inp, [p_ for p_ in ptys if "Grant" in p_ or "Recorded" in p_]), site=f.loc())

    # ---- R2
    for path, out, inp in STEPS:
        f = prog.fn(path)
        ap = f.call_sites(r"ExternalActionCoordinatorV1::append_transaction$")
        mut = f.call_sites(r"RecoveredExternalActionIndexV1::apply_mutation$")
        grants = agg_blocks(f, out)
        rep.check(len(ap) == 1 and len(mut) == 1 and len(grants) >= 1, "C17.R2", "%s:anchors" % f.name, "append, index mutation and grant construction present",
                  "append=%d apply_mutation=%d grant=%d" % (len(ap), len(mut), len(grants)), site=f.loc())
        if ap:
            re_ = result_edges(f, ap[0])
            rep.check(bool(re_["ok"]), "C17.R2", "%s:append-propagated" % f.name, "`?` on the durable append", "append result is not branched on", site=f.loc())
            w = reachable_without_edges(f, grants, re_["ok"])
            rep.check(w is None, "C17.R2", "%s:grant-only-after-durable-append" % f.name, "the grant is constructed only after the append succeeded",
                      "grant constructed without a successful durable append: %s" % f.describe_path(w), site=f.loc())
            w = reachable_without_edges(f, mut, re_["ok"])
            rep.check(w is None, "C17.R2", "%s:index-mutated-only-after-append" % f.name, "index.apply_mutation only after the append succeeded",
                      "index mutated without a successful durable append: %s" % f.describe_path(w), site=f.loc())
            er = f.call_sites(r"ExternalActionCoordinatorV1::ensure_ready$")
            rep.check(bool(er) and dominates(f, er, ap) is None, "C17.R2", "%s:ready-checked-first" % f.name, "ensure_ready dominates the append", "append without ensure_ready", site=f.loc())
    cap_ = prog.fn(CO + "::append_transaction")
    fr = cap_.call_sites(r"::append_frame$")
    fl = cap_.call_sites(r"::flush_external_action_commit$")
    rep.check(len(fr) == 1 and len(fl) == 1, "C17.R2", "coordinator-append:anchors", "frames then flush", "append_frame=%d flush=%d" % (len(fr), len(fl)), site=cap_.loc())
    if fr and fl:
        after = cap_.reachable([cap_.blocks[fl[0]]["t"]["tgt"]])
        rep.check(fr[0] not in after, "C17.R2", "coordinator-append:no-frame-after-commit", "no frame after the commit marker", "a frame can follow the commit marker", site=cap_.loc())
        re_ = result_edges(cap_, fl[0])
        fields = self_field_assign_blocks(cap_, CO)
        ready_false = [bi for bi, si, place, rv, line in cap_.assigns() if place[1] and place[1][-1][-1] == "ready" and "k" in rv.get("o", {}) and "false" in rv["o"]["k"]]
        ready_true = [bi for bi, si, place, rv, line in cap_.assigns() if place[1] and place[1][-1][-1] == "ready" and "k" in rv.get("o", {}) and "true" in rv["o"]["k"]]
        rep.check(len(ready_false) == 1 and dominates(cap_, ready_false, fr) is None, "C17.R2", "coordinator-append:not-ready-before-first-byte",
                  "ready = false dominates the first frame append", "coordinator is not marked not-ready before appending", site=cap_.loc())
        for fld in ("next_lsn", "previous_frame_digest", "previous_commit_digest"):
            blocks = fields.get(fld, [])
            w = reachable_without_edges(cap_, blocks, re_["ok"])
            rep.check(bool(blocks) and w is None, "C17.R2", "coordinator-append:%s-after-flush" % fld, "cursor field advanced only after the flush succeeded",
                      "%s advanced without a successful flush" % fld, site=cap_.loc())
        w = reachable_without_edges(cap_, ready_true, re_["ok"])
        rep.check(bool(ready_true) and w is None, "C17.R2", "coordinator-append:ready-only-after-flush", "ready = true only after the flush succeeded",
                  "coordinator marked ready without a successful flush", site=cap_.loc())
        val = cap_.call_sites(r"WalCommittedTransaction::validate$")
        rep.check(bool(val) and dominates(cap_, val, fr) is None, "C17.R2", "coordinator-append:validated-first", "transaction validated before any append", "append without validation", site=cap_.loc())

    # ---- R3
    _zip_done = set()
    _seq_done = set()
    BYTE_READERS = ("read_segment_bytes",)
    for (path, variant, ta, tb) in GUARDS:
        f = prog.fn(path)
        if not tb:
            st, detail = find_guard(prog, f, PE, variant, ta, set())
        else:
            st, detail = find_guard(prog, f, PE, variant, ta, tb)
        rep.check(st == "ok", "C17.R3", "guard:%s:%s:%s~%s" % (f.name, variant, "+".join(sorted(ta)), "+".join(sorted(tb))), detail, "%s — %s" % (st, detail), site=f.loc())
        if st == "ok":
            check_strength(rep, "C17.R3", "guard:%s:%s:%s~%s" % (f.name, variant, "+".join(sorted(ta)), "+".join(sorted(tb))), "C17", prog, f, PE, variant, ta, tb)
        check_zip_lengths(rep, "C17.R3", prog, f, _zip_done)
        if f.name not in BYTE_READERS:   # byte-level readers slice by decoded offsets; their bounds are C13's clause
            check_whole_sequence(rep, "C17.R3", prog, f, _seq_done)
    for (path, variant, need) in PRESENCE:
        f = prog.fn(path)
        st, detail = find_presence_guard(prog, f, PE, variant, need)
        rep.check(st == "ok", "C17.R3", "guard:%s:%s:present(%s)" % (f.name, variant, "+".join(sorted(need))), detail, "%s — %s" % (st, detail), site=f.loc())
    # every guard precedes the append
    for path, out, inp in STEPS:
        f = prog.fn(path)
        ap = f.call_sites(r"ExternalActionCoordinatorV1::append_transaction$")
        errs_sites = agg_blocks(f, PE)
        late = [b for b in errs_sites if ap and b in f.reachable([f.blocks[ap[0]]["t"]["tgt"]])]
        rep.check(not late, "C17.R3", "%s:all-rejections-before-append" % f.name, "%d rejection sites, all before the durable append" % len(errs_sites),
                  "a protocol rejection is raised after the durable append (state already recorded)", site=f.loc())
    adm = prog.fn(EA + "admit_external_action_settlement")
    vs = adm.call_sites(r"external_action::validate_settlement_candidate$")
    ap = adm.call_sites(r"ExternalActionCoordinatorV1::append_transaction$")
    rep.check(bool(vs) and bool(ap) and dominates(adm, vs, ap) is None, "C17.R3", "settlement:bounds-validated-before-append", "candidate validated before the append",
              "settlement appended without validate_settlement_candidate", site=adm.loc())
    for b in vs:
        okk, why = result_inspected(adm, b)
        rep.check(okk, "C17.R3", "settlement:validation-propagated", why, "validation result dropped", site=adm.loc())

    # ---- R4
    rec = prog.fn(CO + "::recover")
    trr, _ = tree(prog, [rec])
    live = constructed_variants(trr, PE)
    base = baseline("C17.recover.ProtocolError", sorted(live))
    for v in base:
        rep.check(v in live, "C17.R4", "live:recover:%s" % v, "still constructed", "recovery no longer rejects with %s" % v, site=rec.loc())
    obs = prog.fn(EA + "observe_external_actions")
    st, detail = find_guard(prog, obs, PE, "IndexFrontierMismatch", {"c:root_digest"}, {"f:before_digest"}) if "IndexFrontierMismatch" in live else ("skip", "")
    if st != "skip":
        rep.check(st == "ok", "C17.R4", "recover:frontier-before-compared", detail, "%s — %s" % (st, detail), site=obs.loc())
    tail = find_guard(prog, rec, PE, "WalTailNotClean", {"f:tail_posture"}, set())
    if tail[0] == "ok":
        check_strength(rep, "C17.R4", "guard:recover:WalTailNotClean:f:tail_posture", "C17", prog, rec, PE, "WalTailNotClean", {"f:tail_posture"}, set())
    rep.check(tail[0] == "ok", "C17.R4", "recover:clean-tail-required", tail[1], "%s — %s" % tail, site=rec.loc())
    rs = rec.call_sites(r"recover_from_frames_and_commits$")
    rep.check(len(rs) == 1 and result_inspected(rec, rs[0])[0], "C17.R4", "recover:wal-validation-propagated", "WAL validation result propagated", "WAL recovery result dropped", site=rec.loc())
    leaf = prog.fn_opt(EA + "external_action_index_leaf")
    if leaf is not None:
        names, allf, ns = writer_coverage(prog, leaf, EA + "RecoveredExternalActionV1")
        exempt = {"request_commit_digest": "commit digests bind the frontier root, so the root cannot bind them (circular)",
                  "claim_commit_digest": "see request_commit_digest", "settlement_commit_digest": "see request_commit_digest",
                  "posture": "function of claim/settlement presence, both covered"}
        for fld in allf:
            if fld in exempt:
                continue
            rep.check(fld in names, "C17.R4", "index-leaf-covers:%s" % fld, "covered", "index leaf digest does not cover RecoveredExternalActionV1.%s" % fld, site=leaf.loc())

    # ---- R5
    for nm in ("reconcile_external_action_settlement_retry",):
        f = prog.fn(EA + nm)
        ptys = fn_param_tys(f)
        rep.check(ptys[0].startswith("&warp_core") and not any("WalStorePort" in t or "impl " in t for t in ptys) and len(ptys) == 2, "C17.R5", "%s:read-only-signature" % nm,
                  "takes (&coordinator, candidate) only", "retry reconciliation signature: %s" % ptys, site=f.loc())
        ids, ext = prog.reach([f])
        bad = [i for i in ids if re.search(r"append_transaction$|append_frame$|flush_\w*commit$|apply_mutation$", i)] + [e for e in ext if re.search(r"append_frame$|flush_\w*commit", e)]
        rep.check(not bad, "C17.R5", "%s:no-append" % nm, "reaches no append / index mutation", "retry path reaches %s" % bad[:2], site=f.loc())
    ptys = fn_param_tys(obs)
    rep.check(len(ptys) == 1 and ptys[0].startswith("&"), "C17.R5", "observe_external_actions:read-only-signature", ptys[0], "observe_external_actions takes %s" % ptys, site=obs.loc())
    for acc in ("recorded_request", "claim_grant", "admitted_settlement", "observed_index"):
        f = prog.fn(CO + "::" + acc)
        rep.check(fn_param_tys(f)[0].startswith("&warp_core"), "C17.R5", "accessor:%s:&self" % acc, "recovery accessor takes &self", "%s takes %s" % (acc, fn_param_tys(f)[0]), site=f.loc())
