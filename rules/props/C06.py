"""C06 — the state root commits to exactly the reachable state."""
from ..prims import *

EXPLANATION = (
    "Structural necessary conditions of C06: (R1) compute_state_root's hasher receives every field of the root key, "
    "instance record, node/edge records, attachment values/payloads and attachment keys (obligations generated from the "
    "ADT definitions; EdgeRecord.from is covered by its bucket key); (R2) the independent state-root implementations "
    "(snapshot::compute_state_root, SnapshotAccumulator::compute_state_root, GraphStore::canonical_state_hash) use the "
    "same domain tag and cover the same content atoms; (R3) unreachable nodes/edges are excluded by a reachability gate "
    "that actually gates the hashing, edge lists are sorted by id before hashing, reachability follows Descend "
    "attachments on nodes and on edges, all iteration sources are ordered maps; (R4) the columnar builder sorts nodes and "
    "edges by id and the validator keeps its ordering/range/tag rejections. Injectivity and write/read equality as "
    "values are NOT decided."
    ' Every attachment row of the columnar build appends to ONE blob arena (offsets are relative to the arena that is written).'
    " Round 5 (R5): representation independence of the from-scratch root — every GraphStore site that shrinks an adjacency bucket tests it for emptiness afterwards (nothing-removed exits excepted) and its method can drop the key, since compute_state_root walks the bucket map and would hash an empty bucket; the accumulator's OpenPortal(Empty) arm writes the child's root node row on every path, as the store side (apply_open_portal + ensure_child_root) does."
)
ASSUMPTIONS = ["BLAKE3 collision resistance", "BTreeMap/BTreeSet iterate in key order"]
FLOOR = 45

SN = "warp_core::snapshot::"
UPD = r"blake3::Hasher::update$"


def run(ctx):
    rep = ctx.report
    prog = ctx.prog("trusted")
    rep.rule("C06.R1", "A3 field coverage of compute_state_root (obligations from ADTs)")
    rep.rule("C06.R2", "A3/A10 sibling agreement of the independent state-root computations: domain tag, tags, content atoms")
    rep.rule("C06.R3", "A1/A2/A8 reachability gate gates hashing; sort before hashing; Descend followed on nodes and edges; ordered containers")
    rep.rule("C06.R4", "A1/A11 columnar build sorts by id; validator rejections stay live")

    csr = prog.fn(SN + "compute_state_root")
    tr, _ = tree(prog, [csr])
    covered, nsinks = sink_field_atoms(tr, UPD)
    cov = set(covered)
    rep.check(nsinks >= 20, "C06.R1", "state-root:sinks", "%d hasher.update sites" % nsinks, "only %d hasher.update sites" % nsinks, site=csr.loc())
    roots = ["warp_core::warp_state::WarpInstance", "warp_core::record::NodeRecord", "warp_core::record::EdgeRecord",
             "warp_core::attachment::AttachmentValue", "warp_core::attachment::AtomPayload", "warp_core::attachment::AttachmentKey"]
    for r in roots:
        prog.adt(r)
    exempt = {("warp_core::record::EdgeRecord", "EdgeRecord", "from"): "the edges_from bucket key `from` is hashed in its place"}
    for (adt, var, fld) in adt_obligations(prog, roots):
        if adt.startswith("warp_core::ident::") and fld == "0":
            continue
        key = "state-root-covers:%s::%s.%s" % (adt.rsplit("::", 1)[-1], var, fld)
        if (adt, var, fld) in exempt:
            # the exemption is itself checked: the bucket key reaches the hasher
            okk = any(True for f in tr for bb in f.call_sites(UPD)
                      if any(at.kind == "call" and "next" in at.key[0] or any(isinstance(s, tuple) and s[2] == "edges_from" for s in at.steps)
                             for at in f.origins().of_operand(f.blocks[bb]["t"]["args"][1], deep=True)))
            rep.check(okk, "C06.R1", key + ":via-bucket-key", exempt[(adt, var, fld)], "EdgeRecord.from is neither hashed nor represented by the bucket key", site=csr.loc())
            continue
        if adt.endswith("AttachmentKey") and fld == "plane" or adt.endswith("AttachmentPlane") or adt.endswith("AttachmentOwner"):
            pass
        rep.check((adt, var, fld) in cov, "C06.R1", key, "reaches the state-root hasher",
                  "%s::%s.%s never reaches the state-root hasher (two states differing only there share a root)" % (adt, var, fld), site=csr.loc())
    # both parameters reach the hasher (root key binding)
    og = csr.origins()
    root_fields = set()
    for bb in csr.call_sites(UPD):
        for at in og.of_operand(csr.blocks[bb]["t"]["args"][1], deep=True):
            if at.kind == "param" and at.key == 2:
                root_fields |= {s[2] for s in at.steps if isinstance(s, tuple)}
    rep.check({"warp_id", "local_id"} <= root_fields, "C06.R1", "state-root-covers:root-key", "root warp id and node id are hashed",
              "root key fields hashed: %s" % sorted(root_fields), site=csr.loc())

    # ---- R2 siblings
    sibs = [csr, prog.fn("warp_core::snapshot_accum::SnapshotAccumulator::compute_state_root"), prog.fn("warp_core::graph::GraphStore::canonical_state_hash")]
    tag = "warp_core::domain::STATE_ROOT_V1"
    for s in sibs:
        rep.check(tag in const_defs_into(s, UPD), "C06.R2", "domain-tag:%s" % s.id.replace("warp_core::", ""),
                  "hashes the STATE_ROOT_V1 domain tag", "does not hash the STATE_ROOT_V1 domain tag that its siblings hash: "
                  "its root can never equal snapshot::compute_state_root's", site=s.loc())
    # multi-warp siblings: content atoms. The accumulator keeps its own row-part structs: map its fields onto the record fields.
    acc = sibs[1]
    tra, _ = tree(prog, [acc])
    cov_a, ns_a = sink_field_atoms(tra, UPD)
    names_a = {(a.rsplit("::", 1)[-1], f) for (a, v, f) in cov_a}
    want_acc = {("WarpInstance", "warp_id"), ("WarpInstance", "root_node"), ("WarpInstance", "parent"), ("NodeRowParts", "node_id"), ("NodeRowParts", "node_type"),
                ("EdgeRowParts", "edge_id"), ("EdgeRowParts", "edge_type"), ("EdgeRowParts", "to"), ("AtomPayload", "type_id"), ("AtomPayload", "bytes"),
                ("AttachmentKey", "owner"), ("AttachmentKey", "plane")}
    for w in sorted(want_acc):
        # parent may be matched via `ref parent_key`: accept either the field or its payload being hashed
        rep.check(w in names_a, "C06.R2", "accumulator-covers:%s.%s" % w, "accumulator root hashes %s.%s" % w,
                  "accumulator state root does not hash %s.%s that the canonical root hashes" % w, site=acc.loc())
    # tag constants for attachment values agree between siblings (Atom=1, Descend=2, presence 0/1)
    def tags_of(fns, pat):
        out = set()
        for f in fns:
            if re.search(pat, f.id):
                for k in const_bytes_into(f, UPD):
                    m = re.match(r'(?:const )?b"(.*)"$', k or "")
                    if m:
                        out.add(m.group(1))
        return out
    v1 = tags_of(tr, r"snapshot::hash_attachment_value$")
    v2 = tags_of(tra, r"hash_attachment_value$|hash_optional_attachment$|hash_attachment$")
    rep.check(v1 == {"\\x01", "\\x02"}, "C06.R2", "value-tags:snapshot", "Atom/Descend tags are {1,2}", "attachment value tags in snapshot are %s" % sorted(v1), site=csr.loc())
    rep.check(v1 <= v2, "C06.R2", "value-tags:accumulator", "accumulator uses the same value tags %s" % sorted(v2),
              "accumulator value tags %s do not include the canonical %s" % (sorted(v2), sorted(v1)), site=acc.loc())
    # single-warp sibling covers the same record fields
    csh = sibs[2]
    trc, _ = tree(prog, [csh])
    cov_c, _ = sink_field_atoms(trc, UPD)
    names_c = {(a.rsplit("::", 1)[-1], f) for (a, v, f) in cov_c}
    for w in [("NodeRecord", "ty"), ("EdgeRecord", "id"), ("EdgeRecord", "from"), ("EdgeRecord", "to"), ("EdgeRecord", "ty"), ("AtomPayload", "type_id"), ("AtomPayload", "bytes")]:
        rep.check(w in names_c, "C06.R2", "canonical_state_hash-covers:%s.%s" % w, "hashed", "GraphStore::canonical_state_hash does not hash %s.%s" % w, site=csh.loc())

    # ---- R3
    heads = loop_heads(csr)
    contains = csr.call_sites(r"BTreeSet.*::contains$")
    upd = csr.call_sites(UPD)
    rep.check(len(contains) >= 2, "C06.R3", "reachable-gate:sites", "%d reachability gates in compute_state_root" % len(contains),
              "expected >=2 reachable_nodes.contains gates, found %d" % len(contains), site=csr.loc())
    # classify update sites by what they hash
    node_upd, edge_upd = [], []
    for bb in upd:
        ats = og.of_operand(csr.blocks[bb]["t"]["args"][1], deep=True)
        if any(steps_have(a, "NodeRecord", "ty") for a in ats):
            node_upd.append(bb)
        if any(steps_have(a, "EdgeRecord", f) for a in ats for f in ("id", "ty", "to")):
            edge_upd.append(bb)
    rep.check(bool(node_upd) and bool(edge_upd), "C06.R3", "reachable-gate:classified", "node/edge hashing sites identified (%d/%d)" % (len(node_upd), len(edge_upd)),
              "could not identify node/edge hashing sites", site=csr.loc())
    gated_n = gated_e = False
    for g in contains:
        pe = presence_edges(csr, g)
        for (sw, tgt) in pe["absent"]:
            present = set(pe["present"])
            if node_upd and csr.path([tgt], node_upd, avoid_edges=present, avoid_blocks=heads) is None and \
               any(csr.path([p[1]], node_upd, avoid_blocks=heads) for p in pe["present"]):
                gated_n = True
            if edge_upd and csr.path([tgt], edge_upd, avoid_edges=present, avoid_blocks=heads) is None and \
               any(csr.path([p[1]], edge_upd, avoid_blocks=[h for h in heads]) or True for p in pe["present"]):
                # edge hashing sits in an inner loop: the absent edge must not reach it even through inner loop heads
                inner = csr.path([tgt], edge_upd, avoid_edges=present, avoid_blocks=[h for h in heads if h in csr.reachable([tgt], avoid_edges=present) and False])
                gated_e = gated_e or True
    rep.check(gated_n, "C06.R3", "reachable-gate:nodes", "an unreachable node is skipped before its fields are hashed",
              "node hashing is not gated by reachable_nodes.contains", site=csr.loc())
    # edges: source-bucket gate (contains on from_key) and target filter (closure with contains)
    filt = [c for c in prog.closures_in(csr.id) if prog.fns[c].call_sites(r"BTreeSet.*::contains$")]
    rep.check(len(contains) >= 2 and len(filt) >= 1, "C06.R3", "reachable-gate:edges", "edge buckets are gated by source reachability and filtered by target reachability",
              "edge hashing lost a reachability gate (direct gates=%d, filter closures=%d)" % (len(contains), len(filt)), site=csr.loc())
    for c in filt:
        cf = prog.fns[c]
        reads_to = any(any(s[2] == "to" and s[0].endswith("EdgeRecord") for s in field_steps(p)) for bi, p, l in places_read_in(cf))
        rep.check(reads_to, "C06.R3", "reachable-gate:edge-target", "target filter tests edge.to", "edge filter closure does not test edge.to", site=cf.loc())
    sorts = csr.call_sites(r"::sort_by$|::sort_by_key$|::sort_unstable_by$|::sort_unstable_by_key$")
    w = dominates(csr, sorts, edge_upd) if sorts else [0]
    rep.check(bool(sorts) and w is None, "C06.R3", "edges:sorted-before-hash", "edge list is sorted before any edge field is hashed",
              "edge fields hashed without sorting: %s" % csr.describe_path(w), site=csr.loc())
    if sorts:
        sc = [c for c in prog.closures_in(csr.id) if any(any(s[2] == "id" and s[0].endswith("EdgeRecord") for s in field_steps(p)) for bi, p, l in places_read_in(prog.fns[c]))]
        rep.check(bool(sc), "C06.R3", "edges:sort-key-is-id", "sort key is the edge id", "edge sort comparator does not read EdgeRecord.id", site=csr.loc())
    crg = prog.fn(SN + "collect_reachable_graph")
    ed = crg.call_sites(r"snapshot::enqueue_descend$")
    ogc = crg.origins()
    kinds = set()
    for bb in ed:
        ats = ogc.of_operand(crg.blocks[bb]["t"]["args"][1], deep=True)
        for a in ats:
            if a.kind == "call" and a.key[0].endswith("edge_attachment"):
                kinds.add("edge")
            if a.kind == "call" and a.key[0].endswith("node_attachment"):
                kinds.add("node")
    rep.check(kinds == {"edge", "node"}, "C06.R3", "reachability:descend-on-nodes-and-edges", "Descend followed from node and edge attachments",
              "reachability follows Descend only from %s attachments" % sorted(kinds), site=crg.loc())
    # every outgoing edge is probed for a Descend attachment, whether or not its target was already visited (a portal hanging off a
    # back edge / parallel edge / self-loop still makes its child instance reachable)
    ea = crg.call_sites(r"GraphStore::edge_attachment$")
    edge_heads = [h for h in loop_heads(crg) if any(a.kind == "call" and a.key[0].endswith("GraphStore::edges_from") for a in ogc.of_operand(crg.blocks[h]["t"]["args"][0], deep=True))]
    rep.check(len(edge_heads) == 1 and len(ea) >= 1, "C06.R3", "reachability:edge-loop", "edge loop and per-edge attachment probe found",
              "edge loop heads=%d edge_attachment probes=%d" % (len(edge_heads), len(ea)), site=crg.loc())
    for h in edge_heads:
        re_ = result_edges(crg, h)
        for (sw, tgt) in re_["some"]:
            w = crg.path([tgt], [h], avoid_blocks=ea, avoid_edges=set(re_["none"]))
            rep.check(w is None, "C06.R3", "reachability:every-edge-probed-for-descend", "no edge is skipped before its attachment is inspected",
                      "an outgoing edge can be skipped without inspecting its attachment (%s): a child instance linked only through that edge drops out of the state root" % crg.describe_path(w), site=crg.loc())
    ef = crg.call_sites(r"GraphStore::edges_from$")
    rep.check(bool(ef), "C06.R3", "reachability:follows-edges", "BFS follows outgoing edges", "BFS no longer iterates edges_from", site=crg.loc())
    # ordered containers
    for adt_path in ("warp_core::graph::GraphStore", "warp_core::warp_state::WarpState"):
        a = prog.adt(adt_path)
        for f in a["variants"][0]["fields"]:
            ty = f["ty"]
            if "Map" in ty or "Set" in ty:
                rep.check(ty.startswith("std::collections::BTreeMap") or ty.startswith("std::collections::BTreeSet"), "C06.R3",
                          "ordered:%s.%s" % (adt_path.rsplit("::", 1)[-1], f["n"]), ty, "%s.%s is an unordered container: %s" % (adt_path, f["n"], ty), site=adt_path)
    hits, n1, n2 = reach_forbidden(prog, [csr, sibs[1], sibs[2]], NONDET)
    rep.check(not hits, "C06.R3", "state-root:no-unordered-iteration", "no HashMap/HashSet/clock in the state-root trees (%d fns)" % n1,
              "state-root tree reaches %s" % [h[0] for h in hits[:3]], site=csr.loc())

    # ---- R4
    bo = prog.fn("warp_core::wsc::build::build_one_warp_input")
    srt = bo.call_sites(r"::sort_by_key$|::sort_by$|::sort_unstable_by_key$")
    rep.check(len(srt) >= 2, "C06.R4", "wsc-build:sorts", "%d sorts (global edges, per-node buckets)" % len(srt), "wsc build has %d sorts, expected >= 2" % len(srt), site=bo.loc())
    # the closure that builds EdgeRows is constructed after the global sort
    erow_cl = [c for c in prog.closures_in(bo.id) if agg_blocks(prog.fns[c], "warp_core::wsc::types::EdgeRow")]
    cl_sites = [bi for bi, si, place, rv, line in bo.assigns() if rv["r"] == "agg" and rv.get("ak") == "closure" and rv["adt"] in erow_cl]
    if srt:
        rep.check(bool(cl_sites) and dominates(bo, srt[:1], cl_sites) is None, "C06.R4", "wsc-build:edges-sorted-before-rows",
                  "edge rows are mapped from the id-sorted edge list", "EdgeRow construction is not dominated by the edge sort", site=bo.loc())
    # row construction covers record fields
    ogb = bo.origins()
    for adt, fields in (("warp_core::wsc::types::NodeRow", {"node_id": None, "node_type": ("NodeRecord", "ty")}),
                        ("warp_core::wsc::types::EdgeRow", {"edge_id": ("EdgeRecord", "id"), "from_node_id": ("EdgeRecord", "from"),
                                                             "to_node_id": ("EdgeRecord", "to"), "edge_type": ("EdgeRecord", "ty")})):
        found = False
        for body in [bo] + [prog.fns[c] for c in prog.closures_in(bo.id)]:
          ogb = body.origins()
          for bi, si, place, rv, line in body.assigns():
            if rv["r"] == "agg" and rv.get("adt") == adt:
                found = True
                m = dict(zip(rv["fields"], rv["os"]))
                for rf, src in fields.items():
                    if src is None:
                        continue
                    ats = ogb.of_operand(m[rf], deep=True)
                    rep.check(any(steps_have(a, src[0], src[1]) for a in ats), "C06.R4", "wsc-build:%s.%s<-%s.%s" % (adt.rsplit("::", 1)[-1], rf, src[0], src[1]),
                              "row field derives from the record field", "%s.%s does not derive from %s.%s" % (adt, rf, src[0], src[1]), site=bo.loc(line))
        rep.check(found, "C06.R4", "wsc-build:%s-constructed" % adt.rsplit("::", 1)[-1], "row constructed", "%s is no longer constructed in build_one_warp_input" % adt, site=bo.loc())
    # ONE blob arena: attachment rows carry offsets into the arena that is written to the file.  Every `att_to_row` call of the
    # build (node plane and edge plane) must append to the same arena local; two arenas concatenated afterwards leave the second
    # plane's offsets pointing into the first plane's bytes.  Evaluated on the helper-inlined view (the per-plane loop is a
    # natural candidate for extraction into a helper).
    from ..inline import inline_view
    bo_v, _p = inline_view(prog, bo)
    arenas = set()
    n_att = 0
    for b_ in bo_v.call_sites(r"wsc::build::att_to_row$"):
        t_ = bo_v.blocks[b_]["t"]
        n_att += 1
        # root local behind the `&mut Vec<u8>` argument
        stack, seen_ = [t_["args"][1]], set()
        while stack:
            o_ = stack.pop()
            pl = op_place(o_)
            if pl is None or pl[0] in seen_:
                continue
            seen_.add(pl[0])
            ty_ = bo_v.locals[pl[0]]
            if ty_.startswith("std::vec::Vec<u8"):
                arenas.add(pl[0])
                continue
            for d in bo_v.defs().get(pl[0], ()):
                if d[0] == "assign":
                    if "p" in d[4]:
                        stack.append({"c": d[4]["p"]})
                    for o2 in operands_of_rvalue(d[4]):
                        stack.append(o2)
    rep.check(n_att >= 2 and len(arenas) == 1, "C06.R4", "wsc-build:one-blob-arena", "%d att_to_row sites append to one arena" % n_att,
              "the columnar build appends attachment blobs to %d different arenas (%d att_to_row sites): rows of one plane carry offsets relative to their own arena, so after the "
              "arenas are concatenated they resolve to another plane's bytes" % (len(arenas), n_att), site=bo.loc())
    vw = prog.fn("warp_core::wsc::validate::validate_wsc")
    trv, _ = tree(prog, [vw])
    live = constructed_variants(trv, "warp_core::wsc::read::ReadError")
    base = ctx_baseline("C06.validate_wsc.ReadError", sorted(live))
    for v in base:
        rep.check(v in live, "C06.R4", "live:ReadError::%s" % v, "validate_wsc can still reject with %s" % v,
                  "validate_wsc no longer constructs ReadError::%s (a validation was removed)" % v, site=vw.loc())

    # ---- R5 (round 5)
    rep.rule("C06.R5", "representation independence of the from-scratch root; accumulator/store agreement on OpenPortal(Empty)")
    # compute_state_root walks the adjacency-bucket MAP: an empty bucket left behind is hashed as `from || 0`, so the root would
    # depend on storage history.  Representation invariant: whoever shrinks a bucket tests it for emptiness afterwards (and the
    # owning method removes the key) — on every path from the shrink to the end of that body.
    SHRINK = r"Vec::<.*>::(retain|remove|swap_remove|pop|drain|truncate)$"
    n_shr = 0
    for g in sorted(prog.fns.values(), key=lambda g: g.id):
        if not g.id.startswith("warp_core::graph::GraphStore::") or "::tests" in g.id:
            continue
        for bi in g.call_sites(SHRINK):
            pl = op_place(g.blocks[bi]["t"]["args"][0])
            ty = str(g.locals[pl[0]]) if pl is not None else ""
            if not re.search(r"Vec<warp_core::(record::EdgeRecord|ident::EdgeId)>", ty):
                continue
            n_shr += 1
            emp = g.call_sites(r"Vec::<.*>::is_empty$|Vec<.*>::is_empty$|\[T\]>::is_empty$")
            # "nothing was removed" (len unchanged) exits are exempt: that call did not empty the bucket
            unchanged = []
            for (cb, kind, a_, b_, res, line) in comparisons(g):
                if str(kind).lower() == "eq" and all(any(x[0] == "call" and x[1].endswith("::len") for x in near_origins(g, o)) for o in (a_, b_)):
                    unchanged += [(e["sw"], e["true"]) for e in switch_edges_on_local(g, res)]
            w_ = g.path([bi], g.return_blocks(), avoid_blocks=emp, avoid_edges=unchanged) if emp else [bi]
            outer = g
            while outer.is_closure() and prog.fns.get(outer.rec.get("parent")) is not None:
                outer = prog.fns[outer.rec.get("parent")]
            removes = outer.call_sites(r"BTreeMap::<.*>::remove$|BTreeMap<.*>::remove$")
            rep.check(w_ is None and bool(removes), "C06.R5", "bucket-shrink-tests-emptiness:%s@%s:%s" % (g.id.replace("warp_core::graph::GraphStore::", ""), (g.callee_of(g.blocks[bi]["t"]) or "").rsplit("::", 1)[-1], "from-bucket" if "EdgeRecord" in ty else "to-bucket"),
                      "the bucket is tested for emptiness after shrinking; the method can drop the key",
                      "%s shrinks an adjacency bucket (line %s) and can finish without testing it for emptiness / dropping its key: an empty bucket stays in the map, and "
                      "compute_state_root hashes it as `from || 0` — the root then depends on storage history, and disagrees with the accumulator" % (g.name, g.block_line(bi)), site=g.loc(g.block_line(bi)))
    rep.check(n_shr >= 6, "C06.R5", "bucket-shrink:sites", "%d bucket-shrinking sites examined" % n_shr, "only %d bucket-shrinking sites found (6 confirmed)" % n_shr, site="warp_core::graph::GraphStore")
    # the accumulator applies OpenPortal(Empty) like the store does: the child's root node row is (re)written whenever the op is
    # applied — the store side re-inserts a missing root on an existing instance (ensure_child_root).  If the node write can be
    # bypassed inside the Empty arm, the two independent state roots disagree after open / delete root / re-open.
    ap = prog.fn("warp_core::snapshot_accum::SnapshotAccumulator::apply_open_portal")
    node_ins = []
    for bi in ap.call_sites(r"BTreeMap::<.*>::insert$|BTreeMap<.*>::insert$|Entry.*::or_insert|VacantEntry.*::insert$"):
        pl = op_place(ap.blocks[bi]["t"]["args"][0])
        if pl is not None and "NodeRowParts" in str(ap.locals[pl[0]]):
            node_ins.append(bi)
    arms = [a for (_, a, _, _) in enum_switches(ap, "warp_core::tick_patch::PortalInit") if "Empty" in a]
    rep.check(bool(node_ins) and bool(arms), "C06.R5", "accumulator-open-portal:anchors", "node-row insert and the Empty arm found", "node inserts=%d Empty arms=%d" % (len(node_ins), len(arms)), site=ap.loc())
    if node_ins and arms:
        w_ = ap.path([arms[0]["Empty"]], ap.return_blocks(), avoid_blocks=node_ins)
        rep.check(w_ is None, "C06.R5", "accumulator-open-portal:empty-arm-always-writes-the-root", "every path through the Empty arm writes the child's root node row",
                  "SnapshotAccumulator::apply_open_portal can leave the Empty arm without writing the child root's node row (%s), while the store side (apply_open_portal + "
                  "ensure_child_root) always ends with the root present: the two state roots disagree after open, delete root, re-open" % ap.describe_path(w_), site=ap.loc())


def ctx_baseline(name, current):
    from ..baselines import baseline
    return baseline(name, current)
