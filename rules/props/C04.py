"""C04 — a tick patch replays to exactly the state the tick produced."""
from ..prims import *

EXPLANATION = (
    "Structural necessary conditions of C04: (R1) every per-operation handler (apply, sort key, digest encoding, "
    "accumulator, attribution, merge target) names every WarpOp variant; the one intentional wildcard absorbs exactly "
    "the confirmed variants; (R2) every typed patch error stays constructible on the apply path and each validation "
    "gates its mutation (absent owner/node/edge/store can never reach the mutating call); (R3) the Result of every "
    "patch application call in the workspace is inspected or propagated; (R4) the patch digest covers every field of "
    "every operation (obligations generated from the ADTs); (R5) the committed patch is the diff taken after "
    "application; (R6) every store field the appliers can modify is read by the differ. apply(diff(a,b),a)==b is NOT decided."
    ' Round 5 (R10): every collection built by diff_state — the one function that walks all instances — is keyed by a type that carries the warp id (local ids are unique per warp only); Engine::jump_to_tick reaches a success return only through the reset to the preserved initial state followed by the patch replay (no digest-equality shortcut: the state root covers reachable content only).'
)
ASSUMPTIONS = ["BTreeMap operations are correct", "reverse indexes (edges_to, edge_index, edge_to_index) are functions of edges_from (exempt in R6)"]
FLOOR = 60

TP = "warp_core::tick_patch::"
W = TP + "WarpOp"
GS = "warp_core::graph::GraphStore"

TOTAL_HANDLERS = [
    TP + "apply_op_to_state", TP + "WarpOp::sort_key", TP + "encode_ops",
    "warp_core::snapshot_accum::SnapshotAccumulator::apply_op",
    "warp_core::footprint_guard::op_write_targets", "warp_core::footprint_guard::op_kind_str",
    "warp_core::parallel::merge::extract_target_warp", "warp_core::provenance_codec::push_warp_op",
]
# confirmed: plain node/edge upserts cannot create or remove a Descend attachment or an instance
WILDCARD_OK = {TP + "warp_op_touches_portal_topology": {"UpsertNode", "UpsertEdge"}}

APPLY_ERRORS = {"MissingWarp", "MissingNode", "MissingEdge", "NodeNotIsolated", "InvalidAttachmentKey",
                "PortalInitRequired", "PortalInvariantViolation"}


def run(ctx):
    rep = ctx.report
    prog = ctx.prog("trusted")
    rep.rule("C04.R1", "A6 match_total over WarpOp for the handler family; wildcard arms absorb only the confirmed variants")
    rep.rule("C04.R2", "A11 every TickPatchError rejection stays live on the apply path; A1 each validation gates its mutation")
    rep.rule("C04.R3", "error discipline: the Result of apply_to_state/apply_ops_to_state/apply_to_worldline_state is never dropped")
    rep.rule("C04.R4", "A3 patch digest covers every field of WarpOp and the records it embeds (obligations from ADT definitions)")
    rep.rule("C04.R5", "A1 the committed patch's ops are diff_state(pre-state clone, self.state) taken after application")
    rep.rule("C04.R6", "A4/A5 sibling coverage: Mod(appliers, GraphStore) ⊆ Read(diff_state tree, GraphStore) ∪ {derived indexes}")

    wadt = prog.adt(W)
    variants = [v["n"] for v in wadt["variants"]]
    # ---- R1
    for path in TOTAL_HANDLERS:
        f = prog.fn(path)
        ms = match_absorbed(f, W)
        rep.check(bool(ms), "C04.R1", "total:%s:switch" % f.name, "matches on WarpOp", "no match on WarpOp found in %s" % path, site=f.loc())
        for bb, missing, arms in ms:
            rep.check(not missing, "C04.R1", "total:%s" % f.name, "names all %d variants" % len(arms),
                      "a wildcard/binding arm absorbs WarpOp variants %s" % sorted(missing), site=f.loc(f.block_line(bb)))
    for path, okset in WILDCARD_OK.items():
        f = prog.fn(path)
        for bb, missing, arms in match_absorbed(f, W):
            rep.check(missing == okset, "C04.R1", "wildcard:%s" % f.name, "wildcard absorbs exactly %s" % sorted(okset),
                      "wildcard absorbs %s, confirmed set is %s" % (sorted(missing), sorted(okset)), site=f.loc(f.block_line(bb)))
    # any other non-derive function in warp_core that switches on WarpOp with a live wildcard is listed for reading
    known_partial = {"warp_core::parallel::merge::collect_new_warps::{closure#0}", "warp_core::trusted_runtime_host::operation_patch_scope_v1",
                     TP + "warp_op_touches_portal_topology"}
    for f in prog.fns.values():
        if f.crate != "warp_core" or f.rec.get("impl_trait"):
            continue
        if f.id in TOTAL_HANDLERS or f.id in known_partial:
            continue
        for bb, missing, arms in match_absorbed(f, W):
            if len(arms) >= 3:
                rep.check(not missing, "C04.R1", "total:other:%s" % f.id.replace("warp_core::", ""), "names all variants",
                          "%s matches WarpOp with a wildcard absorbing %s (unreviewed handler)" % (f.id, sorted(missing)), site=f.loc(f.block_line(bb)))

    # ---- R7 canonical replay order key
    sk = prog.fn(TP + "WarpOp::sort_key")
    rep.rule("C04.R7", "A10 sort_key: phase constants distinct and in the documented order; per-variant identity fields")
    KEY = TP + "WarpOpKey"
    # confirmed by reading (doc comment of sort_key): instance/portal ops, then deletes before upserts, attachments last
    PHASE = {"OpenPortal": 1, "UpsertWarpInstance": 2, "DeleteWarpInstance": 3, "DeleteEdge": 4, "DeleteNode": 5, "UpsertNode": 6, "UpsertEdge": 7, "SetAttachment": 8}
    IDENT = {"OpenPortal": ({"f:key"}, {"f:key"}), "UpsertWarpInstance": ({"f:instance", "f:warp_id"}, set()), "DeleteWarpInstance": ({"f:warp_id"}, set()),
             "DeleteEdge": ({"f:from"}, {"f:edge_id"}), "DeleteNode": ({"f:node", "f:local_id"}, set()), "UpsertNode": ({"f:node", "f:local_id"}, set()),
             "UpsertEdge": ({"f:record", "f:from"}, {"f:record", "f:id"}), "SetAttachment": ({"f:key"}, {"f:key"})}
    from ..guards import side_tokens
    sws = enum_switches(sk, W)
    got_phase = {}
    if sws:
        bb, arms, ow, _ = sws[0]
        targets = set(arms.values())
        for v, tgt in arms.items():
            others = [x for x in targets if x != tgt]
            reach = sk.reachable([tgt], avoid_blocks=others)
            for b in reach:
                for st_ in sk.blocks[b]["st"]:
                    if st_[0] == "a" and st_[2]["r"] == "agg" and st_[2].get("adt") == KEY:
                        m = dict(zip(st_[2]["fields"], st_[2]["os"]))
                        got_phase[v] = const_int(m["kind"])
                        ta, tb = side_tokens(sk, m["a"]), side_tokens(sk, m["b"])
                        wa, wb = IDENT.get(v, (set(), set()))
                        rep.check(wa <= ta and wb <= tb, "C04.R7", "sort_key:%s:identity" % v, "key.a/key.b carry %s / %s" % (sorted(wa), sorted(wb)),
                                  "sort_key(%s): a derives from %s, b from %s; expected %s / %s (two distinct ops would share a key and be deduplicated)" % (
                                      v, sorted(t for t in ta if t.startswith("f:")), sorted(t for t in tb if t.startswith("f:")), sorted(wa), sorted(wb)), site=sk.loc())
                        tw = side_tokens(sk, m["warp"])
                        rep.check(any(t in tw for t in ("f:warp_id", "f:key", "f:node", "f:instance")), "C04.R7", "sort_key:%s:warp-scoped" % v, "key.warp derives from the op's instance",
                                  "sort_key(%s).warp does not derive from the op's instance id: %s" % (v, sorted(tw)), site=sk.loc())
    for v, want in PHASE.items():
        rep.check(got_phase.get(v) == want, "C04.R7", "sort_key:%s:phase" % v, "phase %d" % want,
                  "sort_key(%s) has phase %s, documented order requires %d (instances before skeleton, deletes before upserts, attachments last)" % (v, got_phase.get(v), want), site=sk.loc())

    # ---- R8 cascade re-emission (sibling rule between appliers and the differ)
    rep.rule("C04.R8", "A5 sibling: an op whose applier cascades to an attachment, emitted by the differ for an element that the same "
                       "diff re-upserts, must be accompanied by a re-emission of that attachment")
    ap_fn = prog.fn(TP + "apply_op_to_state")
    asw = enum_switches(ap_fn, W)
    cascading = {}
    if asw:
        bb, arms, ow, _ = asw[0]
        targets = set(arms.values())
        for vname, tgt in arms.items():
            if vname in ("SetAttachment", "OpenPortal", "UpsertWarpInstance", "DeleteWarpInstance"):
                continue
            reach = ap_fn.reachable([tgt], avoid_blocks=[x for x in targets if x != tgt])
            callees = {ap_fn.callee_of(ap_fn.blocks[b]["t"]) for b in reach if ap_fn.blocks[b]["t"]["t"] == "call"}
            arm_tree, _ = tree(prog, [prog.fns[c] for c in callees if c in prog.fns]) if callees else ([], set())
            m_ = set(mod_set(arm_tree, GS)) & {"node_attachments", "edge_attachments"}
            if m_:
                cascading[vname] = sorted(m_)
    rep.check(set(cascading) == {"DeleteNode", "DeleteEdge"}, "C04.R8", "cascading-ops", "ops with an attachment mini-cascade: %s" % cascading,
              "set of ops whose applier cascades to attachments changed: %s (confirmed: DeleteNode, DeleteEdge)" % cascading, site=ap_fn.loc())
    partner = {"DeleteEdge": "UpsertEdge", "DeleteNode": "UpsertNode"}
    diff_fns, _ = tree(prog, [prog.fn(TP + "diff_state")])
    for f in diff_fns:
        if not f.id.startswith(TP):
            continue
        heads = loop_heads(f)
        sa = agg_blocks(f, W, "SetAttachment")
        for dname in cascading:
            if dname not in partner:
                continue  # an op that newly cascades is already reported by `cascading-ops` above
            for d in agg_blocks(f, W, dname):
                ups = agg_blocks(f, W, partner[dname])
                w = f.path([d], ups, avoid_blocks=heads)
                if w is None:
                    rep.ok("C04.R8", "cascade:%s:%s@%s" % (f.name, dname, "removed-element"), "emitted only for an element that is not re-upserted in the same iteration", site=f.loc(f.block_line(d)))
                    continue
                leak = f.path([d], heads + f.return_blocks(), avoid_blocks=sa)
                rep.check(leak is None, "C04.R8", "cascade:%s:%s-then-%s" % (f.name, dname, partner[dname]),
                          "the cascaded attachment is re-emitted",
                          "%s emits %s and then %s for the same element without re-emitting its attachment: replay's %s drops the attachment (%s) that the live state keeps, so "
                          "the patch does not reproduce the post-state" % (f.name, dname, partner[dname], dname, cascading[dname]), site=f.loc(f.block_line(d)))

    # ---- R9 per-plane differ independence
    rep.rule("C04.R9", "A4/A7 the differ of one plane decides from that plane only (the applier never cascades across planes, so a "
                       "differ that suppresses ops because of another plane's content emits unreplayable patches)")
    # plane -> store content the differ function may consult (fields read directly or through GraphStore accessors); confirmed by reading
    PLANES = {"diff_nodes": {"nodes"}, "diff_node_attachments": {"nodes", "node_attachments", "node_attachment"},
              "diff_edges": {"edge_attachments", "edge_attachment"}, "diff_edge_attachments": {"edge_attachments", "edge_attachment"},
              "edges_by_id": {"edges_from"}}
    for nm, allowed in PLANES.items():
        f = prog.fn(TP + nm)
        fs_ = [f] + [prog.fns[c] for c in prog.closures_in(f.id)]
        consulted = set(read_set(fs_, GS))
        for g in fs_:
            for bi, t in g.calls():
                c = g.callee_of(t) or ""
                if c.startswith(GS + "::"):
                    consulted.add(c.rsplit("::", 1)[-1])
        extra = consulted - allowed - {"warp_id"}
        rep.check(not extra, "C04.R9", "differ-plane:%s" % nm, "consults only %s" % sorted(consulted or {"(its edge-record maps)"}),
                  "%s consults store content of another plane (%s): an op suppressed because of it is not reproduced by the non-cascading applier" % (nm, sorted(extra)), site=f.loc())

    # ---- R2
    ao = prog.fn(TP + "apply_ops_to_state")
    tr, ext = tree(prog, [ao])
    live = constructed_variants(tr, TP + "TickPatchError")
    for v in sorted(APPLY_ERRORS):
        rep.check(v in live, "C04.R2", "live:TickPatchError::%s" % v, "constructed at %s" % (live.get(v, [("", 0)])[0],),
                  "TickPatchError::%s is no longer constructed on the apply path (a validation was removed)" % v, site=ao.loc())
    vd = prog.fn(TP + "WarpTickPatchV1::validate_digest")
    rep.check("DigestMismatch" in constructed_variants([vd], TP + "TickPatchError"), "C04.R2", "live:TickPatchError::DigestMismatch",
              "validate_digest rejects with DigestMismatch", "validate_digest no longer constructs DigestMismatch", site=vd.loc())
    # apply loop: `?` on apply_op_to_state, portal validation reached when the flag is set
    calls = ao.call_sites(r"tick_patch::apply_op_to_state$")
    vp = ao.call_sites(r"tick_patch::validate_portal_invariants$")
    tp = ao.call_sites(r"tick_patch::warp_op_touches_portal_topology$")
    rep.check(len(calls) == 1 and len(vp) == 1 and len(tp) == 1, "C04.R2", "apply_ops:anchors", "apply/validate/touches sites present",
              "apply=%d validate=%d touches=%d" % (len(calls), len(vp), len(tp)), site=ao.loc())
    if calls and vp and tp:
        okk, why = result_inspected(ao, calls[0])
        rep.check(okk, "C04.R2", "apply_ops:op-result-propagated", why, "apply_op_to_state result: " + why, site=ao.loc())
        okk, why = result_inspected(ao, vp[0])
        rep.check(okk, "C04.R2", "apply_ops:portal-result-propagated", why, "validate_portal_invariants result: " + why, site=ao.loc())
        rep.check(dominates(ao, tp, calls) is None, "C04.R2", "apply_ops:topology-probe-before-apply",
                  "portal-topology probe sees the state before the op is applied", "probe does not precede application", site=ao.loc())
        # every Ok return after a topology-touching op passes validate_portal_invariants: the flag's true edge leads to the validation
        oks, errs = ok_return_blocks(ao)
        flag_sw = None
        for bi, b in enumerate(ao.blocks):
            t = b["t"]
            if t["t"] == "sw" and fn_local_ty(ao, t["o"]) == "bool" and bi not in [c for c in calls]:
                reach_t = ao.reachable([t["ow"]], avoid_edges=[(bi, x[1]) for x in t["v"]])
                if vp[0] in reach_t and not any(c in reach_t for c in calls):
                    flag_sw = (bi, t)
        rep.check(flag_sw is not None, "C04.R2", "apply_ops:portal-validation-gated-by-flag", "validate_portal_invariants runs when the topology flag is set",
                  "no branch on the topology flag leading to validate_portal_invariants", site=ao.loc())
        if flag_sw:
            bi, t = flag_sw
            w = ao.path([t["ow"]], oks, avoid_blocks=vp, avoid_edges=[(bi, x[1]) for x in t["v"]])
            rep.check(w is None, "C04.R2", "apply_ops:flag-set-implies-validation", "flag set => validation before Ok",
                      "Ok reachable with the flag set without validating: %s" % (ao.describe_path(w) if w else ""), site=ao.loc())
    # validation gates mutation
    gates = [
        (TP + "apply_set_attachment", r"GraphStore::node$", r"GraphStore::set_node_attachment$", "node-exists"),
        (TP + "apply_set_attachment", r"GraphStore::has_edge$", r"GraphStore::set_edge_attachment$", "edge-exists"),
        (TP + "apply_set_attachment", r"WarpState::store_mut$", r"GraphStore::set_(node|edge)_attachment$", "store-exists"),
        (TP + "apply_open_portal", r"WarpState::store_mut$", r"GraphStore::set_(node|edge)_attachment$", "parent-store-exists"),
        (TP + "apply_op_to_state", r"WarpState::store_mut$", r"GraphStore::(insert_node|delete_node_isolated|upsert_edge_record|delete_edge_exact)$", "store-exists"),
        (TP + "ensure_child_root", r"WarpState::store_mut$", r"GraphStore::insert_node$", "child-store-exists"),
        ("warp_core::graph::GraphStore::delete_node_isolated", r"BTreeMap.*::contains_key$", r"BTreeMap.*::remove$", "node-exists"),
    ]
    for path, gpat, mpat, label in gates:
        f = prog.fn(path)
        gs = f.call_sites(gpat)
        ms = f.call_sites(mpat)
        rep.check(bool(gs) and bool(ms), "C04.R2", "gate:%s:%s:anchors" % (f.name, label), "%d guard calls, %d mutation calls" % (len(gs), len(ms)),
                  "guard %s (%d) / mutation %s (%d) not found" % (gpat, len(gs), mpat, len(ms)), site=f.loc())
        for g in gs:
            rec, w = absent_blocks_mutation(f, g, ms)
            rep.check(rec and w is None, "C04.R2", "gate:%s:%s" % (f.name, label),
                      "absent => no mutation", ("guard at bb%d is not branched on" % g) if not rec else
                      "mutation reachable when the guard reports absence: %s" % f.describe_path(w), site=f.loc(f.block_line(g)))
    # validate_attachment_plane / owner-exists dominate the attachment mutations
    for path, pre, mut in ((TP + "apply_set_attachment", r"validate_attachment_plane$", r"GraphStore::set_(node|edge)_attachment$"),
                           (TP + "apply_open_portal", r"validate_attachment_owner_exists$", r"GraphStore::set_(node|edge)_attachment$|WarpState::upsert_instance$")):
        f = prog.fn(path)
        ps, ms = f.call_sites(pre), f.call_sites(mut)
        w = dominates(f, ps, ms) if ps and ms else [0]
        rep.check(w is None, "C04.R2", "gate:%s:validated-first" % f.name, "validation dominates mutation",
                  "mutation reachable before %s" % pre, site=f.loc())
        for p in ps:
            okk, why = result_inspected(f, p)
            rep.check(okk, "C04.R2", "gate:%s:validation-propagated" % f.name, why, "validation result: " + why, site=f.loc())
    dn = prog.fn("warp_core::graph::GraphStore::delete_node_isolated")
    live_dn = constructed_variants([dn], "warp_core::graph::DeleteNodeError")
    for v in ("NodeNotFound", "HasOutgoingEdges", "HasIncomingEdges"):
        rep.check(v in live_dn, "C04.R2", "live:DeleteNodeError::%s" % v, "isolated-delete keeps its %s rejection" % v,
                  "delete_node_isolated no longer rejects with %s (cascade would go unrecorded)" % v, site=dn.loc())
    # each rejection of delete_node_isolated precedes the removal
    rem = dn.call_sites(r"BTreeMap.*::remove$")
    errs_dn = agg_blocks(dn, "warp_core::graph::DeleteNodeError")
    gets = dn.call_sites(r"BTreeMap.*::get$")
    rep.check(len(gets) >= 2 and dominates(dn, gets, rem) is None, "C04.R2", "gate:delete_node_isolated:edge-checks-first",
              "outgoing and incoming edge buckets are consulted before removal", "edge-bucket checks no longer dominate the node removal", site=dn.loc())

    # ---- R3
    n_sites = 0
    for f in prog.fns.values():
        if f.crate not in ("warp_core", "warp_wasm", "echo_graph"):
            continue
        for bb in f.call_sites(r"WarpTickPatchV1::apply_to_state$|tick_patch::apply_ops_to_state$|apply_to_worldline_state$|tick_patch::apply_op_to_state$"):
            n_sites += 1
            okk, why = result_inspected(f, bb)
            callee = (f.callee_of(f.blocks[bb]["t"]) or "").rsplit("::", 1)[-1]
            rep.check(okk, "C04.R3", "result-used:%s@%s" % (callee, f.id.replace("warp_core::", "")), why,
                      "result of %s is dropped in %s: %s" % (callee, f.id, why), site=f.loc(f.block_line(bb)))
    rep.check(n_sites >= 8, "C04.R3", "result-used:site-count", "%d application call sites" % n_sites, "only %d application call sites found" % n_sites, site=TP)

    # ---- R4
    dg = prog.fn(TP + "compute_patch_digest_v2")
    trd, _ = tree(prog, [dg])
    covered, nsinks = sink_field_atoms(trd, r"blake3::Hasher::update$")
    rep.check(nsinks >= 20, "C04.R4", "digest:sinks", "%d hasher.update sites in the digest tree" % nsinks, "only %d hasher.update sites" % nsinks, site=dg.loc())
    roots = [W, TP + "SlotId"]
    obl = adt_obligations(prog, roots, stop_adts=())
    cov_set = set(covered)
    n_ob = 0
    for (adt, var, fld) in obl:
        if adt.startswith("warp_core::ident::") and fld == "0":
            # newtype wrappers around [u8;32]: covered when the wrapper value itself reaches the hasher (as_bytes / .0)
            continue
        n_ob += 1
        hit = (adt, var, fld) in cov_set
        rep.check(hit, "C04.R4", "digest-covers:%s::%s.%s" % (adt.rsplit("::", 1)[-1], var, fld), "reaches hasher.update",
                  "field %s::%s.%s never reaches the patch digest (two patches differing only there share a digest)" % (adt, var, fld), site=dg.loc())
    # parameters of the digest function all reach the hasher
    ogd = dg.origins()
    reached = set()
    for f in [dg]:
        for bi, t in f.calls():
            for a in t["args"]:
                for at in ogd.of_operand(a, deep=True):
                    if at.kind == "param":
                        reached.add(at.key)
    for i in range(1, dg.argc + 1):
        rep.check(i in reached, "C04.R4", "digest-param:%d" % i, "parameter %d (%s) flows into the hasher/encoders" % (i, dg.locals[i]),
                  "digest parameter %d (%s) is unused" % (i, dg.locals[i]), site=dg.loc())
    pn = prog.fn(TP + "WarpTickPatchV1::new")
    rep.check(bool(pn.call_sites(r"compute_patch_digest_v2$")), "C04.R4", "patch-new:computes-digest", "constructor computes the digest",
              "WarpTickPatchV1::new no longer computes the digest", site=pn.loc())
    cmps = find_comparison(vd, lambda a: a.kind == "call" and a.key[0].endswith("compute_patch_digest_v2"),
                           lambda a: steps_have(a, "WarpTickPatchV1", "digest"))
    rep.check(bool(cmps), "C04.R4", "validate_digest:recompute-compare", "validate_digest compares the recomputed digest with the stored one",
              "validate_digest does not compare recomputed vs stored digest", site=vd.loc())

    # ---- R5 (shared with C01.R3 instances, keyed here)
    cw = prog.fn("warp_core::engine_impl::Engine::commit_with_receipt")
    ap = cw.call_sites(r"Engine::apply_reserved_rewrites$")
    df = cw.call_sites(r"tick_patch::diff_state$")
    pnew = cw.call_sites(r"WarpTickPatchV1::new$")
    rep.check(len(ap) == 1 and len(df) == 1 and len(pnew) == 1, "C04.R5", "commit:anchors", "apply/diff/patch sites", "apply=%d diff=%d new=%d" % (len(ap), len(df), len(pnew)), site=cw.loc())
    if ap and df and pnew:
        rep.check(dominates(cw, ap, df) is None and dominates(cw, df, pnew) is None, "C04.R5", "commit:apply-diff-patch-order",
                  "apply, then diff, then patch construction", "apply/diff/patch not in dominance order", site=cw.loc())
        og = cw.origins()
        t = cw.blocks[pnew[0]]["t"]
        ops_arg = t["args"][-1]
        rep.check(any(a.kind == "call" and a.key[1] == df[0] for a in og.of_operand(ops_arg, deep=True)), "C04.R5", "commit:patch-ops-from-diff",
                  "patch ops are the diff", "patch ops do not derive from diff_state", site=cw.loc())
        # nothing mutates self.state between diff and the end except nothing: count &mut self.state borrows after diff
        after = cw.reachable([cw.blocks[df[0]]["t"]["tgt"]])
        muts = [(bi, line) for bi, si, place, rv, line in cw.assigns() if bi in after and rv["r"] == "ref" and rv["bk"] in ("mut", "two")
                and any(s[2] == "state" and s[0].endswith("::Engine") for s in field_steps(rv["p"]))]
        rep.check(not muts, "C04.R5", "commit:state-frozen-after-diff", "self.state is not mutably borrowed after the diff",
                  "self.state mutably borrowed after diff at %s" % muts, site=cw.loc())

    # ---- R6
    appliers, _ = tree(prog, [prog.fn(TP + "apply_op_to_state")])
    differs, _ = tree(prog, [prog.fn(TP + "diff_state")])
    mods = mod_set(appliers, GS)
    reads = read_set(differs, GS)
    derived = {"edges_to": "reverse index of edges_from", "edge_index": "edge id -> from index of edges_from",
               "edge_to_index": "edge id -> to index of edges_from",
               "warp_id": "canonicalised by upsert_instance to the stores-map key, which diff_state iterates"}
    rep.check(len(mods) >= 5, "C04.R6", "mod-set:size", "appliers may write GraphStore fields %s" % sorted(mods), "Mod set too small: %s" % sorted(mods), site=GS)
    for fld in sorted(mods):
        if fld in derived:
            rep.ok("C04.R6", "diff-reads:%s:derived" % fld, "exempt: " + derived[fld], site=GS)
            continue
        rep.check(fld in reads, "C04.R6", "diff-reads:%s" % fld, "diff_state reads GraphStore.%s" % fld,
                  "appliers can modify GraphStore.%s (e.g. %s) but diff_state never reads it" % (fld, mods[fld][0][0]), site=GS)
    # WarpState-level: instances
    ws = "warp_core::state::WarpState"
    wmods = mod_set(appliers, ws)
    wreads = read_set(differs, ws)
    for fld in sorted(wmods):
        rep.check(fld in wreads, "C04.R6", "diff-reads:WarpState.%s" % fld, "diff_state reads WarpState.%s" % fld,
                  "appliers can modify WarpState.%s but diff_state never reads it" % fld, site=ws)

    # ---- R10 (round 5)
    rep.rule("C04.R10", "the cross-instance differ keeps warp scope; a history jump is always a full replay")
    # diff_state is the one function that walks ALL instances.  A collection it builds is consulted for every instance, so its key
    # must carry the warp: a set of bare local ids built for one instance suppresses or matches elements of every other instance
    # that happen to share the local id (local ids are only unique per warp).
    ds = prog.fn(TP + "diff_state")

    def scoped(ty, depth=0):
        ty = str(ty)
        if "WarpId" in ty:
            return True
        if depth > 3:
            return False
        for path, a in prog.adts.items():
            if path in ty and path.startswith("warp_core::"):
                if any(scoped(fl["ty"], depth + 1) for v in a["variants"] for fl in v["fields"]):
                    return True
        return False
    n_coll = 0
    for ty in sorted({str(t) for t in ds.locals}):
        m_ = re.match(r"^std::collections::BTree(Set|Map)<(.*)>$", ty)
        if not m_:
            continue
        key = m_.group(2)
        if m_.group(1) == "Map":   # key is everything up to the first top-level comma
            d_, cut = 0, len(key)
            for i_, ch in enumerate(key):
                d_ += ch in "<([" ; d_ -= ch in ">)]"
                if ch == "," and d_ == 0:
                    cut = i_
                    break
            key = key[:cut]
        n_coll += 1
        rep.check(scoped(key), "C04.R10", "diff_state:cross-instance-collection-is-warp-scoped:%s" % key.rsplit("::", 1)[-1], "keyed by %s (carries the warp)" % key,
                  "diff_state builds a collection keyed by %s, which does not carry the warp id, and consults it across instances: an element of another instance with the same local id is "
                  "treated as the recorded one (ops suppressed or mis-matched), so the patch no longer replays to the post-state" % key, site=ds.loc())
    rep.check(n_coll >= 3, "C04.R10", "diff_state:collections", "%d cross-instance collections examined" % n_coll, "only %d collections found in diff_state" % n_coll, site=ds.loc())
    # Engine::jump_to_tick: every success return has reset the state to the preserved U0 and replayed the patches.  A shortcut that
    # returns early because some digest of the current state matches (the state root covers only reachable content) keeps a state
    # the patches do not produce.
    jt = prog.fn("warp_core::engine_impl::Engine::jump_to_tick")
    resets = [b for b in assign_blocks(jt, "warp_core::engine_impl::Engine", "state")]
    applies = jt.call_sites(r"::apply_to_state$")
    oks_j, _ = ok_return_blocks(jt)
    rep.check(bool(resets) and bool(applies) and bool(oks_j), "C04.R10", "jump:anchors", "reset=%d apply=%d ok=%d" % (len(resets), len(applies), len(oks_j)),
              "jump_to_tick anchors missing: reset=%d apply=%d ok=%d" % (len(resets), len(applies), len(oks_j)), site=jt.loc())
    if resets and applies and oks_j:
        w_ = jt.path([0], oks_j, avoid_blocks=resets)
        rep.check(w_ is None and dominates(jt, resets, applies) is None, "C04.R10", "jump:every-success-replays-from-U0", "every Ok return passed the reset to the initial state; replay follows the reset",
                  "jump_to_tick can return Ok without resetting to the initial state and replaying (%s): the state it keeps is not the one the patches produce" % jt.describe_path(w_), site=jt.loc())


def fn_local_ty(fn, o):
    p = op_place(o)
    if p is None or p[1]:
        return None
    return fn.locals[p[0]]
