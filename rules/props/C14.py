"""C14 — undeclared access never commits."""
from ..prims import *
from ..guards import tokens_of_atoms
from ..engine import resolve_upvars
from ..guards import find_guard, side_tokens

EXPLANATION = (
    "Structural necessary conditions of C14: (R1) every read accessor of GraphView consults the footprint guard with the "
    "matching kind before touching the store whenever a guard is attached (a new accessor without a check is reported by "
    "the general rule); (R2) GraphView exposes nothing but those accessors; (R3) the write-attribution table is total over "
    "operations and agrees with what the appliers can modify (instance ops ⇔ instance-level appliers; attachment-changing "
    "appliers attribute an attachment); (R4) check_op tests each attributed target class against the matching declared "
    "write set and guard construction maps each footprint field to the matching set; instance-op, cross-warp and "
    "unknown-warp gates exist; (R5) enforcement wiring: the executor runs on a guarded view, the emitted ops are checked "
    "even when the executor panicked, any violation poisons the delta, guards are attached before execution; (R6/R7) a "
    "poisoned delta is never merged nor read; (R8) key provenance: every observable store location an applier mutates is "
    "keyed by a value derived from the operation alone (a store-derived key is an unattributable location). "
    "'A rewrite inside its declaration is never flagged' is NOT decided."
    ' Round 2: attribution extraction tolerates construct-then-mutate shapes; the footprint-guard lookup key identifies one rewrite (origin/rule identity + scope) on both the collecting and the attaching side.'
)
ASSUMPTIONS = ["enforcement cfg is active (dev profile / footprint_enforce_release)", "BTreeSet::contains is correct"]
FLOOR = 60

W = "warp_core::tick_patch::WarpOp"
FG = "warp_core::footprint_guard::"
GV = "warp_core::graph_view::GraphView::<'a>::"
GS = "warp_core::graph::GraphStore"
PX = "warp_core::parallel::exec::"

# confirmed kind table: accessor -> (guard check, store accessor)
READ_TABLE = {
    "node": ("check_node_read", "node"),
    "edges_from": ("check_node_read", "edges_from"),
    "has_edge": ("check_edge_read", "has_edge"),
    "node_attachment": ("check_attachment_read", "node_attachment"),
    "edge_attachment": ("check_attachment_read", "edge_attachment"),
}
# confirmed attribution table: variant -> (target classes non-empty, is_instance_op)
ATTR_TABLE = {
    "UpsertNode": ({"nodes"}, False), "DeleteNode": ({"nodes", "attachments"}, False),
    "UpsertEdge": ({"nodes", "edges"}, False), "DeleteEdge": ({"nodes", "edges", "attachments"}, False),
    "SetAttachment": ({"attachments"}, False), "OpenPortal": ({"attachments"}, True),
    "UpsertWarpInstance": (set(), True), "DeleteWarpInstance": (set(), True),
}
GUARD_MAP = {"n_read": "nodes_read", "n_write": "nodes_write", "e_read": "edges_read", "e_write": "edges_write",
             "a_read": "attachments_read", "a_write": "attachments_write"}
OBSERVABLE = {"nodes", "edges_from", "node_attachments", "edge_attachments"}


def run(ctx):
    rep = ctx.report
    prog = ctx.prog("trusted")
    rep.rule("C14.R1", "A1 every GraphView read accessor: store access unreachable on the guard==Some edge without the matching check")
    rep.rule("C14.R2", "A8 GraphView surface: fields private, no method returns the store")
    rep.rule("C14.R3", "A6/A10 attribution table total and consistent with the appliers")
    rep.rule("C14.R4", "A5 check_op pairs targets with write sets; guard construction maps footprint fields; gates present")
    rep.rule("C14.R5", "A1/A2 enforcement wiring in execute_item_enforced / apply_reserved_rewrites")
    rep.rule("C14.R6", "A1/A7 poisoned deltas are never merged or read")
    rep.rule("C14.R8", "key provenance: observable store mutations are keyed by op-derived values only")

    # ---- R1
    accessors = [f for f in prog.find_fns(r"^warp_core::graph_view::GraphView::<'a>::[a-z_]+$") if not f.is_closure()]
    store_readers = []
    for f in accessors:
        sc = [b for b in f.call_sites(r"^warp_core::graph::GraphStore::") if not (f.callee_of(f.blocks[b]["t"]) or "").endswith("::warp_id")]
        if not sc or f.name in ("new", "new_guarded"):
            continue
        store_readers.append(f.name)
        chk = f.call_sites(r"footprint_guard::FootprintGuard::check_\w+$")
        # the guard field's Option discriminant switch
        gsw = []
        for bi, b in enumerate(f.blocks):
            for st in b["st"]:
                if st[0] == "a" and st[2]["r"] == "disc" and any(s[2] == "guard" for s in field_steps(st[2]["p"])):
                    gsw.append(st[1][0])
        some_edges, none_edges = [], []
        for bi, b in enumerate(f.blocks):
            t = b["t"]
            if t["t"] == "sw" and op_place(t["o"]) is not None and op_place(t["o"])[0] in gsw:
                vals = {v: tgt for v, tgt in t["v"]}
                some_edges.append((bi, vals.get("1", t["ow"])))
                none_edges.append((bi, vals.get("0", t["ow"])))
        rep.check(bool(some_edges) and bool(chk), "C14.R1", "accessor:%s:guard-branch" % f.name, "branches on the attached guard and calls a check",
                  "GraphView::%s reads the store (%s) without consulting the footprint guard" % (f.name, [f.callee_of(f.blocks[b]["t"]).rsplit("::", 1)[-1] for b in sc]), site=f.loc())
        if some_edges and chk:
            for (sw, tgt) in some_edges:
                w = f.path([tgt], sc, avoid_blocks=chk, avoid_edges=set(none_edges))
                rep.check(w is None, "C14.R1", "accessor:%s:checked-before-store" % f.name, "with a guard attached the store is reached only through the check",
                          "store access reachable on the guarded edge without a check: %s" % f.describe_path(w), site=f.loc())
        want = READ_TABLE.get(f.name)
        if want is None:
            rep.bad("C14.R1", "accessor:%s:kind-known" % f.name, "GraphView::%s is a store-reading accessor that the confirmed kind table does not know" % f.name, site=f.loc())
        else:
            got_chk = {(f.callee_of(f.blocks[b]["t"]) or "").rsplit("::", 1)[-1] for b in chk}
            got_store = {(f.callee_of(f.blocks[b]["t"]) or "").rsplit("::", 1)[-1] for b in sc}
            rep.check(got_chk == {want[0]} and want[1] in got_store, "C14.R1", "accessor:%s:kind" % f.name, "%s guarded by %s" % (want[1], want[0]),
                      "GraphView::%s is guarded by %s, expected %s" % (f.name, sorted(got_chk), want[0]), site=f.loc())
            # the checked id is the accessor's own argument
            og = f.origins()
            for b in chk:
                t = f.blocks[b]["t"]
                toks = side_tokens(f, t["args"][1])
                rep.check("p:2" in toks, "C14.R1", "accessor:%s:checks-its-argument" % f.name, "the checked key derives from the id argument",
                          "the guard is asked about %s instead of the accessor's argument" % sorted(toks), site=f.loc())
                if want[0] == "check_attachment_read":
                    rep.check("c:warp_id" in toks or "f:warp_id" in toks, "C14.R1", "accessor:%s:key-uses-store-warp" % f.name, "attachment key built from the store's warp id",
                              "attachment key does not include the store's warp id", site=f.loc())
    rep.check(set(store_readers) >= set(READ_TABLE), "C14.R1", "accessors:all-present", "accessors: %s" % sorted(store_readers),
              "expected accessors %s, found %s" % (sorted(READ_TABLE), sorted(store_readers)), site="warp_core::graph_view")
    # guard checks: membership test gates the panic
    for nm, setf in (("check_node_read", "nodes_read"), ("check_edge_read", "edges_read"), ("check_attachment_read", "attachments_read")):
        f = prog.fn(FG + "FootprintGuard::" + nm)
        cs = f.call_sites(r"BTreeSet.*::contains$")
        pn = diverging_calls(f, r"panic::panic_any$|panic_any")
        ok_ = False
        for c in cs:
            t = f.blocks[c]["t"]
            if setf in " ".join(side_tokens(f, t["args"][0])):
                pe = presence_edges(f, c)
                for (sw, tgt) in pe["present"]:
                    if f.path([tgt], pn, avoid_edges=set(pe["absent"])) is None and any(f.path([a[1]], pn) for a in pe["absent"]):
                        ok_ = True
        rep.check(ok_, "C14.R1", "guard:%s:membership-gates-violation" % nm, "absent from %s ⇒ panic_any(FootprintViolation); present ⇒ no panic" % setf,
                  "%s does not gate its violation on membership in %s" % (nm, setf), site=f.loc())

    # ---- R2
    gv = prog.adt("warp_core::graph_view::GraphView")
    for fld in gv["variants"][0]["fields"]:
        rep.check(fld["vis"] != "pub" and "&mut" not in fld["ty"], "C14.R2", "GraphView.%s:private-shared" % fld["n"], "%s (%s)" % (fld["ty"], fld["vis"]),
                  "GraphView.%s is %s / %s" % (fld["n"], fld["vis"], fld["ty"]), site="warp_core::graph_view::GraphView")
    for f in accessors:
        if f.vis == "pub":
            rt = fn_ret_ty(f)
            rep.check("GraphStore" not in rt and "&mut" not in rt, "C14.R2", "GraphView::%s:returns" % f.name, rt, "public GraphView::%s returns %s" % (f.name, rt), site=f.loc())

    # ---- R3
    owt = prog.fn(FG + "op_write_targets")
    ms = match_absorbed(owt, W)
    rep.check(bool(ms) and not ms[0][1], "C14.R3", "attribution:total", "op_write_targets names every WarpOp variant", "op_write_targets has a wildcard arm absorbing %s" % (sorted(ms[0][1]) if ms else "?"), site=owt.loc())
    sws = enum_switches(owt, W)
    got_tbl = {}
    if sws:
        bb, arms, ow, _ = sws[0]
        targets = list(arms.values())
        for vname, tgt in arms.items():
            others = [x for x in set(targets) if x != tgt]
            reach = owt.reachable([tgt], avoid_blocks=others)
            for b in reach:
                for st in owt.blocks[b]["st"]:
                    if st[0] == "a" and st[2]["r"] == "agg" and st[2].get("adt") == FG + "OpTargets":
                        m = dict(zip(st[2]["fields"], st[2]["os"]))
                        og = owt.origins()
                        classes = set()
                        for cls in ("nodes", "edges", "attachments"):
                            ats = og.of_operand(m[cls], deep=True)
                            # non-empty = built by vec![..] (from_elem / into_vec / box allocation), empty = Vec::new()
                            if not all(a.kind == "call" and a.key[0].endswith("Vec::<T>::new") for a in ats if a.kind == "call") or not any(a.kind == "call" for a in ats):
                                classes.add(cls)
                        inst = m["is_instance_op"].get("k", "?").replace("const ", "")
                        got_tbl[vname] = (classes, inst == "true")
    if sws:
        # mutation style (`let mut t = OpTargets { empty.. }; match op { V => { t.nodes.push(x); t.is_instance_op = true } }`):
        # the per-arm facts are the pushes / field assignments inside the arm, on top of the defaults built before the match
        bb, arms, ow, _ = sws[0]
        og = owt.origins()

        def agg_classes(st_):
            m = dict(zip(st_[2]["fields"], st_[2]["os"]))
            classes = set()
            for cls in ("nodes", "edges", "attachments"):
                ats = og.of_operand(m[cls], deep=True)
                if not all(a.kind == "call" and a.key[0].endswith("Vec::<T>::new") for a in ats if a.kind == "call") or not any(a.kind == "call" for a in ats):
                    classes.add(cls)
            return classes, m["is_instance_op"].get("k", "?").replace("const ", "") == "true"
        pre = owt.reachable([0], avoid_blocks=[bb]) | {bb}
        default = None
        for b in pre:
            for st_ in owt.blocks[b]["st"]:
                if st_[0] == "a" and st_[2]["r"] == "agg" and st_[2].get("adt") == FG + "OpTargets":
                    default = agg_classes(st_)
        if default is not None:
            targets_ = list(arms.values())
            for vname, tgt in arms.items():
                if vname in got_tbl:
                    continue
                others = [x for x in set(targets_) if x != tgt]
                reach = owt.reachable([tgt], avoid_blocks=others)
                classes, inst = set(default[0]), default[1]
                for b in reach:
                    blk = owt.blocks[b]
                    for st_ in blk["st"]:
                        if st_[0] != "a":
                            continue
                        fs = [x for x in field_steps(st_[1]) if x[0] == FG + "OpTargets"]
                        if fs:
                            if fs[0][2] == "is_instance_op" and "k" in st_[2].get("o", {}):
                                inst = st_[2]["o"]["k"].replace("const ", "") == "true"
                            elif fs[0][2] in ("nodes", "edges", "attachments"):
                                classes.add(fs[0][2])
                    t_ = blk["t"]
                    if t_["t"] == "call" and re.search(r"Vec(::)?<T, A>::(push|extend|extend_from_slice|insert)$|::extend$", owt.callee_of(t_) or "") and t_["args"]:
                        for a in og.of_operand(t_["args"][0], deep=True):
                            for stp in a.steps:
                                if isinstance(stp, tuple) and stp[0] == FG + "OpTargets" and stp[2] in ("nodes", "edges", "attachments"):
                                    classes.add(stp[2])
                got_tbl[vname] = (classes, inst)
    for v, want in ATTR_TABLE.items():
        got = got_tbl.get(v)
        rep.check(got == want, "C14.R3", "attribution:%s" % v, "targets %s instance=%s" % (sorted(want[0]), want[1]),
                  "op_write_targets(%s) attributes %s, confirmed table says %s" % (v, got, want), site=owt.loc())
    # sibling: applier arms
    ap = prog.fn("warp_core::tick_patch::apply_op_to_state")
    asw = enum_switches(ap, W)
    if asw:
        bb, arms, ow, _ = asw[0]
        targets = list(arms.values())
        for vname, tgt in arms.items():
            others = [x for x in set(targets) if x != tgt]
            reach = ap.reachable([tgt], avoid_blocks=others)
            callees = set()
            for b in reach:
                t = ap.blocks[b]["t"]
                if t["t"] == "call":
                    c = ap.callee_of(t) or ""
                    if c in prog.fns:
                        callees.add(c)
            arm_tree, _ = tree(prog, [prog.fns[c] for c in callees]) if callees else ([], set())
            inst_level = any(re.search(r"WarpState::(upsert_instance|delete_instance|take_or_create_store)$", f.id) for f in arm_tree)
            want = ATTR_TABLE.get(vname, (set(), False))
            rep.check(inst_level == want[1], "C14.R3", "attribution~applier:%s:instance-level" % vname, "instance-level applier ⇔ is_instance_op",
                      "applier arm %s is %sinstance-level but attribution says is_instance_op=%s" % (vname, "" if inst_level else "not ", want[1]), site=ap.loc())
            mods = set(mod_set(arm_tree, GS)) if arm_tree else set()
            if {"node_attachments", "edge_attachments"} & mods and not inst_level:
                rep.check("attachments" in want[0], "C14.R3", "attribution~applier:%s:attachment-attributed" % vname, "applier can change attachments and attribution names one",
                          "applier arm %s can modify attachments (%s) but attribution names none" % (vname, sorted(mods & {"node_attachments", "edge_attachments"})), site=ap.loc())
            if "nodes" in mods and not inst_level:
                rep.check("nodes" in want[0], "C14.R3", "attribution~applier:%s:node-attributed" % vname, "applier can change nodes and attribution names one",
                          "applier arm %s can modify nodes but attribution names none" % vname, site=ap.loc())
            edits_edges = any(re.search(r"GraphStore::(upsert_edge_record|delete_edge_exact|insert_edge)$", f.id) for f in arm_tree)
            if "edges_from" in mods and edits_edges and not inst_level:
                rep.check("edges" in want[0] and "nodes" in want[0], "C14.R3", "attribution~applier:%s:adjacency-attributed" % vname, "edge + source-node adjacency attributed",
                          "applier arm %s can modify adjacency but attribution lacks edges/nodes" % vname, site=ap.loc())

    # ---- R4
    co = prog.fn(FG + "FootprintGuard::check_op")
    pairs = {}
    for bb, line, ra, aa in call_pairs(co, r"BTreeSet.*::contains$"):
        for (pa, fa) in ra:
            for (pb, fb) in aa:
                if fa and fb:
                    pairs[(fa[-1], fb[-1])] = bb
    pn = diverging_calls(co, r"panic_any")
    for setf, tf in (("nodes_write", "nodes"), ("edges_write", "edges"), ("attachments_write", "attachments")):
        bb = pairs.get((setf, tf))
        rep.check(bb is not None, "C14.R4", "check_op:%s~%s" % (tf, setf), "targets.%s tested against %s" % (tf, setf),
                  "targets.%s is not tested against the guard's %s (pairs found: %s)" % (tf, setf, sorted(pairs)), site=co.loc())
        if bb is not None:
            pe = presence_edges(co, bb)
            gates = any(co.path([a[1]], pn, avoid_edges=set(pe["present"]), avoid_blocks=loop_heads(co)) for a in pe["absent"])
            rep.check(gates, "C14.R4", "check_op:%s:miss-panics" % tf, "an undeclared %s target reaches panic_any" % tf, "a miss on %s does not reach panic_any" % setf, site=co.loc())
    # the warp check runs for EVERY op that names a warp (instance ops included): the only way past the `op_warp != self.warp_id`
    # comparison to a normal return is the `op_warp == None` arm
    ogc = co.origins()
    cw_blocks = []
    for (bb_, kind_, a_, b_, res_, line_) in comparisons(co):
        ta_, tb_ = tokens_of_atoms(ogc.of_operand(a_, deep=True)), tokens_of_atoms(ogc.of_operand(b_, deep=True))
        if ("f:op_warp" in ta_ and "f:warp_id" in tb_) or ("f:op_warp" in tb_ and "f:warp_id" in ta_):
            cw_blocks.append(bb_)
    none_edges = []
    for bi_, b_ in enumerate(co.blocks):
        for st_ in b_["st"]:
            if st_[0] == "a" and st_[2]["r"] == "disc" and any(x[2] == "op_warp" for x in field_steps(st_[2]["p"])):
                for bj_, bb2 in enumerate(co.blocks):
                    t2 = bb2["t"]
                    if t2["t"] == "sw" and op_place(t2["o"]) is not None and op_place(t2["o"])[0] == st_[1][0]:
                        vals = {v: tg for v, tg in t2["v"]}
                        none_edges.append((bj_, vals.get("0", t2["ow"])))
    w_ = co.path([0], co.return_blocks(), avoid_blocks=cw_blocks, avoid_edges=set(none_edges)) if cw_blocks else [0]
    rep.check(bool(cw_blocks) and w_ is None, "C14.R4", "check_op:warp-check-unconditional", "every op that names a warp is compared with the guard's warp before check_op returns",
              "check_op can return without comparing the op's warp with the guard's warp although the op names one (%s): an op aimed at another warp instance is accepted" % co.describe_path(w_), site=co.loc())
    live = constructed_variants([co], FG + "ViolationKind")
    for v in ("UnauthorizedInstanceOp", "CrossWarpEmission", "OpWarpUnknown", "NodeWriteNotDeclared", "EdgeWriteNotDeclared", "AttachmentWriteNotDeclared"):
        rep.check(v in live, "C14.R4", "check_op:live:%s" % v, "gate present", "check_op no longer raises ViolationKind::%s" % v, site=co.loc())
    reads_sys = any(any(s[2] == "is_system" for s in field_steps(p)) for bi, p, l in places_read_in(co))
    reads_inst = any(any(s[2] == "is_instance_op" for s in field_steps(p)) for bi, p, l in places_read_in(co))
    rep.check(reads_sys and reads_inst, "C14.R4", "check_op:instance-gate", "instance ops are gated on is_system", "check_op no longer combines is_instance_op with is_system", site=co.loc())
    cmpw = find_comparison(co, lambda a: steps_have(a, "OpTargets", "op_warp"), lambda a: steps_have(a, "FootprintGuard", "warp_id"))
    rep.check(bool(cmpw), "C14.R4", "check_op:cross-warp-compare", "op warp compared with the guard's warp", "no comparison of op_warp with the guard's warp_id", site=co.loc())
    gn = prog.fn(FG + "FootprintGuard::new")
    og = gn.origins()
    built = None
    for bi, si, place, rv, line in gn.assigns():
        if rv["r"] == "agg" and rv.get("adt") == FG + "FootprintGuard":
            built = dict(zip(rv["fields"], rv["os"]))
    rep.check(built is not None, "C14.R4", "guard-new:constructs", "guard constructed", "FootprintGuard::new no longer constructs the guard directly", site=gn.loc())
    if built:
        for ff, gf in GUARD_MAP.items():
            toks = side_tokens(gn, built[gf])
            fp_fields = {t[2:] for t in toks if t.startswith("f:") and t[2:] in GUARD_MAP}
            rep.check(fp_fields == {ff}, "C14.R4", "guard-new:%s<-%s" % (gf, ff), "guard.%s is built from footprint.%s" % (gf, ff),
                      "guard.%s is built from footprint fields %s (expected %s)" % (gf, sorted(fp_fields), ff), site=gn.loc())
        wtok = side_tokens(gn, built["warp_id"])
        rep.check("p:2" in wtok, "C14.R4", "guard-new:warp", "guard warp is the constructor argument", "guard warp id derives from %s" % sorted(wtok), site=gn.loc())

    # ---- R5
    ei = prog.fn(PX + "execute_item_enforced")
    ng = ei.call_sites(r"GraphView::<'a>::new_guarded$|GraphView.*::new_guarded$")
    cu = ei.call_sites(r"panic::catch_unwind$")
    rep.check(len(ng) == 1 and len(cu) == 2, "C14.R5", "enforced:anchors", "guarded view + two catch_unwind sites (execute, check)", "new_guarded=%d catch_unwind=%d" % (len(ng), len(cu)), site=ei.loc())
    clos = [prog.fns[c] for c in prog.closures_in(ei.id)]
    exec_cl = [c for c in clos if any("ind" in t["fn"] for bi, t in c.calls())]
    check_cl = [c for c in clos if c.call_sites(r"FootprintGuard::check_op$")]
    rep.check(len(exec_cl) == 1 and len(check_cl) == 1, "C14.R5", "enforced:closures", "one executor closure and one check closure", "executor closures=%d check closures=%d" % (len(exec_cl), len(check_cl)), site=ei.loc())
    if ng and len(cu) == 2 and exec_cl and check_cl:
        # which catch_unwind receives which closure
        ogi = ei.origins()
        by = {}
        for b in cu:
            t = ei.blocks[b]["t"]
            for a in t["args"]:
                for at in ogi.of_operand(a, deep=True):
                    if at.kind == "agg" and at.key[0] == exec_cl[0].id:
                        by["exec"] = b
                    if at.kind == "agg" and at.key[0] == check_cl[0].id:
                        by["check"] = b
        rep.check(set(by) == {"exec", "check"}, "C14.R5", "enforced:closures-under-catch_unwind", "executor and check both run under catch_unwind", "catch_unwind wiring not recognised: %s" % by, site=ei.loc())
        if set(by) == {"exec", "check"}:
            rets = ei.return_blocks()
            w = ei.path([ei.blocks[by["exec"]]["t"]["tgt"]], rets, avoid_blocks=[by["check"]])
            rep.check(w is None, "C14.R5", "enforced:check-runs-after-exec-even-on-panic", "every path from the executor (returned or panicked) to a return passes the write check",
                      "a return is reachable after the executor without running check_op: %s" % ei.describe_path(w), site=ei.loc())
            rep.check(dominates(ei, ng, [by["exec"]]) is None, "C14.R5", "enforced:guarded-view-before-exec", "the guarded view is built before execution", "executor runs before the guarded view is built", site=ei.loc())
        # the executor closure receives the guarded view
        ec = exec_cl[0]
        ogc = ec.origins()
        for bi, t in ec.calls():
            if "ind" in t["fn"]:
                toks = side_tokens(ec, t["args"][0])
                rep.check(any(x.startswith("u:") and "view" in x for x in toks), "C14.R5", "enforced:executor-gets-captured-view", "executor is called with the captured guarded view",
                          "executor view argument derives from %s" % sorted(toks), site=ec.loc())
        # the view captured is the new_guarded result
        for bi, si, place, rv, line in ei.assigns():
            if rv["r"] == "agg" and rv.get("ak") == "closure" and rv["adt"] == exec_cl[0].id:
                m = dict(zip(rv["fields"], rv["os"]))
                vk = [k for k in m if "view" in k]
                okv = vk and any(a.kind == "call" and a.key[1] in ng for a in ogi.of_operand(m[vk[0]], deep=True))
                rep.check(bool(okv), "C14.R5", "enforced:captured-view-is-guarded", "captured view = GraphView::new_guarded(store, guard)", "the executor's view is not the guarded view", site=ei.loc(line))
        # ops checked are delta.ops_ref()[ops_before..]
        cc = check_cl[0]
        rep.check(bool(cc.call_sites(r"TickDelta::ops_ref$")) and any("ops_before" in x for bi, t in cc.calls() for a in t["args"] for x in side_tokens(cc, a)), "C14.R5",
                  "enforced:checks-new-ops-only-from-ops_before", "the checked slice starts at the pre-execution op count", "check closure no longer slices delta.ops_ref() from ops_before", site=cc.loc())
        pd = agg_blocks(ei, "core::result::Result", "Err") + ei.call_sites(r"PoisonedDelta::new$")
        rep.check(len(ei.call_sites(r"PoisonedDelta::new$")) >= 2, "C14.R5", "enforced:violation-poisons", "panic or violation produce a PoisonedDelta", "PoisonedDelta::new sites: %d" % len(ei.call_sites(r"PoisonedDelta::new$")), site=ei.loc())
    ar = prog.fn("warp_core::engine_impl::Engine::apply_reserved_rewrites")
    at_ = ar.call_sites(r"engine_impl::attach_footprint_guards$")
    bw = ar.call_sites(r"exec::build_work_units$")
    ex = ar.call_sites(r"exec::execute_work_queue$")
    rep.check(bool(at_) and bool(bw) and bool(ex) and dominates(ar, bw, at_) is None and dominates(ar, at_, ex) is None, "C14.R5", "wiring:guards-attached-before-execution",
              "build_work_units → attach_footprint_guards → execute_work_queue", "guards are not attached between unit construction and execution", site=ar.loc())
    for b in at_:
        okk, why = result_inspected(ar, b)
        rep.check(okk, "C14.R5", "wiring:attach-result-propagated", why, "attach_footprint_guards result dropped", site=ar.loc())
    # each item is guarded by ITS OWN footprint: the guard-metadata key identifies one rewrite.  Several rewrites may share a
    # scope node in one tick (the scheduler dedupes on (scope, rule)), so a key made of the scope alone lets one rewrite run
    # under another rule's footprint.  Both sides of the lookup must read the rewrite's origin (rule identity) and its scope.
    afg = prog.fn("warp_core::engine_impl::attach_footprint_guards")
    cgm = prog.fn("warp_core::engine_impl::collect_guard_metadata")
    look = set()
    for g in [afg] + [prog.fns[c] for c in prog.closures_in(afg.id)]:
        for b in g.call_sites(r"BTreeMap.*::get$"):
            ats = g.origins().of_operand(g.blocks[b]["t"]["args"][1], deep=True)
            cur, h = ats, g
            while h is not None and h.is_closure():
                cur = resolve_upvars(h, cur, True)
                h = prog.fns.get(h.rec.get("parent"))
            look |= tokens_of_atoms(cur)
    rep.check(bool({"f:origin", "f:rule_id"} & look) and "f:scope" in look, "C14.R5", "wiring:guard-key-identifies-the-rewrite:lookup",
              "guard lookup key reads the item's origin and scope", "attach_footprint_guards looks a guard up by %s: rewrites sharing a scope node share one footprint guard" %
              sorted(x for x in look if x.startswith("f:")), site=afg.loc())
    built = set()
    for g in [cgm] + [prog.fns[c] for c in prog.closures_in(cgm.id)]:
        built |= tokens_of_atoms(g.origins().of_local(0, deep=True))
    rep.check(bool({"f:origin", "f:rule_id"} & built) and "f:scope" in built and "f:footprint" in built, "C14.R5", "wiring:guard-key-identifies-the-rewrite:collect",
              "guard metadata is keyed by (origin, scope) and carries the footprint", "collect_guard_metadata builds entries from %s only" % sorted(x for x in built if x.startswith("f:")), site=cgm.loc())
    want_sys = {prog.consts[k]["val"] for k in ("warp_core::inbox::DISPATCH_INBOX_RULE_NAME", "warp_core::inbox::ACK_PENDING_RULE_NAME") if k in prog.consts}
    sys_names = set()
    for c in [ar] + [prog.fns[x] for x in prog.closures_in(ar.id)]:
        if not c.call_sites(r"ExecItem::new_system$"):
            continue
        for bi, t in c.calls():
            cal = c.callee_of(t) or ""
            if cal.endswith("::eq") and "str" in cal:
                for a in t["args"]:
                    if "k" in a:
                        sys_names.add(a["k"])
    rep.check(len(want_sys) == 2 and sys_names == want_sys, "C14.R5", "wiring:system-flag-from-inbox-rules-only",
              "system rules are exactly the two inbox rules %s" % sorted(sys_names), "rules treated as system: %s (expected the two inbox rule names %s)" % (sorted(sys_names), sorted(want_sys)), site=ar.loc())

    # ---- R6/R7
    mp = prog.fn("warp_core::engine_impl::merge_parallel_deltas")
    trm, ext = tree(prog, [mp])
    rep.check(any("resume_unwind" in e for e in ext), "C14.R6", "merge:poisoned-resumes", "a poisoned delta re-raises the violation", "merge no longer re-raises for poisoned deltas", site=mp.loc())
    pdt = "warp_core::parallel::exec::PoisonedDelta"
    readers = [(f.id, l) for f in prog.fns.values() if f.crate == "warp_core" and not f.rec.get("impl_trait")
               for bi, p, l in places_read_in(f) if any(s[0] == pdt and s[2] in ("_delta", "delta") for s in field_steps(p))]
    rep.check(not readers, "C14.R6", "poisoned:delta-never-read", "PoisonedDelta's delta is never read", "PoisonedDelta's delta is read at %s" % readers[:2], site=pdt)
    wq = prog.fn(PX + "execute_work_queue")
    wcl = [prog.fns[c] for c in prog.closures_in(wq.id)]
    okp = any(agg_blocks(c, PX + "WorkerResult", "Poisoned") and c.call_sites(r"exec::execute_item_enforced$") for c in wcl)
    rep.check(okp, "C14.R6", "worker:poisoned-stops-worker", "a poisoned item ends the worker with WorkerResult::Poisoned", "worker loop no longer returns Poisoned on an enforcement error", site=wq.loc())

    # ---- R8
    appliers, _ = tree(prog, [ap])
    findings = []
    n_mut = 0
    for f in appliers:
        if not f.id.startswith("warp_core::graph::GraphStore::"):
            continue
        og = f.origins()
        for bi, t in f.calls():
            c = f.callee_of(t) or ""
            m = re.search(r"BTreeMap.*::(insert|remove|get_mut|entry)$", c)
            if not m or len(t["args"]) < 2:
                continue
            recv = og.of_operand(t["args"][0], deep=True)
            flds = {s[2] for a in recv for s in a.steps if isinstance(s, tuple) and s[0] == GS}
            obs = flds & OBSERVABLE
            if not obs:
                continue
            n_mut += 1
            key_atoms = og.of_operand(t["args"][1], deep=True)
            store_derived = {s[2] for a in key_atoms for s in a.steps if isinstance(s, tuple) and s[0] == GS}
            if store_derived - {"warp_id"}:
                findings.append((f, t.get("line"), sorted(obs), sorted(store_derived)))
    rep.check(n_mut >= 10, "C14.R8", "key-provenance:sites", "%d observable map mutations examined" % n_mut, "only %d observable map mutations found" % n_mut, site=GS)
    seen = set()
    for f, line, obs, sd in findings:
        key = "key-provenance:%s:%s" % (f.name, "+".join(obs))
        if key in seen:
            continue
        seen.add(key)
        rep.bad("C14.R8", key, "GraphStore::%s mutates observable %s at a key read from the store (%s): the location cannot be derived from the operation alone, so "
                               "op_write_targets cannot attribute it (an edge re-parented by UpsertEdge changes the adjacency of its previous source node)" % (f.name, obs, sd), site=f.loc(line))
    if not findings:
        rep.ok("C14.R8", "key-provenance:all-op-derived", "every observable mutation is keyed by operation-derived values", site=GS)
