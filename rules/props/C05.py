"""C05 — history is hash-chained and tamper-evident."""
from ..prims import *
from ..guards import check_strength, check_zip_lengths, check_whole_sequence
from ..guards import find_guard
from ..baselines import baseline

EXPLANATION = (
    "Structural necessary conditions of C05: (R1) the commit id hashes every one of its inputs (state root, each parent "
    "and the parent count, patch digest, policy id) under its domain tag; (R2) the receipt digest covers every receipt "
    "entry field; (R3) the re-verification table: in replay, checkpoint admission, append, and boundary-transition "
    "validation each listed comparison exists between the right two values, feeds a branch, and its rejecting side "
    "constructs the typed error and cannot reach a success return; (R4) every rejection variant constructed today on those "
    "paths stays constructible; (R5) chain-link fields of a provenance entry are compared on append; (R6) the parents "
    "recorded for a local commit come from the worldline tip read in the same scheduler pass. That every single-field "
    "alteration is detected is NOT decided (collision resistance assumed)."
    ' Round 2: for every gate row the rejection RELATION (==, !=, <, ..) is the confirmed one and no new value test decides whether the gate runs (guard strength).'
    ' A validation loop driven by `zip` is accompanied by a comparison of the two lengths.'
    ' Round 4: a validation function of the gate table does not narrow the sequence it validates by a computed amount (skip(n)/take(n)/[n..]/split_at(n)): the elements outside the window would be accepted unexamined.'
)
ASSUMPTIONS = ["BLAKE3 collision resistance", "the patch digest coverage is decided in C04.R4"]
FLOOR = 70

PS = "warp_core::provenance_store::"
RE = PS + "ReplayError"
HE = PS + "HistoryError"
BE = PS + "BtrError"
UPD = r"blake3::Hasher::update$"

# (function, enum, variant, tokens side A, tokens side B)   — confirmed by reading provenance_store.rs
GUARDS = [
    (PS + "advance_replay_state", RE, "StateRootMismatch", {"c:compute_state_root_for_warp_state"}, {"f:expected", "f:state_root"}),
    (PS + "advance_replay_state", RE, "CommitHashMismatch", {"c:compute_commit_hash_v2"}, {"f:expected", "f:commit_hash"}),
    (PS + "replay_artifacts_for_entry", RE, "PatchDigestMismatch", {"f:expected", "f:patch_digest", "p:2"}, {"f:patch_digest", "p:3"}),
    (PS + "replay_artifacts_for_entry", RE, "PatchDigestMismatch", {"c:digest", "c:new", "f:ops"}, {"f:patch_digest", "p:3"}),
    (PS + "replay_artifacts_for_entry", RE, "ReceiptTxMismatch", {"c:tx", "f:tick_receipt"}, {"c:checked_add", "f:worldline_tick"}),
    (PS + "replay_artifacts_for_entry", RE, "ReceiptDigestMismatch", {"c:digest", "f:tick_receipt"}, {"f:decision_digest", "f:header"}),
    (PS + "replay_worldline_state_at_from_provenance", HE, "HistoryUnavailable", {"p:4"}, {"c:len"}),
    (PS + "restore_replay_base", RE, "CheckpointStateRootMismatch", {"f:state_hash"}, {"c:expected_state_root_at_materialized_tick"}),
    (PS + "restore_replay_base", RE, "CheckpointStateRootMismatch", {"c:state_root", "f:state"}, {"c:expected_state_root_at_materialized_tick"}),
    (PS + "validate_replay_base", RE, "ReplayBaseWarpMismatch", {"c:root", "f:warp_id"}, {"c:u0"}),
    (PS + "validate_replay_base", RE, "InitialBoundaryHashMismatch", {"c:compute_state_root_for_warp_state", "c:initial_state"}, {"c:initial_boundary_hash"}),
    (PS + "validate_checkpoint_for_history", HE, "HistoryUnavailable", {"f:checkpoint", "f:worldline_tick"}, {"c:len", "f:entries"}),
    (PS + "validate_checkpoint_for_history", HE, "CheckpointRootWarpMismatch", {"c:root", "f:warp_id"}, {"f:u0_ref"}),
    (PS + "validate_checkpoint_for_history", HE, "CheckpointInitialBoundaryHashMismatch", {"c:compute_state_root_for_warp_state"}, {"f:initial_boundary_hash"}),
    (PS + "validate_checkpoint_for_history", HE, "CheckpointStateRootMismatch", {"c:state_root", "f:state"}, {"f:state_hash"}),
    (PS + "validate_checkpoint_for_history", HE, "CheckpointStateRootMismatch", {"c:state_root", "f:state"}, {"c:expected_state_root_for_checkpoint"}),
    (PS + "validate_checkpoint_for_history", HE, "CheckpointReplayMetadataMismatch", {"f:tick_history", "c:len"}, {"f:worldline_tick", "f:checkpoint"}),
    (PS + "validate_checkpoint_for_history", HE, "CheckpointReplayMetadataMismatch", {"f:tx_counter"}, {"f:worldline_tick", "f:checkpoint"}),
    (PS + "validate_checkpoint_for_history", HE, "CheckpointReplayMetadataMismatch", {"f:last_materialization"}, {"c:finalized_channels"}),
    (PS + "LocalProvenanceStore::validate_shared_entry", HE, "EntryWorldlineMismatch", {"f:worldline_id", "p:4"}, {"p:2"}),
    (PS + "LocalProvenanceStore::validate_shared_entry", HE, "TickGap", {"f:worldline_tick", "p:4"}, {"p:3"}),
    (PS + "LocalProvenanceStore::validate_shared_entry", HE, "ParentCommitHashMismatch", {"f:expected", "f:commit_hash", "c:get"}, {"f:parents", "f:commit_hash"}),
    (PS + "LocalProvenanceStore::validate_local_commit_entry", HE, "HeadWorldlineMismatch", {"f:head_key", "f:worldline_id"}, {"f:worldline_id"}),
    (PS + "LocalProvenanceStore::validate_local_commit_entry", HE, "LocalCommitReceiptTxMismatch", {"c:tx", "f:tick_receipt"}, {"c:checked_add", "f:worldline_tick"}),
    (PS + "LocalProvenanceStore::validate_local_commit_entry", HE, "LocalCommitReceiptDigestMismatch", {"c:digest", "f:tick_receipt"}, {"f:decision_digest"}),
    (PS + "BtrPayload::validate", BE, "MixedWorldline", {"c:first", "f:entries", "f:worldline_id"}, {"f:worldline_id"}),
    (PS + "BtrPayload::validate", BE, "NonContiguousTicks", {"c:first", "f:entries", "f:worldline_tick"}, {"f:start_worldline_tick"}),
    (PS + "BtrPayload::validate", BE, "MixedWorldline", {"c:next", "f:entries", "f:worldline_id"}, {"f:worldline_id"}),
    (PS + "BtrPayload::validate", BE, "NonContiguousTicks", {"c:next", "f:entries", "f:worldline_tick"}, {"c:checked_increment"}),
    (PS + "BoundaryTransitionRecord::validate", BE, "WorldlineMismatch", {"f:payload", "f:worldline_id"}, {"f:worldline_id"}),
    (PS + "BoundaryTransitionRecord::validate", BE, "OutputBoundaryHashMismatch", {"f:output_boundary_hash"}, {"c:last", "f:expected", "f:state_root"}),
    (PS + "ProvenanceService::validate_btr", BE, "U0RefMismatch", {"f:u0_ref", "p:2"}, {"f:u0_ref", "c:get"}),
    (PS + "ProvenanceService::validate_btr", BE, "InputBoundaryHashMismatch", {"f:input_boundary_hash"}, {"f:initial_boundary_hash"}),
]

ENTRY_TREES = {
    "replay": [PS + "replay_worldline_state_at_from_provenance", "warp_core::playback::PlaybackCursor::seek_to"],
    "checkpoint": [PS + "LocalProvenanceStore::add_checkpoint"],
    "append": ["<warp_core::provenance_store::LocalProvenanceStore as warp_core::provenance_store::ProvenanceStore>::append_local_commit",
               "<warp_core::provenance_store::LocalProvenanceStore as warp_core::provenance_store::ProvenanceStore>::append_recorded_event"],
    "btr": [PS + "ProvenanceService::validate_btr"],
}
TREE_ENUMS = {"replay": [RE, HE], "checkpoint": [HE, RE], "append": [HE], "btr": [BE]}


def run(ctx):
    rep = ctx.report
    prog = ctx.prog("trusted")
    rep.rule("C05.R1", "A3 commit id covers all of its inputs, domain-tagged")
    rep.rule("C05.R2", "A3 receipt digest covers every TickReceiptEntry field; disposition codes distinct")
    rep.rule("C05.R3", "A2 re-verification table: comparison exists, uses the right two values, gates acceptance")
    rep.rule("C05.R4", "A11 every rejection variant constructed on the verification paths stays live")
    rep.rule("C05.R5", "A12 chain-link fields of ProvenanceEntry are compared on append")
    rep.rule("C05.R6", "A1 parents of a local commit come from the tip read in the same pass")

    # ---- R1
    ch = prog.fn("warp_core::snapshot::compute_commit_hash_v2")
    og = ch.origins()
    reached = {}
    for bb in ch.call_sites(UPD):
        for at in og.of_operand(ch.blocks[bb]["t"]["args"][1], deep=True):
            if at.kind == "param":
                reached.setdefault(at.key, []).append(bb)
    names = {1: "state_root", 2: "parents", 3: "patch_digest", 4: "policy_id"}
    for i in range(1, ch.argc + 1):
        rep.check(i in reached, "C05.R1", "commit-id-covers:%s" % names.get(i, i), "parameter reaches the hasher",
                  "commit id does not hash its %s input" % names.get(i, i), site=ch.loc())
    # parents: both the count (len) and each element
    plen = any(any(a.kind == "call" and a.key[0].endswith("::len") for a in og.of_operand(ch.blocks[bb]["t"]["args"][1], deep=True))
               and any(a.kind == "param" and a.key == 2 for a in og.of_operand(ch.blocks[bb]["t"]["args"][1], deep=True)) for bb in ch.call_sites(UPD))
    pel = any(any(a.kind == "call" and a.key[0].endswith("::next") for a in og.of_operand(ch.blocks[bb]["t"]["args"][1], deep=True)) for bb in ch.call_sites(UPD))
    rep.check(plen and pel, "C05.R1", "commit-id-covers:parent-count-and-each", "parent count and each parent hashed",
              "commit id hashes parents incompletely (count=%s, each=%s)" % (plen, pel), site=ch.loc())
    rep.check("warp_core::domain::COMMIT_ID_V2" in const_defs_into(ch, UPD), "C05.R1", "commit-id:domain-tag", "domain tag hashed",
              "commit id lost its domain tag", site=ch.loc())

    # ---- R2
    rd = prog.fn("warp_core::receipt::compute_tick_receipt_digest")
    trr, _ = tree(prog, [rd])
    cov, ns = sink_field_atoms(trr, UPD)
    covn = {(a.rsplit("::", 1)[-1], f) for (a, v, f) in cov} | {(a.rsplit("::", 1)[-1], f) for (a, v, f) in control_field_atoms(trr, UPD)}
    ent = prog.adt("warp_core::receipt::TickReceiptEntry")
    for f in ent["variants"][0]["fields"]:
        rep.check(("TickReceiptEntry", f["n"]) in covn, "C05.R2", "receipt-digest-covers:TickReceiptEntry.%s" % f["n"], "hashed",
                  "receipt digest does not cover TickReceiptEntry.%s" % f["n"], site=rd.loc())
    codes = set()
    for f in trr:
        if f.name in ("code", "disposition_code", "tag") or f is rd or "disposition" in f.id.lower():
            for bi, si, place, rv, line in f.assigns():
                if rv["r"] == "use" and "k" in rv["o"] and rv["o"].get("ty") == "u8":
                    v = const_int(rv["o"])
                    if v is not None:
                        codes.add(v)
    rep.check(len(codes) >= 3, "C05.R2", "receipt-digest:disposition-codes", "disposition codes %s are distinct constants" % sorted(codes),
              "fewer than 3 distinct disposition codes found: %s" % sorted(codes), site=rd.loc())

    # ---- R3
    seen = {}
    _zip_done = set()
    _seq_done = set()
    for (path, enum, variant, ta, tb) in GUARDS:
        f = prog.fn(path)
        st, detail = find_guard(prog, f, enum, variant, ta, tb)
        n = seen.get((path, variant), 0)
        seen[(path, variant)] = n + 1
        key = "guard:%s:%s:%s~%s" % (f.name, variant, "+".join(sorted(ta)), "+".join(sorted(tb)))
        rep.check(st == "ok", "C05.R3", key, detail, "%s — %s" % (st, detail), site=f.loc())
        if st == "ok":
            check_strength(rep, "C05.R3", key, "C05", prog, f, enum, variant, ta, tb)
        check_zip_lengths(rep, "C05.R3", prog, f, _zip_done)
        check_whole_sequence(rep, "C05.R3", prog, f, _seq_done)
    # the verification functions are actually on the entry paths
    must_reach = {
        "replay": [PS + "validate_replay_base", PS + "restore_replay_base", PS + "advance_replay_state", PS + "replay_artifacts_for_entry"],
        "checkpoint": [PS + "validate_checkpoint_for_history"],
        "append": [PS + "LocalProvenanceStore::validate_shared_entry", PS + "LocalProvenanceStore::validate_local_commit_entry",
                   PS + "LocalProvenanceStore::validate_recorded_event_entry"],
        "btr": [PS + "BoundaryTransitionRecord::validate", PS + "BtrPayload::validate"],
    }
    trees = {}
    for name, entries in ENTRY_TREES.items():
        fns, _ = tree(prog, [prog.fn(e) for e in entries])
        trees[name] = fns
        ids = {f.id for f in fns}
        for m in must_reach[name]:
            rep.check(prog.fn(m).id in ids, "C05.R3", "wired:%s:%s" % (name, m.rsplit("::", 1)[-1]), "validator is on the %s path" % name,
                      "%s is no longer reachable from the %s entry points" % (m, name), site=m)
    # results of validators are propagated at their call sites
    for name, fns in trees.items():
        for f in fns:
            for bb in f.call_sites(r"provenance_store::(validate_\w+|restore_replay_base|advance_replay_state|replay_artifacts_for_entry)$|::validate_(shared|local_commit|recorded_event)_entry$|BtrPayload::validate$|BoundaryTransitionRecord::validate$"):
                okk, why = result_inspected(f, bb)
                callee = (f.callee_of(f.blocks[bb]["t"]) or "").rsplit("::", 1)[-1]
                rep.check(okk, "C05.R3", "propagated:%s@%s" % (callee, f.id.replace("warp_core::", "")), why,
                          "result of %s dropped in %s" % (callee, f.id), site=f.loc(f.block_line(bb)))
    # append: validation dominates the push
    for e in ENTRY_TREES["append"]:
        f = prog.fn(e)
        val = f.call_sites(r"::validate_(local_commit|recorded_event)_entry$")
        push = f.call_sites(r"Vec.*::push$")
        rep.check(bool(val) and bool(push) and dominates(f, val, push) is None, "C05.R3", "append:%s:validate-before-push" % f.name,
                  "entry is validated before it is appended", "append can push without validation", site=f.loc())

    # ---- R4
    for name, fns in trees.items():
        for enum in TREE_ENUMS[name]:
            live = constructed_variants(fns, enum)
            base = baseline("C05.%s.%s" % (name, enum.rsplit("::", 1)[-1]), sorted(live))
            for v in base:
                rep.check(v in live, "C05.R4", "live:%s:%s::%s" % (name, enum.rsplit("::", 1)[-1], v), "still constructed",
                          "%s::%s is no longer constructed on the %s verification path (a check was removed)" % (enum, v, name), site=fns[0].loc())

    # ---- R5 link fields compared on append
    vs = prog.fn(PS + "LocalProvenanceStore::validate_shared_entry")
    vl = prog.fn(PS + "LocalProvenanceStore::validate_local_commit_entry")
    compared = set()
    for f in (vs, vl) + tuple(prog.fns[c] for c in prog.closures_in(vs.id) + prog.closures_in(vl.id)):
        ogf = f.origins()
        for (bb, kind, a, b, res, line) in comparisons(f):
            for o in (a, b):
                for at in ogf.of_operand(o, deep=True):
                    for s in at.steps:
                        if isinstance(s, tuple) and s[0].startswith("warp_core::"):
                            compared.add((s[0].rsplit("::", 1)[-1], s[2]))
    for w in [("ProvenanceEntry", "worldline_id"), ("ProvenanceEntry", "worldline_tick"), ("ProvenanceEntry", "parents"), ("ProvenanceRef", "commit_hash"),
              ("ProvenanceEntry", "head_key"), ("ProvenanceEntry", "tick_receipt")]:
        rep.check(w in compared, "C05.R5", "link-compared:%s.%s" % w, "compared on append", "%s.%s is never compared when an entry is appended" % w, site=vs.loc())
    # canonical parent order check present
    rep.check("NonCanonicalParents" in constructed_variants([vs] + [prog.fns[c] for c in prog.closures_in(vs.id)], HE), "C05.R5", "parents:canonical-order",
              "non-canonical parent order is rejected", "parent order check removed", site=vs.loc())

    # ---- R6
    st = prog.fn("warp_core::coordinator::SchedulerCoordinator::super_tick_inner")
    bodies = [st] + [prog.fns[c] for c in prog.closures_in(st.id)]
    ok6 = False
    for b in bodies:
        lc = b.call_sites(r"ProvenanceEntry::local_commit$")
        if not lc:
            continue
        ogb = b.origins()
        for bb in lc:
            t = b.blocks[bb]["t"]
            for a in t["args"]:
                if any(at.kind == "call" and at.key[0].endswith("tip_ref") for at in ogb.of_operand(a, deep=True)):
                    ok6 = True
    rep.check(ok6, "C05.R6", "local-commit:parents-from-tip", "parents of the committed entry derive from provenance.tip_ref",
              "no ProvenanceEntry::local_commit whose parents derive from tip_ref was found in the scheduler pass", site=st.loc())
