"""C08 — ingress is content-addressed, idempotent and order-free."""
from ..prims import *
from ..guards import find_guard, side_tokens

EXPLANATION = (
    "Structural necessary conditions of C08: (R1) the ingress id is a pure function of exactly (kind, bytes, causal "
    "parents): all three reach the hasher, each parent role has its own tag, nothing else is an input, and every "
    "IngressEnvelope is constructed with an id produced by that function (or re-verified); the canonical-id assertion "
    "dominates inbox insertion; (R2) pending and committed ingress live in ordered containers keyed by the content id; "
    "(R3) at-most-once: an id already committed on the head can never reach the inbox or the submission log, an "
    "occupied pending slot is never overwritten, a batch skips repeated ids, committed ids are recorded from the "
    "admitted batch; (R4) duplicate handling is read-only; (R5) causal parents are sorted and de-duplicated before "
    "hashing. Equality of committed ticks across arrival orders is NOT decided."
    ' Replaying a persisted receipt correlation re-records the committed ingress on every success path.'
    ' Round 5: (R3) HeadInbox::ingest is called only by WorldlineRuntime::ingest, i.e. only behind the committed-ingress gate (who-may-call); (R5) causal parents are sorted and de-duplicated by their own total order, not through a projection that lets different parents tie.'
)
ASSUMPTIONS = ["BLAKE3 collision resistance", "BTreeMap/BTreeSet iterate in key order"]
FLOOR = 35

HI = "warp_core::head_inbox::"
CO = "warp_core::coordinator::"
UPD = r"blake3::Hasher::update$"


def run(ctx):
    rep = ctx.report
    prog = ctx.prog("trusted")
    rep.rule("C08.R1", "A3/A8/A9 compute_ingress_id: inputs = (kind, bytes, parents), all hashed, role tags distinct, pure; constructor monopoly")
    rep.rule("C08.R2", "A8 ordered containers keyed by the content id")
    rep.rule("C08.R3", "A1/A2 at-most-once gates")
    rep.rule("C08.R4", "A8/A4 duplicate paths are read-only")
    rep.rule("C08.R5", "A1 causal parents sorted + deduped before hashing")

    ci = prog.fn(HI + "compute_ingress_id")
    ptys = fn_param_tys(ci)
    rep.check(len(ptys) == 3 and "IntentKind" in ptys[0] and ptys[1] == "&[u8]" and "IngressCausalParent" in ptys[2], "C08.R1", "ingress-id:signature",
              "inputs are exactly (kind, bytes, causal parents)", "compute_ingress_id takes %s (routing target or other inputs would change identity)" % ptys, site=ci.loc())
    og = ci.origins()
    oks_by_param = {}
    rets = ci.return_blocks()
    upd = ci.call_sites(UPD)
    # two branches: causal / plain; find the branch switch on is_empty
    ie = ci.call_sites(r"::is_empty$")
    rep.check(len(ie) == 1, "C08.R1", "ingress-id:branch", "one branch on causal_parents.is_empty()", "is_empty branch sites: %d" % len(ie), site=ci.loc())
    branches = {}
    if ie:
        pe = presence_edges(ci, ie[0])  # true = empty
        for label, edges, other in (("plain", pe["present"], pe["absent"]), ("causal", pe["absent"], pe["present"])):
            blocks = set()
            for (sw, tgt) in edges:
                blocks |= ci.reachable([tgt], avoid_edges=set(other))
            branches[label] = blocks
    for label, blocks in branches.items():
        reached = set()
        for bb in upd:
            if bb in blocks:
                for at in og.of_operand(ci.blocks[bb]["t"]["args"][1], deep=True):
                    if at.kind == "param":
                        reached.add(at.key)
        want = {1, 2} if label == "plain" else {1, 2, 3}
        rep.check(want <= reached, "C08.R1", "ingress-id:%s-branch-covers-inputs" % label, "branch hashes params %s" % sorted(reached),
                  "the %s branch hashes only params %s of (kind, bytes, parents)" % (label, sorted(reached)), site=ci.loc())
    tags = set()
    for k in const_bytes_into(ci, UPD):
        m = re.match(r'(?:const )?b"(.*)"$', k or "")
        if m:
            tags.add(m.group(1))
    rep.check(len(tags) >= 4, "C08.R1", "ingress-id:domain-and-role-tags", "distinct domain/role tags %s" % sorted(tags),
              "expected >=4 distinct tag constants (2 domains + one per parent role), found %s" % sorted(tags), site=ci.loc())
    icp = HI + "IngressCausalParent"
    nvar = len(prog.adt(icp)["variants"])
    for bb, missing, arms in match_absorbed(ci, icp):
        rep.check(not missing and len(arms) == nvar, "C08.R1", "ingress-id:parent-roles-total", "every parent role has its own arm",
                  "parent roles %s share a wildcard arm (roles would collapse)" % sorted(missing), site=ci.loc())
    rep.check(len(tags) >= 2 + nvar, "C08.R1", "ingress-id:one-tag-per-role", "%d roles, %d tags" % (nvar, len(tags)), "fewer tags than parent roles", site=ci.loc())
    hits, n1, n2 = reach_forbidden(prog, [ci], NONDET)
    rep.check(not hits, "C08.R1", "ingress-id:pure", "no ambient input reachable", "compute_ingress_id reaches %s" % [h[0] for h in hits[:2]], site=ci.loc())
    # constructor monopoly
    env = HI + "IngressEnvelope"
    n_cons = 0
    for f in prog.fns.values():
        if not f.crate.startswith(("warp_core", "warp_wasm", "echo_")):
            continue
        if f.rec.get("impl_trait", "").endswith("Clone"):
            continue
        for bi, si, place, rv, line in f.assigns():
            if rv["r"] == "agg" and rv.get("adt") == env:
                n_cons += 1
                m = dict(zip(rv["fields"], rv["os"]))
                ats = f.origins().of_operand(m["ingress_id"], deep=True)
                from_fn = any(a.kind == "call" and a.key[0].endswith("compute_ingress_id") for a in ats)
                verified = bool(f.call_sites(r"compute_ingress_id$|expected_ingress_id$"))
                rep.check(from_fn or verified, "C08.R1", "envelope-constructed:%s" % f.id.replace("warp_core::", ""),
                          "ingress_id comes from compute_ingress_id" if from_fn else "constructor recomputes/verifies the id",
                          "IngressEnvelope built with an ingress_id that is neither computed nor verified by compute_ingress_id", site=f.loc(line))
    rep.check(n_cons >= 1, "C08.R1", "envelope-constructed:sites", "%d construction sites" % n_cons, "no IngressEnvelope construction found", site=env)
    vis = {f["n"]: f["vis"] for f in prog.adt(env)["variants"][0]["fields"]}
    rep.check(vis.get("ingress_id") != "pub", "C08.R1", "envelope:id-field-private", "ingress_id field is not public", "IngressEnvelope.ingress_id is public", site=env)
    ing = prog.fn(HI + "HeadInbox::ingest")
    asr = ing.call_sites(r"assert_canonical_ingress_id$")
    ins = ing.call_sites(r"VacantEntry.*::insert$|BTreeMap.*::insert$")
    rep.check(bool(asr) and bool(ins) and dominates(ing, asr, ins) is None, "C08.R1", "inbox-ingest:canonical-id-asserted-first",
              "assert_canonical_ingress_id dominates the insertion", "inbox insertion reachable without the canonical-id assertion", site=ing.loc())
    ac = prog.fn(HI + "IngressEnvelope::assert_canonical_ingress_id")
    tra, ext = tree(prog, [ac])
    rep.check(any(f.id.endswith("compute_ingress_id") for f in tra), "C08.R1", "canonical-assert:recomputes", "assertion recomputes the id",
              "assert_canonical_ingress_id no longer recomputes the id", site=ac.loc())

    # ---- R2
    hb = prog.adt(HI + "HeadInbox")
    pend = [f["ty"] for f in hb["variants"][0]["fields"] if f["n"] == "pending"]
    rep.check(bool(pend) and pend[0].startswith("std::collections::BTreeMap<[u8; 32], warp_core::head_inbox::IngressEnvelope"), "C08.R2", "HeadInbox.pending:type",
              pend[0] if pend else "", "HeadInbox.pending is %s" % pend, site=HI + "HeadInbox")
    wsa = prog.adt("warp_core::worldline_state::WorldlineState")
    cit = [f["ty"] for f in wsa["variants"][0]["fields"] if f["n"] == "committed_ingress"]
    rep.check(bool(cit) and cit[0].startswith("std::collections::BTreeSet<(") and "WriterHeadKey" in cit[0], "C08.R2", "WorldlineState.committed_ingress:type",
              cit[0] if cit else "", "committed_ingress is %s" % cit, site="warp_core::worldline_state::WorldlineState")
    for nm in ("admit", "admit_partitioned"):
        f = prog.fn_opt(HI + "HeadInbox::" + nm)
        if f is None:
            continue
        bodies = [f] + [prog.fns[c] for c in prog.closures_in(f.id)]
        reads_pending = any(any(s[2] == "pending" for s in field_steps(p)) for b in bodies for bi, p, l in places_read_in(b))
        hits, _, _ = reach_forbidden(prog, [f], NONDET)
        rep.check(reads_pending and not hits and not any(b.call_sites(r"::sort|::shuffle|::reverse$") for b in bodies), "C08.R2", "inbox-%s:order-from-pending" % nm,
                  "admitted batch order derives from the ordered pending map only", "%s reorders or reads ambient state" % nm, site=f.loc())

    # ---- R3
    for path, sinks, label in ((CO + "WorldlineRuntime::ingest", r"HeadInbox::ingest$|WorldlineRuntime::record_witnessed_submission$", "runtime-ingest"),
                               (CO + "WorldlineRuntime::submit_intent_inner", r"WorldlineRuntime::record_witnessed_submission$", "submit-intent")):
        f = prog.fn(path)
        gs = f.call_sites(r"Option.*::is_some_and$")
        gs = [g for g in gs if any(prog.fns[c].call_sites(r"contains_committed_ingress$") for c in prog.closures_in(f.id))]
        sk = f.call_sites(sinks)
        rep.check(bool(gs) and bool(sk), "C08.R3", "%s:anchors" % label, "committed-ingress gate and inbox/submission sinks present",
                  "gate=%d sinks=%d" % (len(gs), len(sk)), site=f.loc())
        gated = False
        for g in gs:
            pe = presence_edges(f, g)
            for (sw, tgt) in pe["present"]:
                w = f.path([tgt], sk, avoid_edges=set(pe["absent"]))
                if w is None and dominates(f, [g], sk) is None:
                    gated = True
        rep.check(gated, "C08.R3", "%s:committed-id-never-re-enters" % label, "an id already committed on the head cannot reach the inbox / submission log",
                  "the committed-ingress check does not gate the inbox/submission sinks", site=f.loc())
        for c in prog.closures_in(f.id):
            cf = prog.fns[c]
            for bb in cf.call_sites(r"contains_committed_ingress$"):
                t = cf.blocks[bb]["t"]
                ta = side_tokens(cf, t["args"][1])
                tb = side_tokens(cf, t["args"][2])
                rep.check(any("head_key" in x for x in ta) and any("ingress_id" in x for x in tb), "C08.R3", "%s:gate-operands" % label,
                          "gate tests (head_key, ingress_id)", "gate operands are %s / %s" % (sorted(ta), sorted(tb)), site=cf.loc())
    # who may put an envelope into a head inbox: only WorldlineRuntime::ingest, whose committed-ingress gate is decided above.  Any
    # other caller (a "the route is already resolved" shortcut) bypasses the committed set: a committed intent is staged again.
    inbox_callers = sorted({g.id for g in prog.fns.values() if g.crate == "warp_core" and "::tests" not in g.id
                            and any(b["t"]["t"] == "call" and (g.callee_of(b["t"]) or "").endswith("HeadInbox::ingest") for b in g.blocks)})
    rt_ing = prog.fn(CO + "WorldlineRuntime::ingest").id
    extra = [c for c in inbox_callers if c != rt_ing]
    rep.check(rt_ing in inbox_callers and not extra, "C08.R3", "inbox-ingest:only-through-the-committed-gate", "HeadInbox::ingest is called only by WorldlineRuntime::ingest",
              "HeadInbox::ingest is also called by %s, which does not pass the committed-ingress gate of WorldlineRuntime::ingest: an intent already committed on that head can be "
              "staged and committed again" % [c.replace("warp_core::", "") for c in extra][:3], site=extra[0] if extra else rt_ing)
    # occupied slot never overwritten
    esw = [b for b, blk in enumerate(ing.blocks) if blk["t"]["t"] == "sw" and any(st[0] == "a" and st[2]["r"] == "disc" and "btree_map::Entry" in st[2].get("adt", "") for st in blk["st"])]
    ok_occ = False
    for b in esw:
        t = ing.blocks[b]["t"]
        tg = [x[1] for x in t["v"]] + [t["ow"]]
        tg = [x for x in tg if ing.blocks[x]["t"]["t"] != "unreachable"]
        reach_ins = [x for x in tg if ins and any(i in ing.reachable([x]) for i in ins)]
        if len(tg) >= 2 and len(reach_ins) == 1:
            ok_occ = True
    rep.check(ok_occ, "C08.R3", "inbox-ingest:occupied-not-overwritten", "only the vacant arm inserts", "the occupied arm can insert / no Entry match found", site=ing.loc())
    live = constructed_variants([ing], HI + "InboxIngestResult")
    rep.check({"Accepted", "Duplicate", "Rejected"} <= set(live), "C08.R3", "inbox-ingest:outcomes-live", "Accepted/Duplicate/Rejected all produced",
              "ingest outcomes produced: %s" % sorted(live), site=ing.loc())
    # batch skips repeated ids
    cws = prog.fn("warp_core::engine_impl::Engine::commit_with_state")
    cl = [prog.fns[c] for c in prog.closures_in(cws.id)]
    skipped = False
    for c in cl:
        si = c.call_sites(r"BTreeSet.*::insert$")
        mat = c.call_sites(r"materialize_runtime_ingress_event$")
        for s in si:
            pe = presence_edges(c, s)
            for (sw, tgt) in pe["absent"]:
                if mat and c.path([tgt], mat, avoid_edges=set(pe["present"]), avoid_blocks=loop_heads(c)) is None:
                    skipped = True
    rep.check(skipped, "C08.R3", "commit-batch:repeated-id-skipped", "an envelope whose id was already seen in the batch is skipped",
              "commit_with_state no longer skips a repeated ingress id", site=cws.loc())
    st = prog.fn(CO + "SchedulerCoordinator::super_tick_inner")
    recs = [(c, b) for c in [prog.fns[x] for x in prog.closures_in(st.id)] for b in c.call_sites(r"record_committed_ingress$")]
    rep.check(len(recs) == 1, "C08.R3", "pass:records-committed-ingress", "the pass records committed ingress once per head", "record_committed_ingress sites: %d" % len(recs), site=st.loc())
    for c, b in recs:
        t = c.blocks[b]["t"]
        tk = side_tokens(c, t["args"][2])
        rep.check(any(x.startswith("u:") and x.endswith("admitted") for x in tk), "C08.R3", "pass:committed-ids-from-admitted", "recorded ids derive from the admitted batch",
                  "recorded ids do not derive from the admitted batch: %s" % sorted(tk), site=c.loc())
    # ... and recovery re-records it: replaying a persisted receipt correlation refills the committed-ingress ledger on EVERY
    # success path (the frontier it refills may just have been replaced by a provenance replay whose ledger is empty)
    rrc = prog.fn(CO + "WorldlineRuntime::restore_receipt_correlation")
    rsites = rrc.call_sites(r"record_committed_ingress$")
    oks_r = ok_return_blocks(rrc)[0]
    rep.check(len(rsites) >= 1 and bool(oks_r), "C08.R3", "recovery:re-records-committed-ingress:anchors", "restore_receipt_correlation records committed ingress",
              "restore_receipt_correlation no longer records committed ingress (%d sites)" % len(rsites), site=rrc.loc())
    if rsites and oks_r:
        w_ = rrc.path([0], oks_r, avoid_blocks=rsites)
        rep.check(w_ is None, "C08.R3", "recovery:every-success-re-records-committed-ingress", "every Ok return passes record_committed_ingress",
                  "restore_receipt_correlation can return Ok without re-recording the committed ingress (%s): after a recovery replay over a live runtime a retried intent is accepted and "
                  "committed a second time" % rrc.describe_path(w_), site=rrc.loc())
    # the committed-ingress ledger survives a rolled-back pass: the pre-pass checkpoint copies it from the live state
    from .C09 import checkpoint_copy_rules
    checkpoint_copy_rules(rep, prog, "C08.R3", only_fields={"committed_ingress"})
    tk_inner = prog.fn(CO + "WorldlineRuntime::ingest_ticketed_invocation_inner")
    st_, detail = find_guard(prog, tk_inner, CO + "RuntimeError", "TicketedIngressSubmissionMismatch", {"f:ingress_id", "c:get"}, {"c:ingress_id", "p:4"})
    rep.check(st_ == "ok", "C08.R3", "ticketed:submission-binding", detail, "%s — %s" % (st_, detail), site=tk_inner.loc())
    live_t = constructed_variants([tk_inner], CO + "RuntimeError")
    for v in ("TicketedIngressAlreadyStaged", "TicketedIngressDuplicateRuntimeIngress", "UnknownIntentSubmission"):
        rep.check(v in live_t, "C08.R3", "ticketed:live:%s" % v, "rejection live", "ticketed ingest no longer rejects with %s" % v, site=tk_inner.loc())

    # ---- R4
    dup = prog.fn(CO + "WorldlineRuntime::duplicate_submission_record")
    rep.check(fn_param_tys(dup)[0].startswith("&warp_core"), "C08.R4", "duplicate-record:shared-borrow", "duplicate_submission_record takes &self",
              "duplicate_submission_record takes %s" % fn_param_tys(dup)[0], site=dup.loc())
    for path in (CO + "WorldlineRuntime::ingest", CO + "WorldlineRuntime::submit_intent_inner"):
        f = prog.fn(path)
        dups = agg_blocks(f, CO + "IngressDisposition", "Duplicate") + agg_blocks(f, CO + "IntentSubmissionDisposition", "Duplicate")
        rep.check(bool(dups), "C08.R4", "%s:duplicate-disposition" % f.name, "Duplicate disposition produced", "no Duplicate disposition in %s" % f.name, site=f.loc())

    # ---- R5
    lc = prog.fn(HI + "IngressEnvelope::local_intent_with_causal_parents")
    srt = lc.call_sites(r"::sort_unstable$|::sort$|::sort_unstable_by|::sort_by")
    ded = lc.call_sites(r"::dedup$|::dedup_by")
    cmp_ = lc.call_sites(r"compute_ingress_id$")
    rep.check(bool(srt) and bool(ded) and bool(cmp_) and dominates(lc, srt, cmp_) is None and dominates(lc, ded, cmp_) is None and dominates(lc, srt, ded) is None,
              "C08.R5", "envelope:parents-sorted-deduped-before-hash", "sort, dedup, then hash", "causal parents are hashed without sort+dedup first", site=lc.loc())
    # the canonical order must be a TOTAL order on the whole parent (kind and reference): a key that lets two different parents tie
    # leaves their order to the caller and lets `dedup` miss a repeat, so the same parent set hashes to different ids
    whole_sort = lc.call_sites(r"\]>::sort(_unstable)?$|::sort(_unstable)?$")
    whole_dedup = lc.call_sites(r"::dedup$")
    keyed = lc.call_sites(r"::sort(_unstable)?_by(_key|_cached_key)?$|::dedup_by(_key)?$")
    rep.check(bool(whole_sort) and bool(whole_dedup) and not keyed, "C08.R5", "envelope:parents-ordered-by-their-whole-value", "sort and dedup use the parents' own total order",
              "causal parents are sorted/deduplicated through a projection (%s): parents that differ outside the projected key tie, so the stored order — and the ingress id — depends on "
              "the order the caller listed them in" % [(lc.callee_of(lc.blocks[b]["t"]) or "").rsplit("::", 1)[-1] for b in keyed][:2], site=lc.loc())
