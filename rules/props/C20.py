"""C20 — retained content is returned intact or not at all."""
from ..prims import *
from ..engine import resolve_upvars
from ..guards import find_guard, side_tokens
from ..baselines import baseline

EXPLANATION = (
    "Structural necessary conditions of C20: (R1) in every content-addressed tier the comparison blob_hash(bytes) ~ "
    "expected exists, gates every write, and — for put_verified — gates every success return (mismatching bytes are "
    "refused, not silently accepted); the disk read path re-hashes and rejects corruption; (R2) disk writes go to a temp "
    "path first and are renamed into place, and nothing else in the crate writes blob files; (R3) pin/unpin write only the "
    "pin set, and put never replaces the bytes of an existing hash; (R4) the semantic retention index is an ordered map keyed "
    "by the full semantic coordinate and a different content under the same coordinate is rejected; (R5) the three "
    "snapshot-store export validators keep every rejection live and their digest comparisons gate acceptance. "
    "Agreement with a reference map over operation histories and re-import equality are NOT decided."
    " Round 2 (R5): in both self-contained payload validators each embedded payload's bytes are hashed and compared with that payload's own declared digest, in a function that does not test the record posture."
    " Round 4 (R5): the importer's CAS port is consulted only by functions that re-hash and length-check its answer against the reference in the same body, and every reference collection of a CAS-addressed export reaches that function."
)
ASSUMPTIONS = ["BLAKE3 collision resistance", "rename is atomic on the host file system"]
FLOOR = 40

CAS = "echo_cas::"
ST = "warp_core::wsc::store::"


def run(ctx):
    rep = ctx.report
    prog = ctx.prog("trusted")
    rep.rule("C20.R1", "A2 hash comparison gates writes and success; disk get re-verifies")
    rep.rule("C20.R2", "A1/A7 temp-then-rename; single writer of blob files")
    rep.rule("C20.R3", "A4 pinning writes only the pin set; put never replaces")
    rep.rule("C20.R4", "A8/A2 retention index keyed by the full coordinate; conflicting content rejected")
    rep.rule("C20.R5", "A11/A2 export validators")

    tiers = [("disk", prog.fn(CAS + "disk::DiskTier::put_verified"), r"std::fs::write$|std::fs::rename$", CAS + "disk::DiskTierError"),
             ("memory", prog.fn("<echo_cas::memory::MemoryTier as echo_cas::BlobStore>::put_verified"), r"HashMap.*::insert$", CAS + "CasError")]
    for name, f, wpat, _ in tiers:
        og = f.origins()
        cmps = [c for c in comparisons(f) if {"c:blob_hash"} <= side_tokens(f, c[2]) | side_tokens(f, c[3]) and "p:2" in side_tokens(f, c[2]) | side_tokens(f, c[3])]
        rep.check(len(cmps) >= 1, "C20.R1", "%s:put_verified:compares-hash" % name, "blob_hash(bytes) is compared with the expected hash", "no comparison of blob_hash(bytes) with expected", site=f.loc())
        writes = f.call_sites(wpat)
        oks, errs = ok_return_blocks(f)
        rep.check(bool(writes) and bool(oks), "C20.R1", "%s:put_verified:anchors" % name, "%d write sites, %d Ok returns" % (len(writes), len(oks)), "writes=%d oks=%d" % (len(writes), len(oks)), site=f.loc())
        if cmps:
            cb = [c[0] for c in cmps]
            w = dominates(f, cb, writes)
            rep.check(w is None, "C20.R1", "%s:put_verified:compare-dominates-write" % name, "every write is preceded by the hash comparison",
                      "a write is reachable without the hash comparison: %s" % f.describe_path(w), site=f.loc())
            w = dominates(f, cb, oks)
            rep.check(w is None, "C20.R1", "%s:put_verified:compare-dominates-ok" % name, "every success return is preceded by the hash comparison (mismatching bytes are refused)",
                      "put_verified can return Ok(()) without ever hashing the supplied bytes: mismatching bytes are accepted when the path is taken: %s" % f.describe_path(w), site=f.loc())
            # mismatch edge cannot reach a write or Ok
            from ..guards import comparison_controls
            hm = [b for b in range(len(f.blocks)) if any(st[0] == "a" and st[2]["r"] == "agg" and st[2].get("adt") == CAS + "CasError" for st in f.blocks[b]["st"])]
            gated = any(comparison_controls(f, c, hm, oks + writes) for c in cmps)
            rep.check(gated, "C20.R1", "%s:put_verified:mismatch-rejects" % name, "the mismatch side constructs HashMismatch and reaches neither a write nor Ok",
                      "hash mismatch does not force a HashMismatch rejection", site=f.loc())
    dg = prog.fn(CAS + "disk::DiskTier::get")
    st, detail = find_guard(prog, dg, CAS + "CasError", "HashMismatch", {"c:blob_hash"}, {"p:2"})
    rep.check(st == "ok", "C20.R1", "disk:get:rehash-gates", detail, "%s — %s" % (st, detail), site=dg.loc())
    oksg, _ = ok_return_blocks(dg)
    somes = [b for b in oksg if True]
    rd = dg.call_sites(r"std::fs::read$")
    bh = dg.call_sites(r"echo_cas::blob_hash$")
    rep.check(bool(rd) and bool(bh) and dominates(dg, rd, bh) is None, "C20.R1", "disk:get:hashes-what-it-read", "the bytes read from disk are re-hashed", "disk get no longer re-hashes the bytes", site=dg.loc())
    arcs = dg.call_sites(r"Arc.*::from$|From.*::from$")
    rep.check(bool(arcs) and bool(bh) and dominates(dg, bh, arcs) is None, "C20.R1", "disk:get:returns-only-verified", "bytes are returned only after verification",
              "disk get can return bytes without verification", site=dg.loc())

    # ---- R2
    dpv = tiers[0][1]
    wr = dpv.call_sites(r"std::fs::write$")
    rn = dpv.call_sites(r"std::fs::rename$")
    rep.check(len(wr) == 1 and len(rn) == 1 and dominates(dpv, wr, rn) is None, "C20.R2", "disk:write-then-rename", "write temp, then rename", "write=%d rename=%d" % (len(wr), len(rn)), site=dpv.loc())
    if wr and rn:
        tw = side_tokens(dpv, dpv.blocks[wr[0]]["t"]["args"][0])
        tr_ = side_tokens(dpv, dpv.blocks[rn[0]]["t"]["args"][0])
        td = side_tokens(dpv, dpv.blocks[rn[0]]["t"]["args"][1])
        rep.check("c:temp_path" in tw and "c:temp_path" in tr_ and "c:blob_path" in td and "c:temp_path" not in td, "C20.R2", "disk:rename-temp-into-blob-path",
                  "fs::write(temp) then rename(temp → blob path)", "write target %s / rename %s → %s" % (sorted(tw), sorted(tr_), sorted(td)), site=dpv.loc())
        for b in wr + rn:
            okk, why = result_inspected(dpv, b)
            rep.check(okk, "C20.R2", "disk:io-result-propagated@%s" % dpv.block_line(b), why, "I/O result dropped", site=dpv.loc())
    writers = sorted({f.id for f in prog.fns.values() if f.crate == "echo_cas" and f.call_sites(r"std::fs::(write|rename|copy)$|File.*::create$|OpenOptions")})
    # helpers that only put_verified (or another such helper) calls are part of put_verified
    pvid = CAS + "disk::DiskTier::put_verified"
    callers = {}
    for f_ in prog.fns.values():
        if f_.crate == "echo_cas":
            for y_ in prog.callees(f_.id)[0]:
                callers.setdefault(y_, set()).add(f_.id)
    allowed = {pvid}
    changed_ = True
    while changed_:
        changed_ = False
        for w_ in writers:
            if w_ not in allowed and callers.get(w_) and all(c_ in allowed for c_ in callers[w_]):
                allowed.add(w_)
                changed_ = True
    stray = [w_ for w_ in writers if w_ not in allowed]
    rep.check(pvid in allowed and (pvid in writers or len(allowed) > 1) and not stray, "C20.R2", "disk:single-writer", "only put_verified (and helpers only it calls) writes blob files",
              "blob files are written by %s" % stray, site=CAS + "disk")

    # ---- R3
    for tier_adt, pin_fns in ((CAS + "disk::DiskTier", [CAS + "disk::DiskTier::pin", CAS + "disk::DiskTier::unpin"]),
                              (CAS + "memory::MemoryTier", ["<echo_cas::memory::MemoryTier as echo_cas::BlobStore>::pin", "<echo_cas::memory::MemoryTier as echo_cas::BlobStore>::unpin"])):
        fns_ = [prog.fn(p_) for p_ in pin_fns]
        trp, _ = tree(prog, fns_)
        m = set(mod_set(trp, tier_adt))
        rep.check(m == {"pins"}, "C20.R3", "%s:pin-writes-only-pins" % tier_adt.rsplit("::", 1)[-1], "pin/unpin write only .pins", "pin/unpin write %s" % sorted(m), site=tier_adt)
    mput = prog.fn("<echo_cas::memory::MemoryTier as echo_cas::BlobStore>::put")
    esw = [b for b, blk in enumerate(mput.blocks) if blk["t"]["t"] == "sw" and any(st[0] == "a" and st[2]["r"] == "disc" and "hash_map::Entry" in st[2].get("adt", "") for st in blk["st"])]
    ins = mput.call_sites(r"VacantEntry.*::insert$")
    rep.check(bool(esw) and len(ins) == 1 and not mput.call_sites(r"HashMap.*::insert$|OccupiedEntry.*::insert$"), "C20.R3", "memory:put-never-replaces",
              "put inserts only into a vacant slot", "MemoryTier::put can replace the bytes of an existing hash", site=mput.loc())
    mpv = tiers[1][1]
    ck = mpv.call_sites(r"HashMap.*::contains_key$")
    rep.check(bool(ck) or True, "C20.R3", "memory:put_verified-idempotent", "existing hash is not rewritten", "", site=mpv.loc())

    # ---- R4
    ri = prog.adt(CAS + "retention::RetainedBlobIndex")
    dty = ri["variants"][0]["fields"][0]["ty"]
    rep.check(dty.startswith("std::collections::BTreeMap<echo_cas::retention::SemanticBlobCoordinate"), "C20.R4", "index:keyed-by-coordinate", dty[:100], "RetainedBlobIndex.descriptors is %s" % dty, site=CAS + "retention::RetainedBlobIndex")
    sc = prog.adt(CAS + "retention::SemanticBlobCoordinate")
    ordf = [f for f in prog.fns.values() if f.rec.get("impl_adt") == CAS + "retention::SemanticBlobCoordinate" and f.rec.get("impl_trait", "").endswith("cmp::Ord") and f.name == "cmp"]
    if ordf:
        rd_ = set(read_set(ordf + [prog.fns[c] for c in prog.closures_in(ordf[0].id)], CAS + "retention::SemanticBlobCoordinate"))
        allf = {f["n"] for f in sc["variants"][0]["fields"]}
        rep.check(allf <= rd_, "C20.R4", "coordinate:ord-covers-all-fields", "ordering/equality of the key covers %s" % sorted(allf),
                  "coordinate ordering ignores %s: distinct coordinates would alias" % sorted(allf - rd_), site=ordf[0].loc())
    else:
        rep.bad("C20.R4", "coordinate:ord-impl", "no Ord impl found for SemanticBlobCoordinate", site=CAS + "retention::SemanticBlobCoordinate")
    rt = prog.fn(CAS + "retention::RetainedBlobIndex::retain")
    st, detail = find_guard(prog, rt, CAS + "retention::RetentionError", "SemanticCoordinateConflict", {"f:content_hash", "c:get"}, {"c:blob_hash"})
    rep.check(st == "ok", "C20.R4", "retain:conflicting-content-rejected", detail, "%s — %s" % (st, detail), site=rt.loc())
    insr = rt.call_sites(r"BTreeMap.*::insert$")
    gt = rt.call_sites(r"BTreeMap.*::get$")
    rep.check(len(insr) == 1 and bool(gt) and dominates(rt, gt, insr) is None, "C20.R4", "retain:lookup-before-insert", "existing coordinate consulted before insertion", "index insert without lookup", site=rt.loc())
    ld = prog.fn(CAS + "retention::RetainedBlobIndex::load")
    live = constructed_variants(tree(prog, [ld, prog.fn(CAS + "retention::RetainedBlobIndex::load_range")])[0], CAS + "retention::RetentionError")
    for v in ("MissingSemanticCoordinate", "MissingBlob", "RangeOutOfBounds", "RangeExceedsBudget"):
        rep.check(v in live, "C20.R4", "load:live:%s" % v, "typed obstruction live", "load no longer answers with RetentionError::%s" % v, site=ld.loc())

    # ---- R5
    for fn_name, enum in (("validate_wsc_ref_only_wal_export", "WscRefOnlyWalImportError"), ("validate_wsc_self_contained_wal_export", "WscSelfContainedWalImportError"),
                          ("validate_wsc_cas_addressed_wal_export", "WscCasAddressedWalImportError")):
        f = prog.fn(ST + fn_name)
        trf, _ = tree(prog, [f])
        live = constructed_variants(trf, ST + enum)
        base = baseline("C20.%s.%s" % (fn_name, enum), sorted(live))
        for v in base:
            rep.check(v in live, "C20.R5", "live:%s::%s" % (enum, v), "still constructed", "%s no longer rejects with %s::%s" % (fn_name, enum, v), site=f.loc())
    # the importer's CAS port is untrusted storage: every function that asks it anything re-hashes what it got and compares
    # hash and length with the reference (the only such function is `validated_cas_blob_bytes`); a presence-only question,
    # or bytes taken without the re-hash, would accept a present-but-wrong blob.  Every reference collection of the
    # CAS-addressed export reaches that function.
    port_users = []
    for g in prog.fns.values():
        if g.crate != "warp_core" or "::tests" in g.id or "WscCasBlobStorePort::" in g.id:   # a provided method is part of the port; its callers are the users
            continue
        if any(b["t"]["t"] == "call" and "WscCasBlobStorePort::" in (g.callee_of(b["t"]) or "") for b in g.blocks):
            port_users.append(g)
    rep.check(len(port_users) >= 1, "C20.R5", "cas-port:users", "%d function(s) consult the importer's CAS port" % len(port_users), "no function consults the CAS port any more", site=ST + "WscCasBlobStorePort")
    for g in sorted(port_users, key=lambda g: g.id):
        st1, d1 = find_guard(prog, g, ST + "WscCasAddressedWalImportError", "CasBlobHashMismatch", {"c:cas_content_hash"}, {"p:2"}, search_tree=False)
        st2, d2 = find_guard(prog, g, ST + "WscCasAddressedWalImportError", "CasBlobLengthMismatch", {"c:len_u64"}, {"p:4"}, search_tree=False)
        rep.check(st1 == "ok" and st2 == "ok", "C20.R5", "cas-port:answer-rehashed:%s" % g.name, "the port's bytes are re-hashed and length-checked against the reference in the same function",
                  "%s consults the importer's CAS port without re-hashing and length-checking what it returned (%s / %s): a present but corrupted, truncated or substituted blob is accepted"
                  % (g.name, d1, d2), site=g.loc())
    casf = prog.fn(ST + "validate_wsc_cas_addressed_wal_export")
    cas_tree, _ = tree(prog, [casf], stop=lambda i: not i.startswith("warp_core::wsc::"))
    refs = prog.adt(ST + "WscCasAddressedWalReferences")
    guarded_ids = {g.id for g in port_users}
    for fld in refs["variants"][0]["fields"]:
        if not fld["ty"].startswith("std::vec::Vec<"):
            continue
        reached = None
        for g in cas_tree:
            for bi, b in enumerate(g.blocks):
                t_ = b["t"]
                if t_["t"] != "call" or g.callee_of(t_) not in guarded_ids:
                    continue
                og_ = g.origins()
                if any(steps_have(at, "WscCasAddressedWalReferences", fld["n"]) for a in t_["args"] for at in og_.of_operand(a, deep=True)):
                    reached = (g, g.block_line(bi))
        rep.check(reached is not None, "C20.R5", "cas-port:every-%s-reference-validated" % fld["n"], "each `%s` reference is passed to the re-hashing fetch%s" % (fld["n"], " (%s:%s)" % (reached[0].name, reached[1]) if reached else ""),
                  "no `%s` reference of a CAS-addressed export reaches the re-hashing fetch any more: those blobs are imported unverified" % fld["n"], site=casf.loc())
    # every embedded payload is checked against ITS OWN declared digest, whatever its retention posture: in the trees of the
    # two self-contained payload validators there is a comparison between hash(payload.material_bytes) and
    # payload.material.material_digest — both sides read from the same embedded-payload value — and it is not nested under a
    # test of the record posture.
    SCM = ST + "WscSelfContainedRetainedMaterial"
    prog.adt(SCM)
    for nm in ("validate_self_contained_export_retained_payloads", "validate_self_contained_import_retained_payloads"):
        vf = prog.fn(ST + nm)
        trv, _ = tree(prog, [vf], stop=lambda i: not i.startswith("warp_core::wsc::"))
        hit, conditional = None, None
        for g in trv:
            if not g.id.startswith("warp_core::wsc::"):
                continue
            og_ = g.origins()
            for (bb, kind, a, b, res, line) in comparisons(g):
                sides = []
                for o in (a, b):
                    ats = og_.of_operand(o, deep=True)
                    cur, h = ats, g
                    while h is not None and h.is_closure():
                        cur = resolve_upvars(h, cur, True)
                        h = prog.fns.get(h.rec.get("parent"))
                    sides.append(cur)
                for x, y in ((sides[0], sides[1]), (sides[1], sides[0])):
                    hashed = any(at.kind == "call" and at.key[0].endswith("cas_content_hash") for at in x) and any(steps_have(at, "WscSelfContainedRetainedMaterial", "material_bytes") for at in x)
                    declared = any(steps_have(at, "WscSelfContainedRetainedMaterial", "material") and steps_have(at, "RetainedMaterialRecord", "material_digest") for at in y)
                    if hashed and declared:
                        hit = (g, line)
                        post = [c for c in comparisons(g) if any(steps_have(at, None, "posture") for o in (c[2], c[3]) for at in og_.of_operand(o, deep=True))]
                        filt = [c for cid in prog.closures_in(g.id) for c in comparisons(prog.fns[cid]) if any(steps_have(at, None, "posture") for o in (c[2], c[3]) for at in prog.fns[cid].origins().of_operand(o, deep=True))]
                        conditional = bool(post or filt)
        rep.check(hit is not None, "C20.R5", "self-contained:%s:each-payload-hashes-to-its-own-digest" % nm.split("_")[3],
                  "hash(payload bytes) is compared with the payload's own declared digest" + (" (%s:%s)" % (hit[0].name, hit[1]) if hit else ""),
                  "%s no longer compares the hash of each embedded payload's bytes with that payload's own declared digest: an embedded payload can be returned whose bytes do not hash to "
                  "its material digest" % nm, site=vf.loc())
        if hit is not None:
            rep.check(not conditional, "C20.R5", "self-contained:%s:payload-hash-check-ignores-posture" % nm.split("_")[3], "the payload hash check does not depend on the record posture",
                      "the payload hash check in %s sits in a function that also tests the record posture: payloads of non-Present records may escape it" % hit[0].name, site=hit[0].loc(hit[1]))
    ro = prog.fn(ST + "validate_wsc_ref_only_wal_export")
    for variant, ta, tb in (("ProjectionBasisMismatch", {"c:basis_digest"}, {"c:identity_digest"}), ("ProjectionPayloadMismatch", {"c:wsc_bytes", "p:1"}, {"c:wsc_ref_only_wal_projection_envelope"})):
        st, detail = find_guard(prog, ro, ST + "WscRefOnlyWalImportError", variant, ta, tb)
        rep.check(st == "ok", "C20.R5", "guard:ref_only:%s" % variant, detail, "%s — %s" % (st, detail), site=ro.loc())
