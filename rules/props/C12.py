"""C12 — canonical encodings are bijective (structural clauses)."""
from ..prims import *
from ..guards import side_tokens, find_guard, tokens_of_atoms
from ..baselines import baseline

EXPLANATION = (
    "Structural necessary conditions of C12, over every writer/reader pair discovered in the workspace (types with "
    "to_payload_bytes/from_payload_bytes, to_canonical_bytes/from_canonical_bytes, encode/decode, code/from_code, "
    "tag/from_tag): (R1) writer coverage — every field of the record reaches the encoder output; reader coverage — every "
    "field of the reconstructed record derives from the input cursor, never from a constant the writer does not write; "
    "(R2) tag tables agree — the writer's variant→code map is injective and the reader's code→variant map is its exact "
    "inverse; (R3) minimal-form thresholds of the ABI CBOR writer equal the reader's over-wide rejections; (R4) "
    "canonicality gates exist and gate: trailing bytes, map-key order and duplicates, tags/indefinite/unknown simple values, "
    "the float-width ladder, and every cursor-based reader calls finish() and propagates it before returning Ok; (R5) no "
    "unordered iteration reaches an encoder and map keys are sorted before emission. decode(encode(v)) == v and "
    "'accepted ⇒ canonical' as equalities over all byte strings are NOT decided."
    " Round 2: (R6) every byte-tag dispatch of the decoders is closed — unlisted tag values reach only errors (frozen list of 55 dispatchers); (R7) a decoder that sorts/deduplicates what it decoded also rejects non-canonical input; (R3) the reader's float-fit predicates say 'does not fit' only through the writer's round-trip equality, NaN has one spelling on the read side too, and every narrowing cast in the integer width ladder is range-bounded."
)
ASSUMPTIONS = ["third-party codecs (ciborium, minicbor, serde) are deterministic", "round-trip equality is value-level"]
FLOOR = 150

PAIRS = (("to_payload_bytes", "from_payload_bytes"), ("to_canonical_bytes", "from_canonical_bytes"), ("to_retained_bytes", "from_retained_bytes"),
         ("encode", "decode"))
TAGS = (("code", "from_code"), ("tag", "from_tag"))
# fields a writer legitimately does not emit: reason
WRITER_EXEMPT = {("warp_core::wsc::store::WscStoreEnvelope", "id"): "the id is the digest of the encoded envelope (recomputed by decode), not part of it"}
READER_CONST_OK = {}


def discover(prog):
    by = defaultdict(dict)
    for f in prog.fns.values():
        a = f.rec.get("impl_adt")
        if a and not f.rec.get("impl_trait") and not f.is_closure() and a.split("::")[0] in ("warp_core", "echo_wasm_abi", "echo_edict_canonical", "echo_scene_codec", "echo_cas"):
            by[a][f.name] = f
    recs, tags = [], []
    for a, m in sorted(by.items()):
        for w, r in PAIRS:
            if w in m and r in m:
                recs.append((a, m[w], m[r]))
        for w, r in TAGS:
            if w in m and r in m:
                tags.append((a, m[w], m[r]))
    return recs, tags


def code_map(fn, adt_path, depth=0):
    """variant -> integer constant returned, from the switch on self's discriminant."""
    out = {}
    sws = enum_switches(fn, adt_path)
    if not sws:
        # delegation (`self.stable_code()`) or a single-variant enum (no discriminant switch)
        for bi, t in fn.calls():
            c = fn.callee_of(t) or ""
            if c in fn.prog.fns and c != fn.id and fn.prog.fns[c].rec.get("impl_adt") == adt_path and depth < 2:
                sub = code_map(fn.prog.fns[c], adt_path, depth + 1)
                if sub:
                    return sub
        variants = [v["n"] for v in fn.prog.adt(adt_path)["variants"]]
        if len(variants) == 1:
            vals = {const_int(rv["o"]) for bi, si, place, rv, line in fn.assigns() if place[0] == 0 and not place[1] and rv["r"] == "use" and const_int(rv["o"]) is not None}
            if len(vals) == 1:
                return {variants[0]: vals.pop()}
        return out
    bb, arms, ow, _ = sws[0]
    targets = set(arms.values())
    for v, tgt in arms.items():
        others = [x for x in targets if x != tgt]
        reach = fn.reachable([tgt], avoid_blocks=others)
        vals = set()
        for b in reach:
            for st in fn.blocks[b]["st"]:
                if st[0] == "a" and st[1][0] == 0 and not st[1][1] and st[2]["r"] == "use":
                    c = const_int(st[2]["o"])
                    if c is not None:
                        vals.add(c)
        if len(vals) == 1:
            out[v] = vals.pop()
    return out


def from_code_map(fn, adt_path):
    """integer -> variant constructed, from the switch on the integer parameter."""
    out = {}
    og = fn.origins()
    for bi, b in enumerate(fn.blocks):
        t = b["t"]
        if t["t"] != "sw" or len(t["v"]) < 1:
            continue
        if not any(a.kind == "param" and a.key == 1 for a in og.of_operand(t["o"])):
            continue
        targets = {x[1] for x in t["v"]} | {t["ow"]}
        for val, tgt in t["v"]:
            others = [x for x in targets if x != tgt]
            reach = fn.reachable([tgt], avoid_blocks=others)
            vs = set()
            sub = [type("B", (), {})]
            cv = constructed_variants([_Sub(fn, reach)], adt_path)
            vs = set(cv)
            if len(vs) == 1:
                out[int(val)] = vs.pop()
        break
    return out


class _Sub:
    """View of a function restricted to a block subset (for constructed_variants)."""
    def __init__(self, fn, blocks):
        self.id = fn.id
        self.blocks = [b if i in blocks else {"cl": True, "st": [], "t": {"t": "unreachable"}} for i, b in enumerate(fn.blocks)]


TAG_CRATES = ("warp_core", "echo_wasm_abi", "echo_scene_codec", "echo_edict_canonical", "echo_cas", "echo_graph", "echo_runtime_schema")
TAG_TYS = ("u8", "u16")


def closed_tag_dispatch(prog, rep):
    """R6.  The decoders' tag readers (optional-presence bytes, enum codes, record kinds, CBOR majors) are `match tag {
    k1 => .., k2 => .., other => Err(..) }`.  Frozen on the pinned tree: the functions that test a u8/u16 value against
    constants and whose all-default path reaches no success value.  Each must stay that way: a default arm that decodes
    (`0 => None, _ => Some(read())`) accepts 255 spellings of one value — the encoding is no longer bijective."""
    cur = {}
    import os
    for f in (prog.fns.values() if os.environ.get("ECHO_VERIF_REBASELINE") == "1" else ()):
        if f.crate not in TAG_CRATES or f.is_closure():
            continue
        sp = f.rec["span"]["f"]
        if "::tests::" in f.id or sp.endswith("_tests.rs") or "/tests/" in sp or "_serde::" in f.id:
            continue
        raw = f.rec.get("_raw")
        if raw is not None and '"t":"sw"' not in raw:
            continue
        r = open_tag_dispatches(f, TAG_TYS)
        if r is None:
            continue
        cur[f.id] = r
    closed_now = sorted(k for k, v in cur.items() if not v)
    frozen = baseline("C12.closed-tag-dispatch", closed_now)
    rep.check(len(frozen) >= 40, "C12.R6", "closed-dispatch:floor", "%d closed tag dispatchers confirmed" % len(frozen), "only %d closed tag dispatchers in the frozen list" % len(frozen), site="workspace")
    for fid in frozen:
        f = prog.fn_opt(fid)
        if f is None:
            rep.bad("C12.R6", "closed-dispatch:%s" % fid.replace("warp_core::", ""), "tag-dispatching decoder function %s no longer exists: its closed dispatch cannot be re-established" % fid, site=fid)
            continue
        r = open_tag_dispatches(f, TAG_TYS)
        if r is None:
            rep.bad("C12.R6", "closed-dispatch:%s" % fid.replace("warp_core::", ""), "%s no longer tests its tag against the listed constants (dispatch moved or removed): unknown tags are not provably rejected" % f.name, site=f.loc())
        else:
            rep.check(not r, "C12.R6", "closed-dispatch:%s" % fid.replace("warp_core::", ""), "unlisted tag values reach only errors",
                      "an unlisted tag value is accepted: values %s explicit, default path reaches a success value via %s" % ((r[0][1] if r else ""), f.describe_path(r[0][2]) if r else ""), site=f.loc())


DECODER_NAME = re.compile(r"from_payload_bytes$|from_retained_bytes(_v\d)?$|from_canonical_bytes$|^decode_\w+_v\d$|^decode_canonical\w*$")
NORMALISERS = r"::sort(_by|_by_key|_unstable|_unstable_by|_unstable_by_key)?$|::dedup(_by|_by_key)?$"
CANON_ERR = re.compile(r"NonCanonical|NotCanonical|Unsorted|OutOfOrder|KeyOrder")


def normalising_decoders(prog, rep):
    """R7.  A decoder of a canonical-form codec that SORTS or DEDUPLICATES what it decoded turns several byte strings into one
    value; that is only lawful if it also rejects the inputs it would have changed.  Every such decoder must, in its own
    tree, either raise a canonicality error (a `NonCanonical*`-style variant) or compare a re-encoding with its input."""
    n = 0
    reenc_now = []
    for f in sorted(prog.fns.values(), key=lambda f: f.id):
        if f.is_closure() or not f.crate.startswith(("warp_core", "echo_")) or not DECODER_NAME.search(f.name):
            continue
        if "/tests/" in f.file or f.file.endswith("_tests.rs") or "::tests::" in f.id:
            continue
        # the decoder, its closures and the workspace helpers it reaches within three calls
        seen_, frontier = {f.id}, [f.id]
        for _d in range(3):
            nxt = []
            for x in frontier:
                for y in prog.callees(x)[0]:
                    if y not in seen_ and y.startswith(("warp_core", "echo_")):
                        seen_.add(y)
                        nxt.append(y)
            frontier = nxt
        fns = [prog.fns[i] for i in sorted(seen_)]
        norm = [(g.name, g.block_line(b)) for g in fns for b in g.call_sites(NORMALISERS)]
        if not norm:
            continue
        n += 1
        gate = set()
        for g in fns:
            for bi, si, place, rv, line in g.assigns():
                if rv["r"] == "agg" and rv.get("var") and CANON_ERR.search(rv["var"]):
                    gate.add(rv["var"])
            for bi, t in g.calls():
                for o in t["args"]:
                    if "k" in o and CANON_ERR.search(str(o.get("k", ""))):
                        gate.add(str(o["k"]).rsplit("::", 1)[-1])
        reenc = False
        for g in [f] + [prog.fns[c] for c in prog.closures_in(f.id)]:
            og = g.origins()
            for c in comparisons(g):
                ta, tb = tokens_of_atoms(og.of_operand(c[2], deep=True)), tokens_of_atoms(og.of_operand(c[3], deep=True))

                def enc(t):
                    return any(re.search(r"^c:(to_\w*bytes\w*|encode\w*|\w+_bytes_v\d)$", x) for x in t)
                if (enc(ta) and "p:1" in tb) or (enc(tb) and "p:1" in ta):
                    reenc = True
        if reenc:
            reenc_now.append(f.id)
        rep.check(bool(gate) or reenc, "C12.R7", "normalising-decoder:%s" % f.id.replace("warp_core::", ""),
                  "normalises (%s) and rejects non-canonical input (%s)" % (norm[0][0], "re-encode compare" if reenc else (sorted(gate) or ["-"])[0]),
                  "%s sorts/deduplicates what it decoded (%s:%s) but never rejects: an input in another order is accepted and normalised, so it does not re-encode to itself and two byte "
                  "strings name one value" % (f.name, norm[0][0], norm[0][1]), site=f.loc())
    # the strongest canonicality gate — decode, re-encode, compare with the input — stays where it was confirmed: replacing it by
    # a narrower test (a length, a flag) re-opens every normalisation the narrower test does not see
    frozen = baseline("C12.reencode-gates", sorted(reenc_now))
    for fid in frozen:
        rep.check(fid in reenc_now, "C12.R7", "reencode-gate-kept:%s" % fid.replace("warp_core::", ""), "accepted bytes are compared with their re-encoding",
                  "%s no longer compares the re-encoding of what it decoded with its input: inputs that its constructor normalises (e.g. a different order of a sorted set) are accepted" % fid, site=fid)
    rep.check(n >= 5, "C12.R7", "normalising-decoders:count", "%d normalising decoders examined" % n, "only %d normalising decoders found" % n, site="workspace")


def run(ctx):
    rep = ctx.report
    prog = ctx.prog("trusted")
    rep.rule("C12.R1", "A3 writer coverage / reader coverage per codec pair (obligations from ADT definitions)")
    rep.rule("C12.R2", "A10 tag tables: writer map injective, reader map its inverse")
    rep.rule("C12.R3", "A10 minimal-form thresholds agree between CBOR writer and reader")
    rep.rule("C12.R4", "A2/A1 canonicality gates; finish() before Ok")
    rep.rule("C12.R5", "A1/A9 encoder determinism premises")
    rep.rule("C12.R6", "closed tag dispatch: every byte-tag test of the decoders leads, for unlisted values, only to a typed error (no normalisation of unknown tags)")

    closed_tag_dispatch(prog, rep)
    rep.rule("C12.R7", "a decoder that sorts or deduplicates what it decoded also rejects the inputs it would have changed (canonicality error or re-encode compare)")
    normalising_decoders(prog, rep)
    recs, tags = discover(prog)
    rep.check(len(recs) >= 25 and len(tags) >= 12, "C12.R1", "pairs:discovered", "%d record codec pairs, %d tag pairs" % (len(recs), len(tags)),
              "only %d record pairs / %d tag pairs discovered" % (len(recs), len(tags)), site="workspace")
    # ---- R1
    for adt_path, w, r in recs:
        adt = prog.adt(adt_path)
        short = adt_path.rsplit("::", 1)[-1]
        if adt["kind"] != "struct":
            continue
        names, allf, ns = writer_coverage(prog, w, adt_path)
        for fld in allf:
            if (adt_path, fld) in WRITER_EXEMPT:
                rep.ok("C12.R1", "writer-covers:%s.%s:exempt" % (short, fld), WRITER_EXEMPT[(adt_path, fld)], site=w.loc())
                continue
            rep.check(fld in names, "C12.R1", "writer-covers:%s.%s" % (short, fld), "reaches the encoder output",
                      "%s::%s never writes field %s: two values differing only there encode identically" % (short, w.name, fld), site=w.loc())
        # reader: every constructed field derives from the input
        rtree, _ = tree(prog, [r])
        built = None
        for g in rtree:
            for bi, si, place, rv, line in g.assigns():
                if rv["r"] == "agg" and rv.get("adt") == adt_path:
                    built = (g, dict(zip(rv["fields"], rv["os"])), line)
                    break
            if built:
                break
        if built is None:
            continue
        g, m, line = built
        for fld, o in m.items():
            no = near_origins(g, o)
            from_input = any(x[0] in ("call", "param") for x in no)
            fty = next((f_["ty"] for f_ in adt["variants"][0]["fields"] if f_["n"] == fld), "")
            inner = re.sub(r"^std::option::Option<(.*)>$", r"\1", fty)
            if not from_input and inner in prog.adts and prog.adts[inner]["kind"] == "enum":
                continue  # enum-valued field selected by control dependence on a decoded tag (covered by R2 for tag tables)
            if not from_input and (adt_path, fld) in READER_CONST_OK:
                continue
            rep.check(from_input, "C12.R1", "reader-derives:%s.%s" % (short, fld), "derives from the input",
                      "%s::%s fills field %s from a constant (%s) although the writer emits it: decode(encode(v)) loses the field" % (short, r.name, fld, sorted(str(x[1])[:30] for x in no)[:2]),
                      site=g.loc(line))

    # ---- R2
    for adt_path, w, r in tags:
        short = adt_path.rsplit("::", 1)[-1]
        adt = prog.adt(adt_path)
        variants = [v["n"] for v in adt["variants"]]
        cm = code_map(w, adt_path)
        fm = from_code_map(r, adt_path)
        rep.check(set(cm) == set(variants), "C12.R2", "tags:%s:writer-total" % short, "%s() maps all %d variants" % (w.name, len(variants)),
                  "%s::%s maps only %s of %s" % (short, w.name, sorted(cm), variants), site=w.loc())
        rep.check(len(set(cm.values())) == len(cm), "C12.R2", "tags:%s:writer-injective" % short, "codes %s are pairwise distinct" % sorted(cm.values()),
                  "%s::%s assigns the same code to two variants: %s" % (short, w.name, cm), site=w.loc())
        for v, c in sorted(cm.items()):
            rep.check(fm.get(c) == v, "C12.R2", "tags:%s:%s<->%s" % (short, v, c), "reader maps %s back to %s" % (c, v),
                      "%s: writer encodes %s as %s but the reader maps %s to %s" % (short, v, c, c, fm.get(c)), site=r.loc())
        extra = set(fm) - set(cm.values())
        rep.check(not extra, "C12.R2", "tags:%s:reader-no-extra" % short, "reader accepts exactly the written codes", "%s::%s accepts codes %s the writer never emits" % (short, r.name, sorted(extra)), site=r.loc())

    # ---- R3
    CA = "echo_wasm_abi::canonical::"
    wm = prog.fn(CA + "write_major")
    rl = prog.fn(CA + "dec_value::read_len")

    def int_consts(fn):
        out = set()
        for (bb, kind, a, b, res, line) in comparisons(fn):
            for o in (a, b):
                v = const_int(o)
                if v is not None:
                    out.add(v)
        for bi, blk in enumerate(fn.blocks):
            t = blk["t"]
            if t["t"] == "sw":
                for val, tgt in t["v"]:
                    try:
                        out.add(int(val))
                    except ValueError:
                        pass
            # a threshold may also be bound to a local first (`let widest = match info { 25 => 0xff, .. }; val <= widest`)
            for st_ in blk["st"]:
                if st_[0] == "a":
                    for o in operands_of_rvalue(st_[2]):
                        v = const_int(o)
                        if v is not None:
                            out.add(v)
        return out
    def consts_in_tree(fn):
        out = set()
        for g in tree(prog, [fn], stop=lambda i: not i.startswith(CA))[0]:
            if g.id.startswith(CA):
                out |= int_consts(g)
        return out
    cw, cr = consts_in_tree(wm), consts_in_tree(rl)
    for th in (23, 0xff, 0xffff, 0xffffffff):
        rep.check(th in cw and th in cr, "C12.R3", "cbor-width-threshold:%d" % th, "writer and reader both use %d" % th,
                  "width threshold %d: writer has it=%s, reader has it=%s" % (th, th in cw, th in cr), site=wm.loc())
    for info in (24, 25, 26, 27):
        rep.check(info in cr, "C12.R3", "cbor-width-info:%d" % info, "reader handles additional-info %d" % info, "reader lost additional-info %d" % info, site=rl.loc())
    dv = prog.fn(CA + "dec_value")
    ef = prog.fn(CA + "enc_float")
    # sibling agreement of the INTEGER DOMAIN (round 6, finding F12): the writer's domain is what `cbor_int_parts` maps —
    # both majors carry a full u64 argument, i.e. [-2^64, 2^64).  The reader must rebuild the value in a type that holds
    # that whole range; a fallible narrowing of the 128-bit intermediate to a <=64-bit signed primitive rejects encodings
    # the writer emits (decode(encode(v)) fails for v in [-2^64, -2^63)).
    cip = prog.fn(CA + "cbor_int_parts")
    wide = [bi for bi, t in cip.calls() if re.search(r"TryFrom<i128>.* for u64|<u64 as .*TryFrom<i128>>", cip.callee_of(t) or "")]
    rep.check(len(wide) >= 2, "C12.R3", "int-domain:writer-is-u64-per-major", "cbor_int_parts maps both majors through u64::try_from(i128) (%d sites)" % len(wide),
              "cbor_int_parts no longer maps both majors through a full u64 argument (%d sites): the writer's integer domain changed, re-derive the reader rule" % len(wide), site=cip.loc())
    narrow = [(bi, dv.callee_of(t)) for bi, t in dv.calls() if not dv.blocks[bi]["cl"]
              and re.search(r"TryFrom<(i128|u64|u128)>.* for (i8|i16|i32|i64|isize)\b|<(i8|i16|i32|i64|isize) as .*TryFrom<(i128|u64|u128)>>", dv.callee_of(t) or "")]
    rep.check(not narrow, "C12.R3", "int-domain:reader-holds-writer-range", "dec_value rebuilds integers without narrowing below the writer's [-2^64, 2^64) domain",
              "dec_value narrows a decoded integer through %s: encodings of integers in [-2^64, -2^63) that the writer emits are rejected (round trip fails)" % [c for _, c in narrow][:2],
              site=dv.loc(dv.block_line(narrow[0][0]) if narrow else None))
    for helper in ("is_exact_int", "can_fit_f16", "can_fit_f32"):
        rep.check(bool(dv.call_sites(helper + "$")), "C12.R3", "float-ladder:decoder:%s" % helper, "decoder consults %s" % helper, "decoder no longer consults %s" % helper, site=dv.loc())
    # sibling agreement of the width ladder: the writer picks a width by an inline round-trip equality
    # (`f16::from_f64(f).to_f64() == f`, `f64::from(f as f32) == f`); the reader's `can_fit_*` predicates must be that same
    # test and nothing else.  A verdict "does not fit" that comes from anywhere but the round-trip equality (a range
    # pre-check returning false) lets the reader accept a wider spelling of a value the writer emits narrow.
    for helper, conv in (("can_fit_f16", r"from_f64$|to_f64$"), ("can_fit_f32", r"")):
        h = prog.fn(CA + helper)
        falses = ret_const_blocks(h, "false")
        rep.check(not falses, "C12.R3", "float-ladder:%s:only-round-trip-says-no" % helper, "no constant `false` verdict: not-fitting is decided by the round-trip equality alone",
                  "%s returns a constant false at line %s: the reader's fit test is no longer the writer's round-trip test (a non-minimal float spelling can be accepted)" % (helper, [h.block_line(b) for b in falses]),
                  site=h.loc())
        og = h.origins()
        eqs = [c for c in comparisons(h) if c[1] in ("Eq", "eq") and any(a.kind == "param" for a in og.of_operand(c[2], deep=True)) and any(a.kind == "param" for a in og.of_operand(c[3], deep=True))]
        rep.check(len(eqs) == 1 and (not conv or bool(h.call_sites(conv))), "C12.R3", "float-ladder:%s:round-trip-equality" % helper, "one round-trip equality on the argument",
                  "%s has %d equality tests relating the argument to its narrowed form" % (helper, len(eqs)), site=h.loc())
    # the integer width ladder is range-exact: a narrowing cast `n as uK` of the value being encoded is only reached where a
    # comparison has bounded n by uK::MAX.  A cast in an unbounded (wildcard) arm keeps the low bits of a value that does not
    # fit: encode(v) then decodes to a different value.
    W = {"u8": 8, "u16": 16, "u32": 32, "u64": 64, "u128": 128, "usize": 64, "i128": 128, "i64": 64}
    n_casts = 0
    for bi, si, place, rv, line in wm.assigns():
        if rv["r"] != "cast" or rv.get("ck") != "IntToInt" or rv.get("ty") not in W:
            continue
        pl = op_place(rv["o"])
        if pl is None:
            continue
        src_ty = wm.locals[pl[0]]
        if src_ty not in W or W[rv["ty"]] >= W[src_ty] or ("param", 2) not in near_origins(wm, rv["o"]):
            continue
        n_casts += 1
        limit = (1 << W[rv["ty"]]) - 1
        bounded = False
        for (bb, kind, a, b, res, cl) in comparisons(wm):
            if kind in ("Le", "Lt") and const_int(b) is not None and ("param", 2) in near_origins(wm, a):
                c = const_int(b) - (1 if kind == "Lt" else 0)
            elif kind in ("Ge", "Gt") and const_int(a) is not None and ("param", 2) in near_origins(wm, b):
                c = const_int(a) - (1 if kind == "Gt" else 0)
            else:
                continue
            if c > limit:
                continue
            for sw in switch_edges_on_local(wm, res):
                if wm.path([0], [bi], avoid_blocks=[sw["sw"]]) is None and bi not in wm.reachable([sw["false"]], avoid_edges=[(sw["sw"], sw["true"])], avoid_blocks=[sw["sw"]]):
                    bounded = True
        rep.check(bounded, "C12.R3", "cbor-width-ladder:cast-to-%s-is-range-bounded" % rv["ty"], "`n as %s` only where n <= %d was established" % (rv["ty"], limit),
                  "write_major casts the %s value to %s (line %s) in an arm that does not bound it by %s::MAX: a value that does not fit is truncated and encode(v) decodes to a "
                  "different value" % (src_ty, rv["ty"], line, rv["ty"]), site=wm.loc(line))
    rep.check(n_casts >= 3, "C12.R3", "cbor-width-ladder:casts", "%d narrowing casts of the encoded value examined" % n_casts, "only %d narrowing casts found in write_major" % n_casts, site=wm.loc())
    # NaN has ONE spelling: the writer collapses every NaN to the half-width quiet NaN; the reader's half-width arm must
    # therefore test NaN-ness and reject the other NaN bit patterns (the wider arms reject NaN through can_fit_f16).
    rf = prog.fn_opt(CA + "dec_value::read_f")
    nan_w = ef.call_sites(r"f64>::is_nan$|f64::is_nan$|::is_nan$")
    rep.check(bool(nan_w), "C12.R3", "nan:writer-collapses", "enc_float special-cases NaN", "enc_float no longer special-cases NaN", site=ef.loc())
    half_arm_nan = False
    isw = [x for x in tag_tests(dv, ("u8",)).items() if {"25", "26", "27"} <= x[1]["n"]]
    for l, r in isw:
        for (sb, tgt) in r["explicit"]:
            t_ = dv.blocks[sb]["t"]
            if t_["t"] == "sw" and any(v == "25" and tg == tgt for v, tg in t_["v"]):
                others = [tg for v, tg in t_["v"] if tg != tgt] + [t_["ow"]]
                region = dv.reachable([tgt], avoid_blocks=others)
                for b in region:
                    tt = dv.blocks[b]["t"]
                    if tt["t"] == "call" and re.search(r"::is_nan$", dv.callee_of(tt) or ""):
                        half_arm_nan = True
    rep.check(half_arm_nan, "C12.R3", "nan:half-arm-rejects-other-spellings", "the half-width decode arm tests NaN-ness",
              "the half-width float arm of dec_value never tests for NaN: every NaN bit pattern (f9 7e 01, f9 fe 00, ..) is accepted although the writer emits only f9 7e 00 — an "
              "accepted byte string that re-encodes differently", site=dv.loc())
    for wr_ in ("write_half", "write_f32", "write_f64", "(enc_int|write_major)"):
        rep.check(bool(ef.call_sites(wr_ + "$")), "C12.R3", "float-ladder:encoder:%s" % wr_.replace("(enc_int|write_major)", "enc_int"), "encoder can emit %s" % wr_, "enc_float lost its %s rung" % wr_, site=ef.loc())
    rep.check(len(comparisons(ef)) >= 3, "C12.R3", "float-ladder:encoder:round-trip-tests", "encoder tests exact representability before choosing a width (%d comparisons)" % len(comparisons(ef)),
              "enc_float no longer compares round-tripped values", site=ef.loc())

    # ---- R4
    CE = CA + "CanonError"
    dval = prog.fn(CA + "decode_value")
    st, detail = find_guard(prog, dval, CE, "Trailing", {"c:len", "p:1"}, set())
    rep.check(st == "ok", "C12.R4", "cbor:trailing-bytes-rejected", detail, "%s — %s" % (st, detail), site=dval.loc())
    live = constructed_variants(tree(prog, [dval])[0], CE)
    for v in ("Incomplete", "Trailing", "Tag", "Indefinite", "NonCanonicalInt", "NonCanonicalFloat", "FloatShouldBeInt", "MapKeyOrder", "MapKeyDuplicate", "Decode"):
        rep.check(v in live, "C12.R4", "cbor:live:%s" % v, "rejection live", "canonical CBOR decoder no longer rejects with CanonError::%s" % v, site=dval.loc())
    dv_tree = [g for g in tree(prog, [dv], stop=lambda i: not i.startswith(CA))[0] if g.id.startswith(CA)]
    for variant in ("MapKeyDuplicate", "MapKeyOrder"):
        sites, gated = [], False
        from ..guards import comparison_controls
        # the gate may live in dec_value or in a helper of the module whose Result dec_value propagates with `?`
        for g in dv_tree:
            gs = agg_blocks(g, CE, variant)
            if not gs:
                continue
            sites += gs
            for c in comparisons(g):
                if comparison_controls(g, c, gs, success_blocks(g)):
                    gated = True
            if g.id != dv.id:
                calls_ = [b for b in dv.call_sites(re.escape(g.id) + "$")]
                if not calls_ or not all(result_inspected(dv, b)[0] for b in calls_):
                    gated = False
        rep.check(bool(sites) and gated, "C12.R4", "cbor:%s-gated" % variant, "a comparison of encoded key bytes gates %s" % variant, "%s is not gated by a key comparison" % variant, site=dv.loc())
    n_fin = 0
    for adt_path, w, r in recs:
        rtree, _ = tree(prog, [r])
        fin_fns = [g for g in rtree if g.name == "finish" and g.id != r.id]
        if not fin_fns:
            continue
        short = adt_path.rsplit("::", 1)[-1]
        holder = None
        for g in rtree:
            if g.call_sites(r"::finish$") and (g.id == r.id or g.id.startswith(r.id)):
                holder = g
        if holder is None:
            holder = next((g for g in rtree if g.call_sites(r"::finish$")), None)
        if holder is None:
            continue
        n_fin += 1
        fb = holder.call_sites(r"::finish$")
        oks = ok_return_blocks(holder)[0]
        okk = all(result_inspected(holder, b)[0] for b in fb)
        dom = dominates(holder, fb, oks) is None if oks else True
        rep.check(okk and dom, "C12.R4", "finish-before-ok:%s" % short, "trailing-byte check is propagated and dominates Ok",
                  "%s::%s can return Ok without a propagated cursor.finish(): trailing bytes would be accepted" % (short, r.name), site=holder.loc())
    rep.check(n_fin >= 15, "C12.R4", "finish-before-ok:count", "%d cursor-based readers examined" % n_fin, "only %d cursor-based readers found" % n_fin, site="workspace")
    # re-encode-and-compare gates
    for path, enc_pat in (("warp_core::provenance_codec::decode_local_commit_v1", r"encode_local_commit_v1$"),
                          ("warp_core::head_inbox::IngressEnvelope::from_retained_bytes_v2", r"to_retained_bytes(_v\d)?$|encode_retained\w*$")):
        f = prog.fn_opt(path)
        if f is None:
            continue
        enc = f.call_sites(enc_pat)
        okr = False
        for c in comparisons(f):
            na, nb = near_origins(f, c[2]), near_origins(f, c[3])
            if any(x[0] == "call" and re.search(enc_pat, x[1]) for x in na | nb) and any(x[0] == "param" for x in na | nb):
                okr = True
        rep.check(okr, "C12.R4", "reencode-compare:%s" % f.name, "accepted bytes are compared with their re-encoding", "%s re-encodes but does not compare with the input" % f.name, site=f.loc())

    # ---- R5
    encs = [w for a, w, r in recs] + [prog.fn(CA + "encode_value"), prog.fn("echo_edict_canonical::encode_canonical_cbor_v1")] if prog.fn_opt("echo_edict_canonical::encode_canonical_cbor_v1") else [w for a, w, r in recs] + [prog.fn(CA + "encode_value")]
    hits, n1, n2 = reach_forbidden(prog, encs, NONDET)
    rep.check(not hits, "C12.R5", "encoders:no-unordered-iteration", "no HashMap/HashSet/clock/random reachable from %d encoders (%d fns)" % (len(encs), n1),
              "an encoder reaches %s" % [h[0] for h in hits[:2]], site="workspace")
    ev = prog.fn(CA + "enc_value")
    srt = ev.call_sites(r"::sort_by$|::sort_unstable_by$|::sort_by_key$|::sort$|::sort_unstable$")
    rep.check(bool(srt), "C12.R5", "cbor:map-keys-sorted-before-emission", "map entries are sorted before emission", "enc_value no longer sorts map keys", site=ev.loc())


def success_blocks(fn):
    return ok_return_blocks(fn)[0]
