"""C07 — replay is path-independent (thin structural clauses only)."""
from ..prims import *
from ..guards import tokens_of_atoms
from ..guards import check_strength
from ..guards import find_guard, side_tokens

EXPLANATION = (
    "Only thin structural necessary conditions of C07 are decided: (R1) the cursor position is advanced only after a "
    "successful full replay or a successful incremental advance, each of which validated the replay base, and the two "
    "seek paths are wired to the right operands (start tick = cursor tick, target = requested tick, state = cursor "
    "state); (R2) both paths run the per-tick verification (the comparison table of C05.R3 restricted to "
    "advance/restore); (R3) checkpoints are validated before insertion and a fork bounds copied entries and checkpoints "
    "by the fork tick; (R4) the replay finaliser writes every replay-metadata field the checkpoint validator compares. "
    "Equality of states reached through different seek paths — the behavioural content — is NOT decided."
    ' Round 2: guard strength (confirmed rejection relation, no new bypass condition) on the per-tick verification gates.'
    " The in-place advance of seek_to is reached only through an order test of the target against the cursor's tick (a rewind never advances in place)."
    " Round 4: (R4) in the replay finaliser the only tests between entry and a return without writing a replay-derived field are presence tests of a parameter (a test of the entry's content would leave what the starting state held); (R3) every non-delegating `checkpoint*_before` lookup selects by tick < requested (relation read off the search idiom; unknown idioms are reported as undecided), and restore asks for the checkpoint before target+1."
)
ASSUMPTIONS = ["per-tick verification clauses are those of C05.R3", "state equality across paths is out of static reach"]
FLOOR = 29

PS = "warp_core::provenance_store::"
PC = "warp_core::playback::PlaybackCursor"


def _elem_tick(form):
    return any(r[2] and r[2][-1] == "worldline_tick" for r, c in form[0])


def fork_checkpoint_bound(rep, prog, fk, closures):
    from ..affine import Affine, single, upper_bound
    A = Affine(prog)
    rid = "C07.R5"
    # (a) the validator: reject when tick > entries.len() + kv   <=>  accept iff tick <= len + kv
    vc = prog.fn(PS + "validate_checkpoint_for_history")
    kv = None
    sites = agg_blocks(vc, PS + "HistoryError", "HistoryUnavailable")
    oks = ok_return_blocks(vc)[0]
    from ..guards import comparison_controls
    for cmp in comparisons(vc):
        fa, fb = single(A.forms_of(vc, cmp[2])), single(A.forms_of(vc, cmp[3]))
        if fa is None or fb is None or not (_elem_tick(fa) ^ _elem_tick(fb)):
            continue
        other = fb if _elem_tick(fa) else fa
        if not any(r[2] and r[2][-1] == "len()" and "entries" in r[2] for r, c in other[0]):
            continue
        ctl = comparison_controls(vc, cmp, sites, oks)
        if not ctl:
            continue
        # the comparison being TRUE leads to rejection (reject side = sw true) or FALSE does
        sw = switch_edges_on_local(vc, cmp[4])
        rej_true = any(c[1] == s["true"] for c in ctl for s in sw if s["sw"] == c[0])
        kind = cmp[1].lower()
        if rej_true:
            kind = {"gt": "le", "ge": "lt", "lt": "ge", "le": "gt"}.get(kind, kind)
        ub = upper_bound(kind, fa, fb, _elem_tick)
        if isinstance(ub, tuple):
            kv = ub[2]
    rep.check(kv is not None, rid, "validator:tick-bounded-by-entries-len", "add-time validation accepts a checkpoint iff tick <= entries.len() %+d" % (kv or 0),
              "validate_checkpoint_for_history no longer bounds the checkpoint tick by entries.len() in a normalisable way", site=vc.loc())
    # (b) fork: copied prefix length L = fork_tick + ks
    ks = None
    for bb in fk.call_sites(r"Index.*::index$"):
        t = fk.blocks[bb]["t"]
        if "f:entries" not in side_tokens(fk, t["args"][0]):
            continue
        p = op_place(t["args"][1])
        for d in fk.defs().get(p[0], ()) if p else ():
            if d[0] == "assign" and d[4]["r"] == "agg" and str(d[4].get("adt")).endswith("ops::RangeTo"):
                f = single(A.forms_of(fk, d[4]["os"][0]))
                if f is not None and len(f[0]) == 1 and f[0][0] == (("param", 3, ()), 1):
                    ks = f[1]
    rep.check(ks is not None, rid, "fork:prefix-length-form", "copied prefix is entries[..fork_tick %+d]" % (ks or 0),
              "fork's entry prefix is no longer `entries[..fork_tick + const]` (not normalisable)", site=fk.loc())
    # (c) fork: kept checkpoints satisfy tick <= fork_tick + kc
    kc = None
    why = "no ordering comparison on checkpoint.worldline_tick in fork's closures"
    for c in closures:
        for cmp in comparisons(c):
            fa, fb = single(A.forms_of(c, cmp[2])), single(A.forms_of(c, cmp[3]))
            if fa is None or fb is None or not (_elem_tick(fa) ^ _elem_tick(fb)):
                continue
            # the closure must return the comparison result itself (filter keeps on true)
            ret_direct = cmp[4] == 0 or any(d[0] == "assign" and d[4]["r"] == "use" and (op_place(d[4]["o"]) or [None])[0] == cmp[4] for d in c.defs().get(0, ()))
            if not ret_direct:
                why = "filter closure does not return the comparison directly"
                continue
            ub = upper_bound(cmp[1], fa, fb, _elem_tick)
            if not isinstance(ub, tuple):
                why = ub
                continue
            other = ub[0]
            if len(other) == 1 and other[0] == (("param", 3, ()), 1):
                kc = ub[2]
            else:
                why = "bound is not `fork_tick + const`: %s" % (other,)
    rep.check(kc is not None, rid, "fork:checkpoint-bound-form", "kept checkpoints satisfy tick <= fork_tick %+d" % (kc or 0), why, site=fk.loc())
    if None not in (kv, ks, kc):
        rep.check(kc - ks == kv, rid, "fork:checkpoint-bound-equals-validator-bound",
                  "fork keeps tick <= L %+d where L = copied prefix length; validator accepts tick <= len %+d" % (kc - ks, kv),
                  "fork keeps checkpoints with tick <= (copied prefix length) %+d, but add-time validation only accepts tick <= entries.len() %+d: "
                  "a checkpoint materialising entries the child does not share is carried into the fork" % (kc - ks, kv), site=fk.loc())


def _selection_relation(prog, f):
    """'<' | '<=' | None and a description, for `the last element of a sorted Vec whose key REL the argument`."""
    bodies = [prog.fns[c] for c in prog.closures_in(f.id)]
    calls = [(f.callee_of(b["t"]) or "") for b in f.blocks if b["t"]["t"] == "call"]
    subs1 = [rv for _, _, _, rv, _ in f.assigns() if rv["r"] == "bin" and rv["op"] in ("Sub", "SubWithOverflow") and rv["b"].get("v") == "1"]
    adds = [rv for _, _, _, rv, _ in f.assigns() if rv["r"] == "bin" and rv["op"] in ("Add", "AddWithOverflow")]

    def closure_rel():
        rels = []
        for g in bodies:
            og = g.origins()
            for (bb, kind, a, b, res, line) in comparisons(g):
                k = kind.lower()
                ea = any(steps_have(at, None, "worldline_tick") for at in og.of_operand(a, deep=True))
                eb = any(steps_have(at, None, "worldline_tick") for at in og.of_operand(b, deep=True))
                if ea == eb:
                    continue
                if not ea:
                    k = {"lt": "gt", "le": "ge", "gt": "lt", "ge": "le"}.get(k, k)
                rels.append({"lt": "<", "le": "<=", "gt": ">", "ge": ">=", "eq": "==", "ne": "!="}.get(k, k))
        return rels
    if any(re.search(r"::binary_search(_by_key|_by)?$", c) for c in calls):
        # Ok(hit) and Err(insertion point) are both turned into one index by `unwrap_or_else(identity)`; the element before it
        # (index - 1, None at 0) is the last one strictly below the key
        cl = {}
        for _, _, pl, rv, _ in f.assigns():
            if rv["r"] == "agg" and rv.get("ak") == "closure" and not pl[1]:
                cl[pl[0]] = rv["adt"]
        ident = False
        for b in f.blocks:
            t_ = b["t"]
            if t_["t"] == "call" and (f.callee_of(t_) or "").endswith("::unwrap_or_else") and len(t_["args"]) == 2:
                a1 = op_place(t_["args"][1])
                g = prog.fns.get(cl.get(a1[0])) if a1 is not None else None
                ident = g is not None and not any(bb["t"]["t"] == "call" for bb in g.blocks) and not any(rv["r"] in ("bin", "un", "agg") for _, _, _, rv, _ in g.assigns())
        minus1 = bool(subs1) or any(b["t"]["t"] == "call" and (f.callee_of(b["t"]) or "").endswith("::checked_sub") and b["t"]["args"][1].get("v") == "1" for b in f.blocks)
        if ident and minus1 and not adds:
            return "<", "binary search, insertion point or hit, minus one"
        return None, "binary search with an Ok/Err treatment I do not recognise (identity=%s, minus-one=%s)" % (ident, minus1)
    if any(re.search(r"::partition_point$|Iterator::(find|rfind|rposition|take_while|filter)$|Iterator>::(find|rfind|take_while|filter)$", c) for c in calls):
        rels = closure_rel()
        if len(rels) == 1 and rels[0] in ("<", "<=") and not adds:
            return rels[0], "predicate `key %s tick`, last element of the matching prefix" % rels[0]
        return None, "predicate relation(s) %s" % rels
    return None, "no recognised search (calls: %s)" % [c.rsplit("::", 1)[-1] for c in calls][:6]


def run(ctx):
    rep = ctx.report
    prog = ctx.prog("trusted")
    rep.rule("C07.R1", "A1 cursor tick assigned only after after_ok(replay) or after_ok(advance); base validated first; operand wiring")
    rep.rule("C07.R2", "A2 per-tick verification present on both paths (shared instances with C05.R3)")
    rep.rule("C07.R3", "A1/A2 checkpoints validated on insertion; fork bounds entries/checkpoints by fork tick")
    rep.rule("C07.R5", "A12 (linear forms) sibling agreement: the tick bound fork applies to copied checkpoints, relative to the length of the "
             "copied entry prefix, equals the bound validate_checkpoint_for_history enforces relative to entries.len()")
    rep.rule("C07.R4", "A3/A4 finalize_replay_metadata ∪ advance write every WorldlineState field the checkpoint validator compares")

    sk = prog.fn(PC + "::seek_to")
    rp = sk.call_sites(r"replay_worldline_state_at_from_provenance$")
    adv = sk.call_sites(r"provenance_store::advance_replay_state$")
    vrb = sk.call_sites(r"provenance_store::validate_replay_base$")
    tick_assign = assign_blocks(sk, PC, "tick")
    rep.check(len(rp) == 1 and len(adv) == 1 and len(vrb) >= 1 and len(tick_assign) == 1, "C07.R1", "seek:anchors",
              "replay/advance/validate calls and the single tick assignment present",
              "replay=%d advance=%d validate=%d tick-assign=%d" % (len(rp), len(adv), len(vrb), len(tick_assign)), site=sk.loc())
    if rp and adv:
        # a rewind never advances in place: the in-place advance (from the cursor's own materialization) is only reached
        # through an ORDER test of the target against the cursor's tick — otherwise a backward seek would "advance" from a
        # state that is already past the target and report the target tick while holding the old state
        ogk = sk.origins()
        order_sw = []
        for (bb, kind, a, b, res, line) in comparisons(sk):
            k = kind.lower() if isinstance(kind, str) else kind
            if k not in ("lt", "le", "gt", "ge"):
                continue
            ta, tb = tokens_of_atoms(ogk.of_operand(a, deep=True)), tokens_of_atoms(ogk.of_operand(b, deep=True))
            # the target is parameter 2 itself; the other side reads the cursor's `tick` field (flow-insensitively it also carries p:2,
            # because the function ends with `self.tick = target`)
            if (ta == {"p:2"} and "f:tick" in tb) or (tb == {"p:2"} and "f:tick" in ta):
                order_sw.append(bb)  # the block that evaluates the comparison (its result may be merged into a shared flag)
        w_ = sk.path([0], adv, avoid_blocks=order_sw + rp) if order_sw else [0]
        rep.check(bool(order_sw) and w_ is None, "C07.R1", "seek:rewind-never-advances-in-place", "the in-place advance is reached only through an order test target-vs-cursor tick",
                  "seek_to can reach the in-place advance without comparing the target with the cursor's tick (%s): a rewind on a worldline that has a checkpoint at or before the "
                  "target advances from a later state" % sk.describe_path(w_), site=sk.loc())
    if rp and adv and tick_assign:
        w = sk.path([0], tick_assign, avoid_blocks=rp + adv)
        rep.check(w is None, "C07.R1", "seek:tick-only-after-replay-or-advance", "cursor tick advanced only through a replay or an advance",
                  "cursor tick assigned without replaying: %s" % sk.describe_path(w), site=sk.loc())
        for name, site in (("replay", rp[0]), ("advance", adv[0])):
            okk, why = result_inspected(sk, site)
            rep.check(okk, "C07.R1", "seek:%s-result-propagated" % name, why, "%s result dropped: %s" % (name, why), site=sk.loc())
            # the error outcome never reaches the tick assignment: find the `?` on the (map_err'd) result
            t = sk.blocks[site]["t"]
            leak = None
            for (b2, how, x) in local_uses(sk, t["dest"][0]):
                if how == "arg" and (sk.callee_of(x) or "").endswith("map_err"):
                    re_ = result_edges(sk, b2)
                    for (sw, tgt) in re_["err"]:
                        oks_edges = set(re_["ok"])
                        leak = leak or sk.path([tgt], tick_assign, avoid_edges=oks_edges)
                    rep.check(bool(re_["err"]), "C07.R1", "seek:%s-err-edge" % name, "error edge recognised", "no `?` on the %s result" % name, site=sk.loc())
            rep.check(leak is None, "C07.R1", "seek:%s-error-never-advances" % name, "an Err from %s cannot reach the tick assignment" % name,
                      "cursor tick can be assigned after %s failed: %s" % (name, sk.describe_path(leak)), site=sk.loc())
        # advance path: base validated unless already validated: every path entry->advance passes validate_replay_base or reads the flag as true
        flag_reads = [bi for bi, p, l in places_read_in(sk) if any(s == (PC, "PlaybackCursor", "replay_base_validated") for s in field_steps(p))]
        rep.check(bool(flag_reads), "C07.R1", "seek:base-validated-flag-consulted", "replay_base_validated is consulted", "replay_base_validated is never read", site=sk.loc())
        w = sk.path([0], adv, avoid_blocks=vrb + flag_reads)
        rep.check(w is None, "C07.R1", "seek:advance-after-base-validation", "incremental advance is preceded by base validation (or the validated flag)",
                  "advance reachable without validating the replay base: %s" % sk.describe_path(w), site=sk.loc())
        fa = assign_blocks(sk, PC, "replay_base_validated")
        for b in fa:
            # flag set only after validate (or full replay) succeeded
            w = sk.path([0], [b], avoid_blocks=vrb + rp)
            rep.check(w is None, "C07.R1", "seek:flag-set-after-validation", "flag set only after validation/replay",
                      "replay_base_validated set without validating: %s" % sk.describe_path(w), site=sk.loc())
        # operand wiring
        og = sk.origins()
        t = sk.blocks[adv[0]]["t"]
        a_state = side_tokens(sk, t["args"][2])
        a_start = side_tokens(sk, t["args"][3])
        a_target = side_tokens(sk, t["args"][4])
        rep.check("f:state" in a_state and "f:tick" in a_start and "p:2" in a_target and "f:tick" not in a_target, "C07.R1", "seek:advance-operands",
                  "advance(state=self.state, start=self.tick, target=requested)", "advance operands: state=%s start=%s target=%s" % (sorted(a_state), sorted(a_start), sorted(a_target)), site=sk.loc())
        t = sk.blocks[rp[0]]["t"]
        rep.check("p:2" in side_tokens(sk, t["args"][3]) and "p:4" in side_tokens(sk, t["args"][2]), "C07.R1", "seek:replay-operands",
                  "full replay(initial_state, target)", "full replay operands are not (initial_state, target)", site=sk.loc())
        st_assign = assign_blocks(sk, PC, "state")
        rep.check(bool(st_assign) and dominates(sk, rp, st_assign) is None, "C07.R1", "seek:state-from-replay", "cursor state replaced only by a replay result",
                  "cursor state assigned without replay", site=sk.loc())
    # early-exit (target == tick) assigns nothing but the flag
    # ---- R2
    shared = [
        (PS + "advance_replay_state", PS + "ReplayError", "StateRootMismatch", {"c:compute_state_root_for_warp_state"}, {"f:expected", "f:state_root"}),
        (PS + "advance_replay_state", PS + "ReplayError", "CommitHashMismatch", {"c:compute_commit_hash_v2"}, {"f:expected", "f:commit_hash"}),
        (PS + "restore_replay_base", PS + "ReplayError", "CheckpointStateRootMismatch", {"f:state_hash"}, {"c:expected_state_root_at_materialized_tick"}),
        (PS + "restore_replay_base", PS + "ReplayError", "CheckpointStateRootMismatch", {"c:state_root", "f:state"}, {"c:expected_state_root_at_materialized_tick"}),
    ]
    for (path, enum, variant, ta, tb) in shared:
        f = prog.fn(path)
        st, detail = find_guard(prog, f, enum, variant, ta, tb)
        rep.check(st == "ok", "C07.R2", "guard:%s:%s:%s" % (f.name, variant, "+".join(sorted(ta))), detail, "%s — %s" % (st, detail), site=f.loc())
        if st == "ok":
            check_strength(rep, "C07.R2", "guard:%s:%s:%s" % (f.name, variant, "+".join(sorted(ta))), "C07", prog, f, enum, variant, ta, tb)
    ar = prog.fn(PS + "advance_replay_state")
    ap = ar.call_sites(r"apply_to_worldline_state$")
    rep.check(len(ap) == 1, "C07.R2", "advance:applies-recorded-patch", "advance applies the recorded patch", "advance no longer applies the recorded patch (%d sites)" % len(ap), site=ar.loc())
    hits, n1, n2 = reach_forbidden(prog, [ar, prog.fn(PS + "replay_worldline_state_at_from_provenance")], r"rule::|ExecuteFn|Engine::commit|Engine::apply_in_warp|execute_work_queue")
    rep.check(not hits, "C07.R2", "replay:never-runs-rules", "replay applies patches only (%d fns)" % n1, "replay reaches rule execution: %s" % [h[0] for h in hits[:2]], site=ar.loc())
    rr = prog.fn(PS + "replay_worldline_state_at_from_provenance")
    order = [rr.call_sites(r"validate_replay_base$"), rr.call_sites(r"restore_replay_base$"), rr.call_sites(r"advance_replay_state$")]
    rep.check(all(order) and dominates(rr, order[0], order[1]) is None and dominates(rr, order[1], order[2]) is None, "C07.R2", "replay:validate-restore-advance-order",
              "validate base, restore, then advance", "full replay steps are not in dominance order", site=rr.loc())
    if all(order):
        ogr = rr.origins()
        t = rr.blocks[order[2][0]]["t"]
        rep.check(any(a.kind == "call" and a.key[1] == order[1][0] for a in ogr.of_operand(t["args"][3], deep=True)), "C07.R2", "replay:advance-starts-at-restored-tick",
                  "advance starts from the tick restore returned", "advance start tick does not come from restore_replay_base", site=rr.loc())

    # ---- R3
    ac = prog.fn(PS + "LocalProvenanceStore::add_checkpoint")
    val = ac.call_sites(r"validate_checkpoint_for_history$")
    ins = ac.call_sites(r"Vec.*::insert$|IndexMut.*::index_mut$")
    rep.check(bool(val) and bool(ins) and dominates(ac, val, ins) is None, "C07.R3", "add_checkpoint:validate-before-insert",
              "checkpoint validated before it is stored", "checkpoint can be stored without validation", site=ac.loc())
    for v in val:
        okk, why = result_inspected(ac, v)
        rep.check(okk, "C07.R3", "add_checkpoint:validation-propagated", why, "validation result dropped", site=ac.loc())
    fk = prog.fn(PS + "LocalProvenanceStore::fork")
    st, detail = find_guard(prog, fk, PS + "HistoryError", "HistoryUnavailable", {"p:3", "c:as_u64"}, {"c:len", "f:entries"})
    rep.check(st == "ok", "C07.R3", "fork:tick-in-range", detail, "%s — %s" % (st, detail), site=fk.loc())
    filt = [prog.fns[c] for c in prog.closures_in(fk.id)]
    bounded = False
    for c in filt:
        for (bb, kind, a, b, res, line) in comparisons(c):
            ta, tb = side_tokens(c, a), side_tokens(c, b)
            if ("f:worldline_tick" in ta and "f:checkpoint" in ta) or ("f:worldline_tick" in tb and "f:checkpoint" in tb):
                bounded = True
    rep.check(bounded, "C07.R3", "fork:checkpoints-bounded", "copied checkpoints are filtered by tick", "fork copies checkpoints without a tick bound", site=fk.loc())
    # entries slice bound derives from fork_tick
    ogf = fk.origins()
    sl = fk.call_sites(r"Index.*::index$")
    okb = False
    for bb in sl:
        t = fk.blocks[bb]["t"]
        if any(a.kind == "param" and a.key == 3 for a in ogf.of_operand(t["args"][1], deep=True)):
            okb = True
    rep.check(okb, "C07.R3", "fork:entries-bounded", "entry prefix slice bound derives from fork_tick", "fork's entry slice is not bounded by fork_tick", site=fk.loc())

    # ---- R3b "the nearest checkpoint BEFORE tick": every non-delegating lookup selects by  checkpoint.tick < tick  (restore
    # compensates with target+1, seek_to's restore-or-advance decision relies on it).  The relation is read off the three
    # search idioms; an unrecognised idiom is reported as undecided rather than guessed.
    look = [f for f in prog.find_fns(r"::checkpoint(_state)?_before$") if f.crate == "warp_core" and "::tests" not in f.id and not f.is_closure()]
    n_dec = 0
    for f in sorted(look, key=lambda f: f.id):
        if f.rec.get("_decl_only") or not f.blocks:
            continue
        calls = [(f.callee_of(b["t"]) or "") for b in f.blocks if b["t"]["t"] == "call"]
        if any(re.search(r"::checkpoint(_state)?_before$", c) for c in calls):
            continue   # delegates to another implementation, which is examined itself
        n_dec += 1
        rel, how = _selection_relation(prog, f)
        rep.check(rel == "<", "C07.R3", "lookup-strictly-before:%s" % f.id.replace("warp_core::provenance_store::", ""), "selects the last checkpoint with tick < requested (%s)" % how,
                  "%s selects the last checkpoint with tick %s requested (%s): a checkpoint stored at exactly the lookup tick is returned as `before` it, so restore(target) hands back the state "
                  "of tick target+1 labelled target" % (f.name, rel or "??", how) if rel else
                  "%s: cannot read the selection relation off its search (%s)" % (f.name, how), site=f.loc())
    rep.check(n_dec >= 2, "C07.R3", "lookup-strictly-before:sites", "%d non-delegating checkpoint lookups decided" % n_dec, "only %d non-delegating checkpoint lookups found" % n_dec, site=PS)
    rb = prog.fn(PS + "restore_replay_base")
    lk = rb.call_sites(r"::checkpoint_state_before$")
    okw = False
    if lk:
        no = near_origins(rb, rb.blocks[lk[0]]["t"]["args"][2])
        pt = [i for i, t_ in enumerate(fn_param_tys(rb)) if "WorldlineTick" in str(t_)]
        okw = bool(no) and all((x[0] == "param") or (x[0] == "call" and x[1].endswith("::checked_increment")) for x in no) and any(x[0] == "call" for x in no)
    rep.check(okw, "C07.R3", "restore:looks-up-before-target-plus-one", "restore asks for the checkpoint before target+1 (i.e. at or before target)",
              "restore_replay_base no longer asks for the checkpoint before checked_increment(target)", site=rb.loc())

    # ---- R5 relational bound (decides the off-by-one class; both sides normalised to  tick <= length + k)
    fork_checkpoint_bound(rep, prog, fk, filt)

    # ---- R4
    ws = "warp_core::worldline_state::WorldlineState"
    vc = prog.fn(PS + "validate_checkpoint_for_history")
    bodies = [vc] + [prog.fns[c] for c in prog.closures_in(vc.id)]
    compared = set()
    for f in bodies:
        ogx = f.origins()
        for (bb, kind, a, b, res, line) in comparisons(f):
            for o in (a, b):
                for at in ogx.of_operand(o, deep=True):
                    for s in at.steps:
                        if isinstance(s, tuple) and s[0] == ws:
                            compared.add(s[2])
        for bi, p, l in places_read_in(f):
            pass
    writers, _ = tree(prog, [ar, prog.fn(PS + "finalize_replay_metadata")])
    written = set(mod_set(writers, ws))
    meta = {"tick_history", "tx_counter", "last_snapshot", "last_materialization", "last_materialization_errors"}
    # finalize writes each replay-derived field on EVERY path, except where the entry it derives from is absent: the only
    # tests that may stand between the function entry and a return without the write are presence tests of a parameter.  A
    # test of the entry's content (or of anything else) would leave whatever the starting state held — which differs between
    # a replay from U0, from a checkpoint and an in-place advance.
    fm = prog.fn(PS + "finalize_replay_metadata")
    fwb = self_field_assign_blocks(fm, ws, include_mut_borrows=True)
    absent_edges = []
    for bi, blk in enumerate(fm.blocks):
        t_ = blk["t"]
        if t_["t"] != "sw":
            continue
        pl = op_place(t_["o"])
        if pl is None or pl[1]:
            continue
        for d in fm.defs().get(pl[0], ()):
            if d[0] == "assign" and d[4]["r"] == "disc" and "option::Option" in str(fm.locals[d[4]["p"][0]] if not d[4]["p"][1] else d[4].get("adt", "option::Option")):
                no = near_origins(fm, {"c": d[4]["p"]})
                if no and all(x[0] == "param" for x in no):
                    vals = dict((val, tgt) for val, tgt in t_["v"])
                    if "0" in vals:
                        absent_edges.append((bi, vals["0"]))
                    elif "1" in vals and t_.get("ow") is not None:   # `if let Some(..)`: None is the otherwise edge
                        absent_edges.append((bi, t_["ow"]))
    n_fin = 0
    for fld in sorted(set(fwb) & meta):
        n_fin += 1
        w_ = fm.path([0], fm.return_blocks(), avoid_blocks=fwb[fld], avoid_edges=absent_edges)
        rep.check(w_ is None, "C07.R4", "finalize:%s-written-on-every-path" % fld, "written on every path that has an entry to derive it from",
                  "finalize_replay_metadata can return without writing WorldlineState.%s although the entry is present (%s): the field keeps what the starting state held, so replay "
                  "from U0, from a checkpoint and in place disagree" % (fld, fm.describe_path(w_)), site=fm.loc())
    rep.check(n_fin >= 4 and len(absent_edges) >= 1, "C07.R4", "finalize:anchors", "%d fields written by finalize, %d presence test(s) of a parameter" % (n_fin, len(absent_edges)),
              "finalize writes only %d metadata fields / %d presence tests" % (n_fin, len(absent_edges)), site=fm.loc())
    rep.check(len(compared & meta) >= 3, "C07.R4", "validator:compares-metadata", "validator compares %s" % sorted(compared & meta),
              "checkpoint validator compares only %s" % sorted(compared & meta), site=vc.loc())
    for fld in sorted(compared & meta):
        rep.check(fld in written, "C07.R4", "finalize-writes:%s" % fld, "replay writes WorldlineState.%s" % fld,
                  "checkpoint validator compares WorldlineState.%s but replay never writes it" % fld, site=ar.loc())
