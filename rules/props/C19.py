"""C19 — deterministic math is bit-stable and canonical."""
from ..prims import *

EXPLANATION = (
    "Structural necessary conditions of C19: (R1) representation invariant by constructor monopoly: the float scalar's "
    "field is private, the only construction of the type in the whole workspace is inside its canonicalising "
    "constructor, nothing assigns or mutably borrows the field, so every value in existence passed the canonicalisation "
    "(closure of the invariant under ALL operations); (R2) the constructor has the three canonicalisation gates (NaN → "
    "canonical quiet NaN bits, subnormal → +0 bits, otherwise + 0.0) and each gates its own construction; (R3) no "
    "platform-dependent float function (transcendentals, powf/powi, fused multiply-add, hardware sqrt) is reachable from "
    "the math crates, the fixed-point module or the ABI fixed codec; the one software root is libm::sqrtf; (R5) the PRNG "
    "and trig tables use no mutable or interior-mutable statics. The numerical values (oddness, range, golden bits) and "
    "integer overflow behaviour across profiles in general are NOT decided (only the abs/negation clause of round 4 is)."
    ' Round 4: (R6) sibling agreement — every float division by a computed value in the math crates is dominated by a comparison on that same value (exception: the Div operator itself); (R4) no overflow-panicking signed abs()/pow() in the math crates, and overflow-checked negations are an enumerated, reasoned set (debug builds panic where release wraps: a build-profile-dependent result).'
)
ASSUMPTIONS = ["IEEE-754 basic operations are bit-stable across targets (no fast-math in Rust)", "libm::sqrtf is a pure software implementation"]
FLOOR = 14

S = "warp_math::scalar::F32Scalar"
FORBIDDEN = (r"(f32|f64)>::(sin|cos|tan|asin|acos|atan|atan2|sinh|cosh|tanh|asinh|acosh|atanh|exp|exp2|exp_m1|ln|ln_1p|log|log2|log10|powf|powi|sqrt|cbrt|hypot|mul_add|sin_cos|to_degrees|to_radians|recip|gamma|ln_gamma|erf)$"
             r"|intrinsics::(sqrtf|sinf|cosf|powf|powif|expf|exp2f|logf|log10f|log2f|fmaf|fmuladdf)\d*$|^libm::(?!sqrtf$)")


def run(ctx):
    rep = ctx.report
    prog = ctx.prog("trusted")
    rep.rule("C19.R1", "A7 constructor monopoly + private field + no field mutation")
    rep.rule("C19.R2", "A2 the constructor's three canonicalisation gates")
    rep.rule("C19.R3", "A9 no platform-dependent float function reachable")
    rep.rule("C19.R5", "A8 no mutable/interior-mutable statics in the math crates")

    adt = prog.adt(S)
    fld = adt["variants"][0]["fields"][0]
    rep.check(fld["vis"] != "pub" and len(adt["variants"][0]["fields"]) == 1, "C19.R1", "F32Scalar.value:private", "value: %s (%s)" % (fld["ty"], fld["vis"]),
              "F32Scalar.value is %s" % fld["vis"], site=S)
    makers = sorted(f.id for f in prog.fns.values() if agg_blocks(f, S))
    rep.check(makers == [S + "::new"], "C19.R1", "F32Scalar:constructor-monopoly", "constructed only in F32Scalar::new",
              "F32Scalar is constructed outside its canonicalising constructor: %s" % makers, site=S)
    writers = sorted({f.id for f in prog.fns.values() if "value" in mod_set([f], S)})
    rep.check(not writers, "C19.R1", "F32Scalar.value:never-mutated", "no assignment / &mut borrow of the field anywhere", "F32Scalar.value is mutated in %s" % writers[:3], site=S)
    transmutes = []
    for f in prog.fns.values():
        if f.crate not in ("warp_math", "warp_geom"):
            continue
        for bi, t in f.calls():
            c = f.callee_of(t) or ""
            if c.endswith("mem::transmute") or c.endswith("transmute_copy") or "ptr::read" in c:
                transmutes.append(f.id)
        if f.rec.get("unsafe"):
            transmutes.append(f.id)
    rep.check(not transmutes, "C19.R1", "math:no-unsafe-construction", "no transmute/unsafe in the math crates", "unsafe construction paths: %s" % transmutes[:3], site="warp_math")
    n_ops = 0
    for f in prog.fns.values():
        if f.crate == "warp_math" and not f.is_closure() and fn_ret_ty(f) == S and f.id != S + "::new":
            n_ops += 1
    rep.check(n_ops >= 8, "C19.R1", "F32Scalar:operations-counted", "%d functions return F32Scalar; all must go through new (monopoly)" % n_ops, "only %d functions return F32Scalar" % n_ops, site=S)

    new = prog.fn(S + "::new")
    # The stored value has three definitions (canonical NaN bits, +0 bits for subnormals, `num + 0.0` otherwise).  They may be
    # three struct constructions or three assignments to one local that a single construction stores: the rule looks at the
    # blocks that DEFINE the stored value, whichever shape.
    og = new.origins()
    aggs = agg_blocks(new, S)
    vdefs = []   # (block, consts, from_bits, from_param, is_add_zero)

    def describe_def(bb, rv_or_call, is_call):
        if is_call:
            t_ = rv_or_call
            callee = new.callee_of(t_) or ""
            consts = {str(a.get("v", a.get("k"))) for a in t_["args"] if "k" in a}
            return (bb, consts, callee.endswith("from_bits"), any(op_place(a) is not None and ("param", 1) in near_origins(new, a) for a in t_["args"]), False)
        rv = rv_or_call
        if rv["r"] == "bin" and rv["op"] in ("Add", "AddUnchecked"):
            zero = any("k" in o and str(o["k"]).startswith("0") for o in (rv["a"], rv["b"]))
            return (bb, set(), False, True, zero)
        return (bb, set(), False, any(("param", 1) in near_origins(new, o) for o in operands_of_rvalue(rv)), False)

    seen_locals = set()
    stack = []
    for b in aggs:
        for st_ in new.blocks[b]["st"]:
            if st_[0] == "a" and st_[2]["r"] == "agg" and st_[2].get("adt") == S:
                stack.append(st_[2]["os"][0])
    while stack:
        o = stack.pop()
        pl = op_place(o)
        if pl is None or pl[0] in seen_locals:
            continue
        seen_locals.add(pl[0])
        for d in new.defs().get(pl[0], ()):
            if d[0] == "call":
                vdefs.append(describe_def(d[1], d[2], True))
            elif d[0] == "assign":
                rv = d[4]
                if rv["r"] == "use" and op_place(rv["o"]) is not None and not op_place(rv["o"])[1] and op_place(rv["o"])[0] > new.argc:
                    stack.append(rv["o"])
                else:
                    vdefs.append(describe_def(d[1], rv, False))
    rep.check(len(vdefs) == 3, "C19.R2", "new:three-constructions", "three definitions of the stored value (NaN, subnormal, normal)", "definitions of the stored value in new: %d" % len(vdefs), site=new.loc())
    nan = new.call_sites(r"f32>::is_nan$")
    sub = new.call_sites(r"f32>::is_subnormal$")
    rep.check(len(nan) == 1 and len(sub) == 1, "C19.R2", "new:gates-present", "is_nan and is_subnormal tests present", "is_nan=%d is_subnormal=%d" % (len(nan), len(sub)), site=new.loc())
    vblocks = [v[0] for v in vdefs]
    if nan and sub and vdefs:
        for gate, label, want_bits in ((nan[0], "nan", "2143289344"), (sub[0], "subnormal", "0")):
            sws = succ_edges_of_bool_call(new, gate) or []
            okg = False
            for sw in sws:
                reach = new.reachable([sw["true"]], avoid_edges=[(sw["sw"], sw["false"])])
                hit = [v for v in vdefs if v[0] in reach]
                if len(hit) == 1:
                    bb_, cs, fb, fp, az = hit[0]
                    if fb and not fp and any(want_bits == c.split("_")[0] for c in cs):
                        okg = True
            rep.check(okg, "C19.R2", "new:%s-gate" % label, "%s input → from_bits(%s), never the input value" % (label, want_bits),
                      "the %s gate does not force the canonical bit pattern %s" % (label, want_bits), site=new.loc())
        normal = [v for v in vdefs if v[3] and not v[2]]
        rep.check(len(normal) == 1 and normal[0][4], "C19.R2", "new:negative-zero-gate", "normal path stores num + 0.0", "the normal path no longer adds 0.0 (−0.0 would survive)", site=new.loc())
        # the pass-through definition is reachable only when both gates said no
        if normal:
            cut = []
            for gate in (nan[0], sub[0]):
                for sw in succ_edges_of_bool_call(new, gate) or []:
                    cut.append((sw["sw"], sw["false"]))
            w = reachable_without_edges(new, [normal[0][0]], cut[:1]) if cut else [0]
            w2 = reachable_without_edges(new, [normal[0][0]], cut[1:2]) if len(cut) > 1 else [0]
            rep.check(w is None and w2 is None, "C19.R2", "new:normal-path-after-both-gates", "the pass-through value is reached only after both tests were false",
                      "a NaN or subnormal can reach the pass-through value", site=new.loc())

    # R6 a division's guard is a test of the DIVISOR.  The normalising functions divide by a length that det_sqrt_f32 clamps to 0
    # for a non-finite argument; their siblings test the value they divide by (`len <= EPSILON`).  A guard on something else
    # (the squared length) lets an overflowed square through: 1/0 → inf/NaN, which `Quat::new` asserts against in debug builds
    # only — a finite input on which debug and release disagree.
    rep.rule("C19.R6", "sibling agreement: every float division by a computed value is dominated by a comparison on that same value (named exception: the Div operator itself)")
    DIV_EXEMPT = {"<warp_math::scalar::F32Scalar as std::ops::Div>::div": "IEEE division is the operation; the quotient is re-canonicalised by F32Scalar::new"}
    n_div = 0
    for f in sorted(prog.fns.values(), key=lambda f: f.id):
        if f.crate not in ("warp_math", "warp_geom") or "::tests" in f.id or f.is_closure():
            continue
        raw = f.rec.get("_raw")
        if raw is not None and '"Div"' not in raw:
            continue
        for bi, si, place, rv, line in f.assigns():
            if rv["r"] != "bin" or rv["op"] != "Div" or "k" in rv["b"] or f.locals[place[0]] not in ("f32", "f64"):
                continue
            n_div += 1
            if f.id in DIV_EXEMPT:
                rep.ok("C19.R6", "division-guard:%s:exempt" % f.id.replace("warp_math::", ""), DIV_EXEMPT[f.id], site=f.loc(line))
                continue
            src = {x for x in near_origins(f, rv["b"]) if x[0] != "const"}
            guarded = False
            for c in comparisons(f):
                for o in (c[2], c[3]):
                    if {x for x in near_origins(f, o) if x[0] != "const"} & src and dominates(f, [c[0]], [bi]) is None:
                        guarded = True
            rep.check(guarded, "C19.R6", "division-guard:%s" % f.id.replace("warp_math::", ""), "the divisor itself is tested before the division",
                      "%s divides by a computed value (line %s) that no dominating comparison tests: its guard looks at a different value, so a divisor that det_sqrt_f32 clamped to 0 "
                      "(overflowed square) yields inf/NaN — caught by a debug-only assertion, silent in release" % (f.name, line), site=f.loc(line))
    rep.check(n_div >= 3, "C19.R6", "division-guard:sites", "%d float divisions by computed values examined" % n_div, "only %d such divisions found" % n_div, site="warp_math")
    # R4' signed abs()/negation that can overflow: `i64::abs()` and unary minus on a signed integer panic in debug builds and
    # wrap in release for the MIN value.  The math crates use `unsigned_abs`; the remaining negations are an enumerated set.
    rep.rule("C19.R4", "no overflow-panicking signed abs() in the math crates; overflow-checked negations are an enumerated, reasoned set")
    abs_sites, neg_sites = [], []
    for f in prog.fns.values():
        if not (f.crate in ("warp_math", "warp_geom") or f.id.startswith(("warp_core::fixed::", "echo_wasm_abi::codec::"))) or "::tests" in f.id:
            continue
        for bi, b in enumerate(f.blocks):
            t_ = b["t"]
            if t_["t"] == "call" and re.search(r"num::<impl i(8|16|32|64|128|size)>::(abs|pow)$", f.callee_of(t_) or ""):
                abs_sites.append("%s:%s" % (f.id, (f.callee_of(t_) or "").rsplit("::", 1)[-1]))
            if t_["t"] == "assert" and t_.get("msg") == "OverflowNeg":
                neg_sites.append(f.id)
    rep.check(not abs_sites, "C19.R4", "signed-abs:none", "no signed abs()/pow() in the math crates (unsigned_abs is used)",
              "signed integer %s: panics in debug builds and wraps in release for the minimum value — the result depends on the build profile" % abs_sites[:3], site=abs_sites[0].split(":")[0] if abs_sites else "warp_math")
    NEG_OK = {"warp_math::fixed_q32_32::from_f32": "negates an i128 magnitude that is at most 2^64 (a u64 widened): cannot be i128::MIN"}
    new_neg = sorted(set(neg_sites) - set(NEG_OK))
    rep.check(not new_neg, "C19.R4", "signed-negation:enumerated", "%d overflow-checked negation(s), all reasoned" % len(set(neg_sites)),
              "new overflow-checked negation of a signed integer in %s: debug panics / release wraps for MIN" % new_neg[:2], site=new_neg[0] if new_neg else "warp_math")

    frx = re.compile(FORBIDDEN)
    scopes = {"warp_math": lambda f: f.crate == "warp_math", "warp_geom": lambda f: f.crate == "warp_geom",
              "warp_core::fixed": lambda f: f.id.startswith("warp_core::fixed::"), "echo_wasm_abi::codec": lambda f: f.id.startswith("echo_wasm_abi::codec::")}
    for name, pred in scopes.items():
        roots = [f for f in prog.fns.values() if pred(f)]
        ids, ext = prog.reach(roots)
        bad = sorted(e for e in ext if frx.search(e)) + sorted(i for i in ids if frx.search(i))
        rep.check(len(roots) > 0 and not bad, "C19.R3", "no-platform-float:%s" % name, "%d roots, %d fns, %d external callees: none platform-dependent" % (len(roots), len(ids), len(ext)),
                  "%s reaches platform-dependent float function(s) %s via %s" % (name, bad[:3], " -> ".join(prog.call_chain(roots[0], lambda p_: p_ == bad[0]) or []) if bad else ""), site=name)
    sq = [f for f in prog.fns.values() if f.crate == "warp_math" and f.call_sites(r"^libm::sqrtf$")]
    rep.check(len(sq) >= 1, "C19.R3", "sqrt:software-root", "square root goes through libm::sqrtf (%d site fns)" % len(sq), "libm::sqrtf is no longer used: which sqrt is?", site="warp_math")

    for path, c in prog.consts.items():
        if c.get("static") and path.split("::")[0] in ("warp_math", "warp_geom"):
            cell = False
            if c["ty"] in prog.tys:
                h, _ = interior_mut(prog, c["ty"])
                cell = bool(h)
            rep.check(not c.get("mut") and not cell, "C19.R5", "static:%s" % path, "immutable static", "static %s is mutable/interior-mutable" % path, site=path)
    refd = set()
    for f in prog.fns.values():
        if f.crate in ("warp_math", "warp_geom"):
            for b in f.blocks:
                for st in b["st"]:
                    if st[0] == "a":
                        for o in operands_of_rvalue(st[2]):
                            if "static" in o:
                                refd.add(o["static"])
                        if st[2]["r"] == "tlr":
                            refd.add("thread_local:" + st[2]["def"])
    bad_s = [s_ for s_ in refd if s_.startswith("thread_local:") or (s_ in prog.consts and prog.consts[s_].get("mut"))]
    rep.check(not bad_s, "C19.R5", "math:no-mutable-static-refs", "statics referenced by math code: %s" % sorted(refd)[:4], "math code references mutable/thread-local statics %s" % bad_s, site="warp_math")
    pr = prog.adt("warp_math::prng::Prng")
    rep.check(all("Cell" not in f["ty"] and "Atomic" not in f["ty"] for f in pr["variants"][0]["fields"]), "C19.R5", "Prng:plain-state", "PRNG state is plain data",
              "PRNG state contains interior mutability", site="warp_math::prng::Prng")
