"""C16 — observation is read-only and bound to its coordinate."""
from ..prims import *
from ..guards import side_tokens, tokens_of_atoms
from ..baselines import baseline

EXPLANATION = (
    "C16's read-only half is decided as a type-level theorem plus effect rules: (R1) every observation / optic / "
    "planning entry point takes only shared borrows of runtime, provenance and engine; the deep type graph of those three "
    "types reaches exactly one workspace-owned interior-mutability cell (the materialization bus's pending map) besides "
    "refcount cells; warp-core contains no unsafe fn; (R2) the functions that can mutate that cell, and the telemetry sink, "
    "are unreachable from the observation trees; (R3) the trees reach no tick/commit/admit/append/submit/fork/settle "
    "function; (R4) no nondeterminism source is reachable and the artifact hash covers coordinate, reading, frame, "
    "projection and payload; (R5) in every explicit-tick arm of coordinate resolution the state root, commit hash and "
    "commit tick derive from the provenance entry for that tick only — never from the live frontier or runtime "
    "(observation time is exempt by definition); (R6) unavailable history is a typed obstruction; (R7) the byte "
    "boundary keeps the borrow shared: read methods of the kernel trait are &self and exports reach them through the "
    "shared-borrow accessor only. Equality of a historical reading with a replayed-state reading is NOT decided."
    ' Round 2 (R5): coordinate resolution never synthesises a coordinate kind (the arm is selected by the request itself), and the checkpoint+tail witness basis of a historical reading never reads the live provenance tip.'
    ' Every identifying field of a provenance coordinate (worldline, commit hash) takes part in a comparison in the optic read tree.'
)
ASSUMPTIONS = ["Rust aliasing rules", "dyn query observers / telemetry sinks are host code (opaque)", "observed_after_global_tick is observation time by definition"]
FLOOR = 45

OB = "warp_core::observation::"
MUTATORS = (r"coordinator::SchedulerCoordinator::super_tick|Engine::commit_with_(state|receipt)$|Engine::commit$|Engine::apply_in_warp$|HeadInbox::(ingest|admit\w*)$|"
            r"WorldlineRuntime::(ingest|submit_\w+|fork_strand\w*|register_\w+|restore|record_\w+)$|::append_local_commit$|::append_recorded_event$|append_braid_shell$|"
            r"settlement::SettlementService::(settle|execute)\w*$|LocalProvenanceStore::(add_checkpoint|fork)$|WorldlineFrontier::advance_tick$|TrustedRuntimeWal::append_transaction$")
READ_METHODS = {"observe", "observe_optic", "observe_neighborhood_site", "observe_neighborhood_core", "compare_settlement", "plan_settlement",
                "registry_info", "scheduler_status", "current_optic_coordinate"}
WRITE_METHODS = {"dispatch_intent", "dispatch_optic_intent", "settle_strand"}


def run(ctx):
    rep = ctx.report
    prog = ctx.prog("trusted")
    rep.rule("C16.R1", "A8 read-only by type: shared borrows only; exact set of reachable interior-mutability cells; no unsafe")
    rep.rule("C16.R2", "A7/A9 the cell's mutators and the telemetry sink are unreachable from observation trees")
    rep.rule("C16.R3", "A9 observation never ticks, admits, appends, forks or settles")
    rep.rule("C16.R4", "A9/A3 deterministic artifact: no ambient nondeterminism; artifact hash covers its five inputs")
    rep.rule("C16.R5", "A6/A0 explicit-tick coordinates are resolved from the provenance entry only")
    rep.rule("C16.R6", "A11 unavailable history is a typed obstruction")
    rep.rule("C16.R7", "A7/A8 byte boundary keeps the borrow shared")

    entries = [prog.fn(OB + "ObservationService::observe"), prog.fn(OB + "ObservationService::observe_optic"),
               prog.fn("warp_core::neighborhood::NeighborhoodSiteService::observe")]
    planners = [f for f in prog.find_fns(r"^warp_core::settlement::SettlementService::(plan|compare)\w*$") if not f.is_closure() and f.vis == "pub"]
    rep.check(len(planners) >= 2, "C16.R1", "entries:planners", "%d planning/compare entry points" % len(planners), "planning entry points not found", site="warp_core::settlement")
    big3 = ("warp_core::coordinator::WorldlineRuntime", "warp_core::provenance_store::ProvenanceService", "warp_core::engine_impl::Engine")
    for f in entries + planners:
        ptys = fn_param_tys(f)
        for i, t in enumerate(ptys):
            if any(b in t for b in big3) or "Self" in t:
                rep.check(t.startswith("&") and not t.startswith("&mut"), "C16.R1", "shared-borrow:%s:param%d" % (f.id.replace("warp_core::", ""), i + 1), t,
                          "%s takes %s (observation/planning must not hold a mutable borrow)" % (f.id, t), site=f.loc())
    cells = []
    for root in big3:
        hits, allowed = interior_mut(prog, root)
        for t, path in hits:
            if any("receipt_correlation_full_scan_count" in x for x in path):
                continue  # host_test-only diagnostic counter (a Cell<usize>), absent from production builds
            owner = [p_ for p_ in path if p_.startswith("warp_core::") or p_.startswith("echo_")]
            cells.append((root.rsplit("::", 1)[-1], owner[-1] if owner else path[-1]))
        rep.note("%s: %d refcount-only cells allowed" % (root, len(allowed)))
    cellset = sorted(set(cells))
    want = [("Engine", "warp_core::materialization::bus::MaterializationBus.pending")]
    rep.check(cellset == want, "C16.R1", "cells:exact-set", "the only workspace-owned cell reachable from runtime/provenance/engine is MaterializationBus.pending",
              "interior mutability reachable from observation parameters changed: %s (confirmed set: %s)" % (cellset, want), site="warp_core::engine_impl::Engine")
    unsafe_fns = [f.id for f in prog.fns.values() if f.crate == "warp_core" and f.rec.get("unsafe")]
    rep.check(not unsafe_fns, "C16.R1", "warp_core:no-unsafe-fn", "no unsafe fn in warp-core", "unsafe fns: %s" % unsafe_fns[:3], site="warp_core")
    raw_derefs = 0
    for f in prog.fns.values():
        if f.crate == "warp_core" and not f.file.endswith("_tests.rs") and f.rec.get("_raw") is None and f._blocks is not None:
            pass
    # ---- R2
    bus = "warp_core::materialization::bus::MaterializationBus"
    mutators = []
    for f in prog.find_fns(r"^warp_core::materialization::bus::MaterializationBus::"):
        if f.call_sites(r"RefCell.*::borrow_mut$|RefCell.*::replace$|RefCell.*::take$|RefCell.*::swap$"):
            mutators.append(f.id)
    others = [f.id for f in prog.fns.values() if f.crate == "warp_core" and not f.id.startswith(bus) and f.call_sites(r"RefCell.*::borrow_mut$")
              and any(any(s[2] == "pending" and s[0] == bus for s in field_steps(p_)) for bi, p_, l in places_read_in(f))]
    rep.check(len(mutators) >= 2 and not others, "C16.R2", "bus:mutators", "bus cell mutators: %s" % [m.rsplit("::", 1)[-1] for m in mutators],
              "MaterializationBus.pending is mutated outside the bus (%s) or its mutators vanished (%s)" % (others[:2], mutators), site=bus)
    trees = {}
    for f in entries + planners:
        ids, ext = prog.reach([f])
        trees[f.id] = (ids, ext)
        hit = [m for m in mutators if m in ids]
        rep.check(not hit, "C16.R2", "no-bus-mutation:%s" % f.id.replace("warp_core::", ""), "tree of %d fns never mutates the bus cell" % len(ids),
                  "%s reaches bus mutator %s: %s" % (f.id, hit, " -> ".join(prog.call_chain(f, lambda p_: p_ in hit) or [])), site=f.loc())
        sink_calls = []
        for i in ids:
            g = prog.fns[i]
            for bi, t in g.calls():
                fj = t["fn"]
                if ("d" in fj and "TelemetrySink" in (fj.get("d") or "")) or ("ind" in fj and "TelemetrySink" in fj["ind"]):
                    sink_calls.append(i)
        rep.check(not sink_calls, "C16.R2", "no-telemetry:%s" % f.id.replace("warp_core::", ""), "no telemetry sink call", "telemetry sink called from %s" % sink_calls[:2], site=f.loc())
    # ---- R3
    mrx = re.compile(MUTATORS)
    for f in entries + planners:
        ids, ext = trees[f.id]
        bad = sorted(i for i in ids if mrx.search(i))
        rep.check(not bad and len(ids) > 20, "C16.R3", "never-mutates:%s" % f.id.replace("warp_core::", ""), "tree (%d fns) reaches no tick/commit/admit/append/submit/fork/settle" % len(ids),
                  "%s reaches %s via %s" % (f.id, bad[:2], " -> ".join(prog.call_chain(f, lambda p_: p_ == bad[0]) or []) if bad else ""), site=f.loc())
        # &mut parameters anywhere in the tree on the big three: a shared borrow cannot be upgraded without unsafe, so just count
    # ---- R4
    for f in entries:
        hits, n1, n2 = reach_forbidden(prog, [f], NONDET)
        rep.check(not hits, "C16.R4", "deterministic:%s" % f.name, "no clock/random/env/HashMap in the tree (%d fns)" % n1, "%s reaches %s" % (f.id, [h[0] for h in hits[:2]]), site=f.loc())
    ah = prog.fn(OB + "ObservationService::compute_artifact_hash")
    oga = ah.origins()
    inp = None
    for bi, si, place, rv, line in ah.assigns():
        if rv["r"] == "agg" and rv.get("adt", "").endswith("ObservationHashInput"):
            inp = dict(zip(rv["fields"], rv["os"]))
    rep.check(inp is not None, "C16.R4", "artifact-hash:input-built", "hash input struct built", "ObservationHashInput no longer constructed", site=ah.loc())
    if inp:
        for i, nm in enumerate(("resolved", "reading", "frame", "projection", "payload")):
            ps = {a.key for a in oga.of_operand(inp[nm], deep=True) if a.kind == "param"}
            rep.check(ps == {i + 1}, "C16.R4", "artifact-hash:covers:%s" % nm, "hash input .%s derives from parameter %d" % (nm, i + 1),
                      "hash input .%s derives from params %s" % (nm, sorted(ps)), site=ah.loc())
        upd = ah.call_sites(r"Hasher::update$")
        rep.check(len(upd) >= 2 and "warp_core::observation::OBSERVATION_ARTIFACT_DOMAIN" in const_defs_into(ah, r"Hasher::update$"), "C16.R4", "artifact-hash:domain+bytes",
                  "domain tag and encoded input hashed", "artifact hash lost its domain tag or input", site=ah.loc())
    # ---- R5
    rc = prog.fn(OB + "ObservationService::resolve_coordinate")
    ogr = rc.origins()
    ROC = OB + "ResolvedObservationCoordinate"
    n_tick_arms = 0
    for bi, si, place, rv, line in rc.assigns():
        if rv["r"] == "agg" and rv.get("adt") == ROC:
            m = dict(zip(rv["fields"], rv["os"]))
            tick_atoms = ogr.of_operand(m["resolved_worldline_tick"], deep=True)
            explicit = any(a.kind == "param" and a.key == 4 and any(s == "as:Tick" for s in a.steps) for a in tick_atoms)
            from_frontier = any(a.kind == "call" and a.key[0].endswith("frontier_tick") for a in tick_atoms)
            if not explicit or from_frontier:
                continue
            n_tick_arms += 1
            for fld in ("state_root", "commit_hash", "commit_global_tick"):
                atoms = ogr.of_operand(m[fld], deep=True)
                toks = tokens_of_atoms(atoms)
                from_entry = any(a.kind == "call" and a.key[0].endswith("::entry") for a in atoms)
                live = {t for t in toks if t in ("p:1", "p:3", "c:last_snapshot", "c:frontier_tick", "c:snapshot_for_state", "c:global_tick", "c:state")}
                rep.check(from_entry and not live, "C16.R5", "tick-arm@%s:%s-from-provenance" % (n_tick_arms, fld), "derives from provenance.entry(worldline, tick) only",
                          "historical coordinate field %s derives from live state (%s) / entry=%s" % (fld, sorted(live), from_entry), site=rc.loc(line))
            ent_calls = [a.key[1] for a in ogr.of_operand(m["state_root"], deep=True) if a.kind == "call" and a.key[0].endswith("::entry")]
            for eb in ent_calls[:1]:
                t = rc.blocks[eb]["t"]
                targ = ogr.of_operand(t["args"][2], deep=True)
                rep.check(any(a.kind == "param" and a.key == 4 and "as:Tick" in a.steps for a in targ), "C16.R5", "tick-arm@%s:entry-at-requested-tick" % n_tick_arms,
                          "the entry is looked up at the requested tick", "provenance entry is not looked up at the requested tick", site=rc.loc(t.get("line")))
    rep.check(n_tick_arms >= 2, "C16.R5", "tick-arms:count", "%d explicit-tick arms" % n_tick_arms, "expected >= 2 explicit-tick arms, found %d" % n_tick_arms, site=rc.loc())
    # the arm is selected by the REQUESTED coordinate kind: resolution never synthesises a coordinate (an explicit tick that is
    # silently treated as `Frontier` is answered from live state and changes with the next commit)
    fns_rc0 = [rc] + [prog.fns[c] for c in prog.closures_in(rc.id)]
    OAT = [p_ for p_ in prog.adts if p_ == OB + "ObservationAt"]
    rep.check(len(OAT) == 1, "C16.R5", "coordinate-kind:adt", "ObservationAt found", "ObservationAt ADT candidates: %s" % OAT, site=rc.loc())
    if len(OAT) == 1:
        made = constructed_variants(fns_rc0, OAT[0])
        rep.check(not made, "C16.R5", "coordinate-kind:never-synthesised", "resolve_coordinate constructs no ObservationAt value: the arm is chosen by the request",
                  "resolve_coordinate constructs ObservationAt::%s (line %s): an explicit coordinate is re-mapped before resolution" % (sorted(made), sorted({l for v in made.values() for f_, l in v})), site=rc.loc())
        sw_ok, n_sw = True, 0
        for bi, si, place, rv, line in rc.assigns():
            if rv["r"] == "disc" and rv.get("adt") == OAT[0]:
                n_sw += 1
                ats = ogr.of_place(rv["p"], deep=False)
                if not ats or any(a.kind != "param" for a in ats):
                    sw_ok = False
        rep.check(n_sw >= 1 and sw_ok, "C16.R5", "coordinate-kind:matched-on-the-request", "%d match(es) on the coordinate kind, all on the request parameter" % n_sw,
                  "the coordinate kind that selects the resolution arm does not come straight from the request (%d matches)" % n_sw, site=rc.loc())
    # a historical optic reading cites only commits up to its coordinate: the witness tail is bounded by the resolved tick, and
    # nothing in its computation reads the live provenance tip
    wb = prog.fn(OB + "ObservationService::checkpoint_plus_tail_witness_basis")
    wb_fns = [wb] + [prog.fns[c] for c in prog.closures_in(wb.id)]
    tip = [(g.name, g.block_line(b)) for g in wb_fns for b in g.call_sites(r"Provenance\w+.*::(len|tip|latest\w*|head\w*)$|::frontier_tick$")]
    rep.check(not tip, "C16.R5", "witness-basis:never-reads-the-live-tip", "the checkpoint+tail witness basis is computed from the resolved coordinate only",
              "the witness basis of a historical reading reads the live provenance tip (%s): it cites commits later than its coordinate and changes with every later commit" % tip, site=wb.loc())
    ogw = wb.origins()
    ent = wb.call_sites(r"ProvenanceService::entry$|::entry$")
    from_art = False
    for (bb, kind, a, b, res, line) in comparisons(wb):
        ta, tb = tokens_of_atoms(ogw.of_operand(a, deep=True)), tokens_of_atoms(ogw.of_operand(b, deep=True))
        if "f:resolved_worldline_tick" in ta | tb:
            from_art = True
    rep.check(from_art and bool(ent), "C16.R5", "witness-basis:bounded-by-resolved-tick", "tail bounds are compared against the artifact's resolved tick; entries looked up (%d sites)" % len(ent),
              "the witness tail is no longer bounded by the artifact's resolved tick", site=wb.loc())
    # a provenance coordinate names ONE recorded commit by (worldline, tick, commit hash): each identifying field of the
    # reference must take part in a comparison somewhere in the optic read tree (a field that is never compared cannot make
    # "history unavailable" visible — the read is then answered from whatever commit sits at that tick)
    oi = prog.fn(OB + "ObservationService::observe_optic_inner")
    otree = [g for g in tree(prog, [oi], stop=lambda i: not i.startswith(OB))[0] if g.id.startswith(OB)]
    PR = "warp_core::provenance_store::ProvenanceRef"
    prog.adt(PR)
    compared = set()
    for g in otree:
        og_ = g.origins()
        for (bb, kind, a, b, res, line) in comparisons(g):
            for o in (a, b):
                for at in og_.of_operand(o, deep=True):
                    for st_ in at.steps:
                        if isinstance(st_, tuple) and st_[0] == PR:
                            compared.add(st_[2])
    for fld in ("worldline_id", "commit_hash"):
        rep.check(fld in compared, "C16.R5", "provenance-coordinate:%s-compared" % fld, "the reference's %s is compared during the optic read" % fld,
                  "CoordinateAt::Provenance(reference): reference.%s is never compared in the optic read tree — a reference naming a commit this history does not contain is answered "
                  "with a reading of the commit that happens to sit at that tick" % fld, site=oi.loc())
    # live state is consulted only for a FRONTIER read: in basis_posture every path to a live read (the strand's live basis report,
    # the frontier tick) takes the `Frontier` edge of a match on the requested coordinate kind
    bp = prog.fn(OB + "ObservationService::basis_posture")
    LIVE = r"::live_basis_report$|::frontier_tick$|WorldlineRuntime::global_tick$"
    live_sites = bp.call_sites(LIVE)
    # a live read inside a closure happens where the closure is handed over
    for bi, si, place, rv, line in bp.assigns():
        if rv["r"] == "agg" and rv.get("ak") == "closure" and rv["adt"] in prog.fns:
            if any(prog.fns[c].call_sites(LIVE) for c in [rv["adt"]] + prog.closures_in(rv["adt"])):
                live_sites.append(bi)
    fr_edges = []
    if len(OAT) == 1:
        for (bb, arms, ow, _u) in enum_switches(bp, OAT[0]):
            tgt = arms.get("Frontier")
            if tgt is None and ow is not None and "Tick" in arms:
                tgt = ow
            if tgt is not None:
                fr_edges.append((bb, tgt))
    # `matches!(at, Frontier)` materialises the arm as a bool: its true edge is a Frontier edge too
    for (bb, tgt) in list(fr_edges):
        for st_ in bp.blocks[tgt]["st"]:
            if st_[0] == "a" and not st_[1][1] and st_[2]["r"] == "use" and "k" in st_[2]["o"] and "true" in str(st_[2]["o"]["k"]) and bp.locals[st_[1][0]] == "bool":
                # only when every other definition of that bool is the constant false (a pure `matches!`): a bool that can also be
                # true for another reason (a comparison in the Tick arm) does not stand for "the Frontier arm was taken"
                others = [d for d in bp.defs().get(st_[1][0], ()) if not (d[0] == "assign" and d[1] == tgt)]
                if all(d[0] == "assign" and d[4]["r"] == "use" and "k" in d[4]["o"] and "false" in str(d[4]["o"]["k"]) for d in others):
                    for sw in switch_edges_on_local(bp, st_[1][0]):
                        fr_edges.append((sw["sw"], sw["true"]))
    w_ = bp.path([0], live_sites, avoid_edges=set(fr_edges)) if live_sites else None
    rep.check(bool(live_sites) and bool(fr_edges) and w_ is None, "C16.R5", "basis-posture:live-reads-only-for-frontier", "%d live read(s), all behind the Frontier arm" % len(live_sites),
              "basis_posture consults live state (%s) on a path that does not take the Frontier arm: the posture of an explicit-tick reading then changes with later commits" % (
                  bp.describe_path(w_) if w_ else "no Frontier arm / no live read found"), site=bp.loc())
    # a provenance lookup is never downgraded to "absent": `.ok()` / `unwrap_or*` on the entry lookup turns unavailable history
    # into an ordinary value (a reading with no commit stamp) instead of a typed obstruction
    swallow = []
    for g in fns_rc0:
        og_ = g.origins()
        for bi, t in g.calls():
            c_ = g.callee_of(t) or ""
            if re.search(r"result::Result(::)?<.*>::(ok|unwrap_or|unwrap_or_default|unwrap_or_else|is_ok|is_err)$", c_) and t["args"]:
                if any(a.kind == "call" and re.search(r"::entry$|::tip_ref$|::len$", a.key[0]) and "rovenance" in a.key[0] for a in og_.of_operand(t["args"][0], deep=False)):
                    swallow.append((g.name, g.block_line(bi), c_.rsplit("::", 1)[-1]))
    rep.check(not swallow, "C16.R6", "resolve:provenance-lookup-never-swallowed", "no provenance lookup result is turned into an Option / default in coordinate resolution",
              "resolve_coordinate swallows a provenance lookup error (%s): history that is not retained is answered with a reading instead of ObservationUnavailable" % swallow[:2], site=rc.loc())
    # ---- R6
    fns_rc = [rc] + [prog.fns[c] for c in prog.closures_in(rc.id)]
    live = constructed_variants(fns_rc, OB + "ObservationError")
    for v in ("InvalidTick", "ObservationUnavailable", "InvalidWorldline"):
        rep.check(v in live, "C16.R6", "obstruction:%s" % v, "typed obstruction constructed", "resolve_coordinate no longer yields ObservationError::%s" % v, site=rc.loc())
    for bb in rc.call_sites(r"ProvenanceService::entry$|::entry$"):
        okk, why = result_inspected(rc, bb)
        n_lookup = locals().get("n_lookup", 0) + 1
        rep.check(okk, "C16.R6", "provenance-lookup-propagated#%d" % n_lookup, why, "provenance lookup error dropped", site=rc.loc())
    ob_tree, _ = tree(prog, [entries[0]])
    live_all = constructed_variants(ob_tree, OB + "ObservationError")
    base = baseline("C16.observe.ObservationError", sorted(live_all))
    for v in base:
        rep.check(v in live_all, "C16.R6", "live:ObservationError::%s" % v, "still constructed", "ObservationError::%s no longer constructed in the observe tree" % v, site=entries[0].loc())
    # ---- R7
    kp = prog.traits.get("echo_wasm_abi::kernel_port::KernelPort")
    rep.check(kp is not None, "C16.R7", "KernelPort:trait", "trait facts present", "KernelPort trait not found", site="echo_wasm_abi::kernel_port")
    if kp:
        sig = {m["n"]: m["self"] for m in kp["methods"]}
        for m in sorted(READ_METHODS):
            rep.check(sig.get(m) == "&Self", "C16.R7", "KernelPort::%s:&self" % m, "declared &self", "KernelPort::%s takes %s" % (m, sig.get(m)), site="echo_wasm_abi::kernel_port::KernelPort")
        unknown = set(sig) - READ_METHODS - WRITE_METHODS
        rep.check(not unknown, "C16.R7", "KernelPort:methods-classified", "all trait methods classified read/write", "unclassified KernelPort methods: %s" % sorted(unknown), site="echo_wasm_abi::kernel_port::KernelPort")
    n_exports = 0
    for f in prog.fns.values():
        if f.crate != "warp_wasm" or not f.is_closure():
            continue
        called = set()
        for bi, t in f.calls():
            d = t["fn"].get("d", "") if "d" in t["fn"] else ""
            if "kernel_port::KernelPort::" in d:
                called.add(d.rsplit("::", 1)[-1])
        if not called:
            continue
        parent = prog.fns.get(f.rec["parent"])
        if parent is None:
            continue
        via = set()
        for bi, t in parent.calls():
            c = parent.callee_of(t) or ""
            if c.endswith("with_kernel_ref") or c.endswith("with_kernel") or c.endswith("with_trusted_kernel"):
                for a in t["args"]:
                    for at in parent.origins().of_operand(a):
                        if at.kind == "agg" and at.key[0] == f.id:
                            via.add(c.rsplit("::", 1)[-1])
        if not via:
            continue
        n_exports += 1
        reads = called & READ_METHODS
        writes = called & WRITE_METHODS
        if reads and not writes:
            rep.check(via == {"with_kernel_ref"}, "C16.R7", "export:%s:shared-borrow" % parent.name, "%s reaches KernelPort::%s through with_kernel_ref" % (parent.name, sorted(reads)),
                      "export %s reaches read method %s through %s (mutable kernel borrow)" % (parent.name, sorted(reads), sorted(via)), site=parent.loc())
    rep.check(n_exports >= 10, "C16.R7", "exports:count", "%d export closures examined" % n_exports, "only %d export closures found" % n_exports, site="warp_wasm")
    wkr = prog.fn("warp_wasm::with_kernel_ref")
    cl = [prog.fns[c] for c in prog.closures_in(wkr.id)]
    ok_ref = any(c.call_sites(r"RefCell.*::borrow$") and not c.call_sites(r"RefCell.*::borrow_mut$") and c.call_sites(r"InstalledKernel::kernel$") for c in cl)
    rep.check(ok_ref, "C16.R7", "with_kernel_ref:borrow-shared", "with_kernel_ref uses RefCell::borrow + kernel()", "with_kernel_ref no longer takes a shared borrow", site=wkr.loc())
    for f in prog.find_fns(r"^<warp_wasm::warp_kernel::WarpKernel as echo_wasm_abi::kernel_port::KernelPort>::"):
        if f.name in READ_METHODS:
            p0 = fn_param_tys(f)[0]
            rep.check(p0.startswith("&") and not p0.startswith("&mut"), "C16.R7", "WarpKernel::%s:&self" % f.name, p0, "WarpKernel::%s takes %s" % (f.name, p0), site=f.loc())
            ids, _ = prog.reach([f])
            bad = sorted(i for i in ids if mrx.search(i))
            rep.check(not bad, "C16.R7", "WarpKernel::%s:never-mutates" % f.name, "tree of %d fns reaches no mutator" % len(ids), "WarpKernel::%s reaches %s" % (f.name, bad[:2]), site=f.loc())
