"""C11 — the log rejects corruption instead of reinterpreting it."""
from ..prims import *
from ..guards import check_strength, check_zip_lengths, check_whole_sequence
from ..guards import find_guard, side_tokens
from ..baselines import baseline

EXPLANATION = (
    "Structural necessary conditions of C11: (R1) every checksum/digest of the log covers every field of the record it "
    "protects (obligations generated from the ADTs); (R2) the validation table: each listed comparison (magic, record "
    "digest, kind, payload digest, header and frame checksums, first/last LSN, record count, transaction id, writer epoch, "
    "local index, LSN continuity, records root, commit digest) exists, compares the right values and gates acceptance; every "
    "rejection variant constructed on the recovery paths stays live; (R3) chain-LINK fields that are written into the log "
    "must be compared with the neighbouring record during recovery — being inside a checksum detects bit damage, not "
    "splicing/removal; (R4) the segment reader reports a torn tail only on length shortfall and an error on any complete "
    "record that fails a check; decode errors are propagated. That every bit flip is detected is NOT decided (BLAKE3 assumed)."
    ' Round 2: guard strength on every validation row (confirmed relation; no new bypass condition); a torn tail is declared only on a length shortfall (offset-vs-length test or checked-add overflow), never on byte content.'
    ' (R5) the per-segment evidence compared with the manifest derives from reading the segment files, not from the recovery scan it is checked against.'
)
ASSUMPTIONS = ["BLAKE3 collision resistance", "frames and commits are presented to recovery in file order"]
FLOOR = 70

CW = "warp_core::causal_wal::"
VE = CW + "WalValidationError"
SE = CW + "WalStoreError"
DE = CW + "WalDecodeError"

GUARDS = [
    (CW + "WalFrame::validate_integrity", VE, "RecordKindMismatch", {"f:kind", "f:payload"}, {"f:header", "f:record_kind"}),
    (CW + "WalFrame::validate_integrity", VE, "PayloadDigestMismatch", {"c:digest", "f:payload"}, {"f:header", "f:payload_digest"}),
    (CW + "WalFrame::validate_integrity", VE, "HeaderChecksumMismatch", {"c:compute_checksum"}, {"f:header_checksum"}),
    (CW + "WalFrame::validate_integrity", VE, "FrameChecksumMismatch", {"c:compute_frame_checksum"}, {"f:frame_checksum", "f:trailer"}),
    (CW + "validate_transaction_frames", VE, "FirstLsnMismatch", {"c:first", "f:lsn"}, {"f:first_lsn", "p:2"}),
    (CW + "validate_transaction_frames", VE, "LastLsnMismatch", {"c:last", "f:lsn"}, {"f:last_lsn", "p:2"}),
    (CW + "validate_transaction_frames", VE, "RecordCountMismatch", {"c:len", "p:1"}, {"f:record_count", "p:2"}),
    (CW + "validate_transaction_frames", VE, "TransactionIdMismatch", {"f:header", "f:transaction_id"}, {"f:transaction_id", "p:2"}),
    (CW + "validate_transaction_frames", VE, "WriterEpochMismatch", {"f:header", "f:writer_epoch"}, {"f:writer_epoch", "p:2"}),
    (CW + "validate_transaction_frames", VE, "TransactionLocalIndexMismatch", {"f:transaction_local_index"}, {"c:enumerate", "c:len_u32"}),
    (CW + "validate_transaction_frames", VE, "LsnContinuityMismatch", {"f:header", "f:lsn"}, {"f:first_lsn", "c:checked_add"}),
    (CW + "validate_transaction_frames", VE, "RecordsRootMismatch", {"c:records_root", "p:1"}, {"f:records_root", "p:2"}),
    (CW + "validate_transaction_frames", VE, "CommitDigestMismatch", {"c:compute_digest", "p:2"}, {"f:commit_digest", "p:2"}),
    (CW + "validate_recovery_frame_order", VE, "LsnContinuityMismatch", {"f:header", "f:lsn"}, {"c:checked_next"}),
    (CW + "read_segment_bytes", SE, "SegmentRecordDigestMismatch", {"p:1"}, {"c:disk_record_digest"}),
    (CW + "read_segment_bytes", SE, "SegmentRecordDigestMismatch", {"c:get", "p:1"}, {"k:WAL_SEGMENT_RECORD_MAGIC", "c:as_slice"}),
    (CW + "WalPayloadCursor::<'a>::finish", DE, "TrailingBytes", {"f:offset"}, {"c:len", "f:bytes"}),
    (CW + "WalCommittedTransaction::validate", VE, "AffectedFrontiersRootMismatch", {"c:affected_frontiers_root"}, {"f:affected_frontiers_root"}),
]

# link fields: a value that names the neighbouring record. `what must hold` is a comparison in the recovery trees.
LINK_FIELDS = [
    (CW + "WalFrameHeader", "previous_frame_digest"),
    (CW + "WalTransactionCommit", "previous_committed_transaction_digest"),
    (CW + "WalFrameHeader", "lsn"),
    (CW + "WalFrameHeader", "transaction_id"),
    (CW + "WalFrameHeader", "transaction_local_index"),
    (CW + "WalFrameHeader", "writer_epoch"),
    (CW + "WalTransactionCommit", "first_lsn"),
    (CW + "WalTransactionCommit", "last_lsn"),
    (CW + "WalTransactionCommit", "record_count"),
    (CW + "WalTransactionCommit", "records_root"),
    (CW + "WalTransactionCommit", "transaction_id"),
    (CW + "WalTransactionCommit", "writer_epoch"),
]


def run(ctx):
    rep = ctx.report
    prog = ctx.prog("trusted")
    rep.rule("C11.R1", "A3 checksum/digest coverage (obligations from ADT definitions)")
    rep.rule("C11.R2", "A2 validation table + A11 rejection variants live on the recovery paths")
    rep.rule("C11.R3", "A12 written-but-never-compared: link fields must be operands of a comparison in the recovery trees")
    rep.rule("C11.R4", "A1 fail-closed segment reader")

    # ---- R1
    cov_specs = [
        (CW + "WalFrameHeader::checksum_input", CW + "WalFrameHeader", set()),
        (CW + "WalTransactionCommit::compute_digest", CW + "WalTransactionCommit", {"commit_digest"}),
        (CW + "affected_frontiers_root", CW + "AffectedFrontier", set()),
        (CW + "WalRecordPayload::digest", CW + "WalRecordPayload", set()),
        (CW + "WalFrame::digest", CW + "WalFrame", set()),
        (CW + "encode_frame", CW + "WalFrameHeader", set()),
        (CW + "encode_commit", CW + "WalTransactionCommit", set()),
        (CW + "push_writer_epoch", CW + "WriterEpoch", set()),
    ]
    for path, adt, exempt in cov_specs:
        f = prog.fn(path)
        names, allf, ns = writer_coverage(prog, f, adt)
        rep.check(ns >= 1, "C11.R1", "covers:%s:sinks" % f.name, "%d sink sites" % ns, "no sink found in %s" % path, site=f.loc())
        for fld in allf:
            if fld in exempt:
                continue
            rep.check(fld in names, "C11.R1", "covers:%s:%s.%s" % (f.id.replace(CW, ""), adt.rsplit("::", 1)[-1], fld), "covered",
                      "%s does not cover %s.%s (damage to that field is not detected / not persisted)" % (path, adt, fld), site=f.loc())
    cfc = prog.fn(CW + "compute_frame_checksum")
    trc, _ = tree(prog, [cfc])
    rep.check(any(f.id.endswith("checksum_input") for f in trc) and ("canonical_bytes" in writer_coverage(prog, cfc, CW + "WalRecordPayload")[0]), "C11.R1",
              "covers:compute_frame_checksum:header+payload", "frame checksum covers header input and payload bytes", "frame checksum no longer covers header and payload bytes", site=cfc.loc())
    rr = prog.fn(CW + "records_root")
    rep.check(bool(rr.call_sites(r"WalFrame::digest$")) and any(a.kind == "call" and a.key[0].endswith("::len") for bb in rr.call_sites(r"Hasher::update$")
              for a in rr.origins().of_operand(rr.blocks[bb]["t"]["args"][1], deep=True)), "C11.R1", "covers:records_root:count-and-each-frame",
              "records root hashes the frame count and each frame digest", "records_root no longer binds count + each frame digest", site=rr.loc())
    drd = prog.fn(CW + "disk_record_digest")
    ogd = drd.origins()
    ps = set()
    for bb in drd.call_sites(r"Hasher::update$|update_len_prefixed$"):
        for a_ in drd.blocks[bb]["t"]["args"]:
            for at in ogd.of_operand(a_, deep=True):
                if at.kind == "param":
                    ps.add(at.key)
    rep.check({1, 2} <= ps, "C11.R1", "covers:disk_record_digest:kind+payload", "disk record digest covers kind and payload", "disk_record_digest covers params %s" % sorted(ps), site=drd.loc())

    # ---- R2
    _zip_done = set()
    _seq_done = set()
    BYTE_READERS = ("read_segment_bytes",)
    for (path, enum, variant, ta, tb) in GUARDS:
        f = prog.fn(path)
        st, detail = find_guard(prog, f, enum, variant, ta, tb)
        rep.check(st == "ok", "C11.R2", "guard:%s:%s:%s~%s" % (f.name, variant, "+".join(sorted(ta)), "+".join(sorted(tb))), detail, "%s — %s" % (st, detail), site=f.loc())
        if st == "ok":
            check_strength(rep, "C11.R2", "guard:%s:%s:%s~%s" % (f.name, variant, "+".join(sorted(ta)), "+".join(sorted(tb))), "C11", prog, f, enum, variant, ta, tb)
        check_zip_lengths(rep, "C11.R2", prog, f, _zip_done)
        if f.name not in BYTE_READERS:   # byte-level readers slice by decoded offsets; their bounds are C13's clause
            check_whole_sequence(rep, "C11.R2", prog, f, _seq_done)
    ents = {"fs-recovery": [prog.fn(CW + "recover_filesystem_store"), prog.fn(CW + "recover_wal_segment_bytes")],
            "scan": [prog.fn(CW + "recover_from_frames_and_commits")]}
    trees = {}
    for name, es in ents.items():
        fns, _ = tree(prog, es)
        trees[name] = fns
        for enum in (VE, SE, DE):
            live = constructed_variants(fns, enum)
            if not live:
                continue
            base = baseline("C11.%s.%s" % (name, enum.rsplit("::", 1)[-1]), sorted(live))
            for v in base:
                rep.check(v in live, "C11.R2", "live:%s:%s::%s" % (name, enum.rsplit("::", 1)[-1], v), "still constructed",
                          "%s::%s is no longer constructed on the %s path (a check was removed)" % (enum, v, name), site=es[0].loc())
    scan = ents["scan"][0]
    for pat, nm in ((r"validate_recovery_frame_order$", "frame-order"), (r"validate_transaction_frames$", "transaction-frames")):
        bs = scan.call_sites(pat)
        rep.check(len(bs) == 1, "C11.R2", "scan:%s:called" % nm, "called once per scan/commit", "%s call sites: %d" % (nm, len(bs)), site=scan.loc())
        for b in bs:
            okk, why = result_inspected(scan, b)
            rep.check(okk, "C11.R2", "scan:%s:propagated" % nm, why, "validation result dropped", site=scan.loc())
    vt = scan.call_sites(r"validate_transaction_frames$")
    rec = agg_blocks(scan, CW + "WalRecoveredTransaction")
    rep.check(bool(vt) and bool(rec) and dominates(scan, vt, rec) is None, "C11.R2", "scan:validated-before-recovered", "a transaction is recovered only after its frames validated",
              "a transaction can be reported recovered without validation", site=scan.loc())
    vi = prog.fn(CW + "validate_recovery_frame_order")
    rep.check(bool(vi.call_sites(r"WalFrame::validate_integrity$")), "C11.R2", "frame-order:integrity-per-frame", "every frame's integrity is validated", "frame order scan no longer validates frame integrity", site=vi.loc())

    # ---- R3
    host_entries = [prog.fn(CW + "recover_filesystem_store"), prog.fn(CW + "recover_from_frames_and_commits"),
                    prog.fn("warp_core::trusted_runtime_host::TrustedRuntimeHost::enable_runtime_wal"),
                    prog.fn("warp_core::external_action::ExternalActionCoordinatorV1::recover")]
    rfns, _ = tree(prog, host_entries)
    compared = set()
    for f in rfns:
        ogf = None
        for (bb, kind, a, b, res, line) in comparisons(f):
            if ogf is None:
                ogf = f.origins()
            for o in (a, b):
                for at in ogf.of_operand(o, deep=True):
                    for s in at.steps:
                        if isinstance(s, tuple) and s[0] in (CW + "WalFrameHeader", CW + "WalTransactionCommit"):
                            compared.add((s[0], s[2]))
    rep.note("recovery trees: %d functions; compared header/commit fields: %s" % (len(rfns), sorted(x[1] for x in compared)))
    for adt, fld in LINK_FIELDS:
        prog.adt(adt)
        rep.check((adt, fld) in compared, "C11.R3", "link-compared:%s.%s" % (adt.rsplit("::", 1)[-1], fld), "compared with its neighbour/commit during recovery",
                  "%s.%s is written, encoded and checksummed but never compared during recovery: a record removed from the middle of the log or spliced from "
                  "another log with matching LSNs passes validation" % (adt.rsplit("::", 1)[-1], fld), site=adt)

    # ---- R4
    # ---- R5 independent evidence: the per-segment digest that the projection compares with the manifest is computed from the
    # bytes on disk.  Computed from the recovery report it is being compared WITH, the comparison is a tautology and frames
    # that lost their commit marker (orphaned in the segment file) are no longer noticed.
    rep.rule("C11.R5", "A7 the segment evidence compared with the manifest derives from reading the segment files, not from the recovery scan it is checked against")
    ev = prog.fn(CW + "filesystem_wal_recovery_segment_evidence")
    sd = ev.call_sites(r"causal_wal::segment_digest$")
    rep.check(len(sd) >= 1, "C11.R5", "segment-evidence:anchor", "segment digests computed (%d site)" % len(sd), "filesystem_wal_recovery_segment_evidence no longer computes segment digests", site=ev.loc())
    for b in sd:
        ats = ev.origins().of_operand(ev.blocks[b]["t"]["args"][1], deep=True)
        from_disk = any(a.kind == "call" and re.search(r"read_segment_file$|read_segment_bytes$|read_filesystem_segments$", a.key[0]) for a in ats)
        from_report = any(steps_have(a, "RecoveryScanReport", "transactions") or steps_have(a, "WalRecoveredTransaction", "frames") for a in ats)
        rep.check(from_disk and not from_report, "C11.R5", "segment-evidence:from-disk", "the digested frames are the frames read from the segment file",
                  "the segment digest is computed from %s: comparing it with the manifest no longer says anything about the frames physically present in the segment" % (
                      "the recovery report" if from_report else "something other than the segment file"), site=ev.loc(ev.block_line(b)))
    # ---- R6 the retention horizon is the start of the OLDEST retained epoch.  Commits of an unknown epoch are skipped only below
    # that horizon (pruned history) and rejected above it.  The oldest retained epoch is the first closed one; the active epoch
    # is the fallback when no closed epoch is retained.  Both spellings are accepted: `closed.first()..or_else(|| active..)` (the
    # active read sits in the or_else closure whose receiver reads closed_epochs) and `match closed.first() { Some.., None => active }`.
    rep.rule("C11.R6", "the unknown-epoch skip horizon prefers the oldest retained closed epoch; the active epoch's start is only the fallback")
    rwc = prog.fn(CW + "reconcile_writer_epoch_closures")
    LED = CW + "WriterEpochLedger"
    ok_pref, seen_alt = False, False
    bodies_ = [rwc] + [prog.fns[c] for c in prog.closures_in(rwc.id)]
    for g in bodies_:
        for bi, t in g.calls():
            c_ = g.callee_of(t) or ""
            if re.search(r"option::Option(::)?<.*>::(or_else|or|unwrap_or_else|map_or_else|xor)$", c_) and len(t["args"]) >= 2:
                recv = chain_field_reads(g, t["args"][0])
                alt = chain_field_reads(g, t["args"][1])
                names_r = {f_ for (a_, f_) in recv if a_ == "WriterEpochLedger"}
                names_a = {f_ for (a_, f_) in alt if a_ == "WriterEpochLedger"}
                if {"closed_epochs", "active_epoch"} <= (names_r | names_a) and any(f_ == "started_at_lsn" for (a_, f_) in recv | alt):
                    seen_alt = True
                    if "closed_epochs" in names_r and "active_epoch" not in names_r and "active_epoch" in names_a:
                        ok_pref = True
    if not seen_alt:
        # match form: the active_epoch read feeding started_at_lsn is reached only through the None edge of a test on closed_epochs.first()
        og_ = rwc.origins()
        none_edges, act_reads = [], []
        for bi, b in enumerate(rwc.blocks):
            for st_ in b["st"]:
                if st_[0] == "a" and st_[2]["r"] == "disc" and st_[2].get("adt", "").endswith("Option"):
                    if any(x == ("WriterEpochLedger", "closed_epochs") for x in chain_field_reads(rwc, {"c": st_[2]["p"]})):
                        for bj, b2 in enumerate(rwc.blocks):
                            t2 = b2["t"]
                            if t2["t"] == "sw" and op_place(t2["o"]) is not None and op_place(t2["o"])[0] == st_[1][0]:
                                vals = {v: tg for v, tg in t2["v"]}
                                none_edges.append((bj, vals.get("0", t2["ow"])))
                                seen_alt = True
        # blocks that give an Option<Lsn> local a value that was read through `active_epoch`
        for bi, si, place, rv, line in rwc.assigns():
            if place[1] or "Lsn" not in rwc.locals[place[0]] or "Option" not in rwc.locals[place[0]]:
                continue
            reads_ = set()
            for o_ in operands_of_rvalue(rv):
                reads_ |= chain_field_reads(rwc, o_)
            if ("WriterEpochLedger", "active_epoch") in reads_ and ("WriterEpochLedger", "closed_epochs") not in reads_:
                act_reads.append(bi)
        if none_edges and act_reads:
            starts = [tg for (sw_, tg) in none_edges]
            ok_pref = all(rwc.path([0], [b_], avoid_edges=set(none_edges)) is None for b_ in act_reads)
    rep.check(seen_alt and ok_pref, "C11.R6", "epoch-horizon:oldest-retained-epoch-first", "the horizon is the oldest retained closed epoch's start, the active epoch's only as a fallback",
              "reconcile_writer_epoch_closures takes the skip horizon from the active epoch even when closed epochs are retained (or the preference could not be established): commits of an "
              "epoch the ledger never admitted that lie between the two starts are skipped instead of rejected", site=rwc.loc())
    rs = prog.fn(CW + "read_segment_bytes")
    oks, errs = ok_return_blocks(rs)
    # the torn_tail flag is element 2 of the returned tuple
    torn_local = None
    for bi, si, place, rv, line in rs.assigns():
        if rv["r"] == "agg" and rv["ak"] == "tuple" and len(rv["os"]) == 3:
            p = op_place(rv["os"][2])
            if p is not None and rs.locals[p[0]] == "bool":
                torn_local = p[0]
                for d in rs.defs().get(p[0], ()):
                    if d[0] == "assign" and d[4]["r"] == "use" and op_place(d[4]["o"]) is not None:
                        torn_local = op_place(d[4]["o"])[0]
    rep.check(torn_local is not None, "C11.R4", "reader:torn-flag", "torn_tail flag identified", "could not identify the torn_tail flag in the returned tuple", site=rs.loc())
    if torn_local is not None:
        set_true = [bi for bi, si, place, rv, line in rs.assigns() if place[0] == torn_local and not place[1] and rv["r"] == "use" and "k" in rv["o"] and "true" in rv["o"]["k"]]
        rep.check(len(set_true) >= 2, "C11.R4", "reader:torn-sites", "%d torn-tail sites" % len(set_true), "torn-tail sites: %d" % len(set_true), site=rs.loc())
        # a torn tail is a LENGTH shortfall: each site is entered from a test of an offset against the buffer length or a
        # checked-add overflow, never from a test of the bytes' content (which would reclassify damage as a torn append)
        from ..guards import describe_condition, coarse_condition
        for b in set_true:
            sw = controlling_switch(rs, b)
            d = coarse_condition(describe_condition(rs, sw)) if sw is not None else "?"
            rep.check(sw is not None and (d.startswith("disc:Option") or (d.startswith("cmp:") and d.endswith("|len"))), "C11.R4", "reader:torn-only-on-length-shortfall",
                      "torn-tail site gated by %s" % d, "torn_tail is declared on a condition that is not a length shortfall (%s): damaged bytes would be treated as a torn append" % d,
                      site=rs.loc(rs.block_line(b)))
        dg = rs.call_sites(r"causal_wal::disk_record_digest$")
        heads = [b for b in range(len(rs.blocks)) if False]
        if dg:
            # once a complete record was read (its digest computed) nothing in that iteration may declare a torn tail
            after = rs.reachable([rs.blocks[dg[0]]["t"]["tgt"]], avoid_blocks=[0])
            # cut at the loop condition: the comparison `offset < bytes.len()` block dominates the body; find back edge target
            body_start = min(rs.reachable([0]))
            w = None
            for b in set_true:
                pth = rs.path([rs.blocks[dg[0]]["t"]["tgt"]], [b], avoid_blocks=_loop_cond_blocks(rs))
                w = w or pth
            rep.check(w is None, "C11.R4", "reader:complete-record-never-torn", "a complete record that fails a check is an error, never a torn tail",
                      "torn_tail can be set after a complete record was read: %s" % rs.describe_path(w), site=rs.loc())
    for pat, nm in ((r"causal_wal::decode_frame$", "frame"), (r"causal_wal::decode_commit$", "commit")):
        for b in rs.call_sites(pat):
            okk, why = result_inspected(rs, b)
            rep.check(okk, "C11.R4", "reader:decode-%s-propagated" % nm, why, "decode error dropped", site=rs.loc())
    rep.check("UnknownDiskRecordKind" in constructed_variants([rs], SE), "C11.R4", "reader:unknown-kind-rejected", "unknown record kind is an error", "unknown disk record kind is no longer rejected", site=rs.loc())


def _loop_cond_blocks(fn):
    """Blocks that compare with Lt against a len() result: the `while offset < bytes.len()` heads."""
    out = []
    og = fn.origins()
    for (bb, kind, a, b, res, line) in comparisons(fn):
        if kind == "Lt" and any(at.kind == "call" and at.key[0].endswith("::len") for at in og.of_operand(b, deep=False)):
            out.append(bb)
    return out
