"""C03 — admission is the canonical greedy independent set with exact blocking witnesses."""
from ..prims import *

EXPLANATION = (
    "Structural necessary conditions of C03 decided on MIR: (R1) the three hand-written copies of the footprint "
    "conflict relation (engine_impl::footprints_conflict, Footprint::independent, RadixScheduler::has_conflict via the "
    "mark mapping) each realise exactly the 13-cell canonical matrix with the right polarity; (R2) mark_all marks every "
    "footprint resource field into its active set; (R3) reserve checks before marking and a rejected candidate marks "
    "nothing; (R4) receipt blockers are computed with footprints_conflict over accepted rewrites only and an empty "
    "blocker list on rejection is an error; (R5) the factor-mask prefilter is not consulted by the receipt/scheduler "
    "predicate. Greedy-set optimality as a value and GenSet generation arithmetic are NOT decided."
)
ASSUMPTIONS = [
    "GenSet::contains/mark and the IdSet/PortSet intersects implementations are correct set operations",
    "ordering of candidates (scope hash, rule id) is covered by C01.R1",
]
FLOOR = 50

FP = "warp_core::footprint::Footprint"
CLASSES = [("n_write", "n_read"), ("e_write", "e_read"), ("a_write", "a_read")]
PORTS = ("b_in", "b_out")
# confirmed by reading scheduler.rs: which ActiveFootprints set holds which footprint field
MARK_MAP = {
    "n_write": "nodes_written", "n_read": "nodes_read",
    "e_write": "edges_written", "e_read": "edges_read",
    "a_write": "attachments_written", "a_read": "attachments_read",
    "b_in": "ports", "b_out": "ports",
}


def canonical_symmetric():
    m = set()
    for w, r in CLASSES:
        m |= {(w, w), (w, r), (r, w)}
    for a in PORTS:
        for b in PORTS:
            m.add((a, b))
    return m


def canonical_active():
    """(active set field, candidate footprint field) cells of has_conflict."""
    m = set()
    for w, r in CLASSES:
        m |= {(MARK_MAP[w], w), (MARK_MAP[r], w), (MARK_MAP[w], r)}
    for p in PORTS:
        m.add(("ports", p))
    return m


def last(fields):
    return fields[-1] if fields else None


def run(ctx):
    rep = ctx.report
    prog = ctx.prog("trusted")
    rep.rule("C03.R1", "A5 pairs: the (field,field) cells tested by each conflict predicate equal the canonical matrix; "
                       "each test has the polarity of its predicate")
    rep.rule("C03.R2", "A5 pairs: mark_all marks footprint field f into MARK_MAP[f] for every resource field of Footprint")
    rep.rule("C03.R3", "A1: in reserve, mark_all unreachable from has_conflict==true; every path to mark_all passes has_conflict")
    rep.rule("C03.R4", "A1/A2: blockers come from footprints_conflict(rewrite, prior in reserved); reserved.push only when accepted; "
                       "empty blockers on rejection returns Err")
    rep.rule("C03.R6", "ordering (shared with C01.R1): queue key agreement, digit table, pass count, every pass executes, dedupe-index stability")
    rep.rule("C03.R5", "A10: footprints_conflict and has_conflict never read Footprint.factor_mask and never call independent")

    fp_adt = prog.adt(FP)
    fp_fields = [f["n"] for f in fp_adt["variants"][0]["fields"]]
    resource_fields = [f for f in fp_fields if f != "factor_mask"]
    # obligations generated from the ADT: a new resource class must be added to the tables (fail closed)
    for f in resource_fields:
        rep.check(f in MARK_MAP, "C03.R2", "footprint-field-known:" + f,
                  "Footprint.%s is in the confirmed resource table" % f,
                  "Footprint has a resource field %s that the conflict tables do not know" % f, site=FP)

    # ---- R1 symmetric predicates
    M = canonical_symmetric()
    for path, want_pol in (("warp_core::engine_impl::footprints_conflict", "true"),
                           ("warp_core::footprint::Footprint::independent", "false")):
        fn = prog.fn(path)
        got = {}
        for bb, line, ra, aa in call_pairs(fn, r"::intersects$", with_closures=True):
            for (pa, fa) in ra:
                for (pb, fb) in aa:
                    if pa == pb or not fa or not fb:
                        continue
                    cell = (last(fa), last(fb)) if pa == 1 else (last(fb), last(fa))
                    got.setdefault(cell, []).append((bb, line))
        for cell in sorted(M):
            rep.check(cell in got, "C03.R1", "%s:cell:%s~%s" % (fn.name, cell[0], cell[1]),
                      "tests a.%s against b.%s" % cell, "overlap case a.%s ~ b.%s is not tested" % cell, site=fn.loc())
        for cell in sorted(set(got) - M):
            rep.bad("C03.R1", "%s:extra-cell:%s~%s" % (fn.name, cell[0], cell[1]),
                    "tests a.%s against b.%s which is not a conflict in the canonical matrix (cross-class or read/read)" % cell,
                    site=fn.loc(got[cell][0][1]))
        for cell, sites in sorted(got.items()):
            for bb, line in sites:
                if isinstance(bb, tuple):
                    continue  # test moved into an iterator adaptor closure: polarity is decided by the adaptor, not checked here
                pol = bool_call_polarity(fn, bb)
                okp = pol == want_pol or (pol == "result" and want_pol == "true")
                rep.check(okp, "C03.R1", "%s:polarity:%s~%s" % (fn.name, cell[0], cell[1]),
                          "an overlap forces return %s" % want_pol,
                          "an overlap on a.%s~b.%s does not force return %s (got %s)" % (cell[0], cell[1], want_pol, pol),
                          site=fn.loc(line))

    # ---- R1 asymmetric predicate (scheduler)
    hc = prog.fn("warp_core::scheduler::RadixScheduler::has_conflict")
    MA = canonical_active()
    got = {}
    for bb, line, ra, aa in call_pairs(hc, r"GenSet.*::contains$", with_closures=True):
        for (pa, fa) in ra:
            for (pb, fb) in aa:
                if pa == 1 and pb == 2 and fa and fb:
                    got.setdefault((last(fa), last(fb)), []).append((bb, line))
    for cell in sorted(MA):
        rep.check(cell in got, "C03.R1", "has_conflict:cell:%s~%s" % cell,
                  "tests active.%s against candidate %s" % cell,
                  "candidate %s is never tested against active.%s" % (cell[1], cell[0]), site=hc.loc())
    for cell in sorted(set(got) - MA):
        rep.bad("C03.R1", "has_conflict:extra-cell:%s~%s" % cell,
                "tests active.%s against candidate %s: not a conflict in the canonical matrix" % cell,
                site=hc.loc(got[cell][0][1]))
    for cell, sites in sorted(got.items()):
        for bb, line in sites:
            if isinstance(bb, tuple):
                continue
            pol = bool_call_polarity(hc, bb)
            rep.check(pol in ("true", "result"), "C03.R1", "has_conflict:polarity:%s~%s" % cell,
                      "a hit forces return true", "a hit on %s~%s does not force return true (got %s)" % (cell[0], cell[1], pol),
                      site=hc.loc(line))

    # ---- R2 mark mapping
    ma = prog.fn("warp_core::scheduler::RadixScheduler::mark_all")
    gotm = set()
    for bb, line, ra, aa in call_pairs(ma, r"GenSet.*::mark$", with_closures=True):
        for (pa, fa) in ra:
            for (pb, fb) in aa:
                if pa == 1 and pb == 2 and fa and fb:
                    gotm.add((last(fb), last(fa)))
    for f in resource_fields:
        want = MARK_MAP.get(f)
        rep.check((f, want) in gotm, "C03.R2", "mark_all:%s->%s" % (f, want),
                  "footprint.%s is marked into active.%s" % (f, want),
                  "footprint.%s is not marked into active.%s (marks: %s)" % (f, want, sorted(x for x in gotm if x[0] == f)),
                  site=ma.loc())
    for (f, s) in sorted(gotm):
        rep.check(MARK_MAP.get(f) == s, "C03.R2", "mark_all:no-cross:%s->%s" % (f, s),
                  "", "footprint.%s is marked into the wrong set active.%s" % (f, s), site=ma.loc())

    # ---- R3 check-then-mark
    rs = prog.fn("warp_core::scheduler::RadixScheduler::reserve")
    hcs = rs.call_sites(r"RadixScheduler::has_conflict$")
    mks = rs.call_sites(r"RadixScheduler::mark_all$")
    rep.check(len(hcs) >= 1 and len(mks) >= 1, "C03.R3", "reserve:calls-present",
              "reserve calls has_conflict (%d) and mark_all (%d)" % (len(hcs), len(mks)),
              "reserve no longer calls has_conflict/mark_all directly (has_conflict=%d, mark_all=%d)" % (len(hcs), len(mks)),
              site=rs.loc())
    if hcs and mks:
        w = rs.path([0], mks, avoid_blocks=hcs)
        rep.check(w is None, "C03.R3", "reserve:mark-after-check", "every path to mark_all passes has_conflict",
                  "mark_all reachable without has_conflict: " + (rs.describe_path(w) if w else ""), site=rs.loc())
        for h in hcs:
            for sw in succ_edges_of_bool_call(rs, h) or []:
                w = rs.path([sw["true"]], mks, avoid_edges=[(sw["sw"], sw["false"])])
                rep.check(w is None, "C03.R3", "reserve:rejected-marks-nothing",
                          "mark_all unreachable from the conflict edge",
                          "mark_all reachable on the has_conflict==true edge: " + (rs.describe_path(w) if w else ""), site=rs.loc())
            rep.check(bool(succ_edges_of_bool_call(rs, h)), "C03.R3", "reserve:conflict-branch",
                      "has_conflict result is branched on", "has_conflict result is not branched on", site=rs.loc())
        # the accepted edge must reach mark_all and return the on_reserved value; rejected returns false
    oc = prog.fn("warp_core::scheduler::RadixScheduler::on_conflict")
    rep.check(bool(ret_const_blocks(oc, "false")) and not ret_const_blocks(oc, "true"), "C03.R3", "on_conflict:returns-false",
              "on_conflict returns false", "on_conflict does not return constant false", site=oc.loc())
    orv = prog.fn("warp_core::scheduler::RadixScheduler::on_reserved")
    rep.check(bool(ret_const_blocks(orv, "true")) and not ret_const_blocks(orv, "false"), "C03.R3", "on_reserved:returns-true",
              "on_reserved returns true", "on_reserved does not return constant true", site=orv.loc())
    # legacy scheduler sibling
    lg = prog.fn_opt("warp_core::scheduler::LegacyScheduler::reserve")
    if lg is not None:
        ind = lg.call_sites(r"Footprint::independent$") + [b for c in prog.closures_in(lg.id) for b in []]
        pushes = lg.call_sites(r"Vec.*::push$")
        rep.check(bool(pushes), "C03.R3", "legacy:push-present", "legacy reserve pushes onto the frontier",
                  "legacy reserve no longer pushes", site=lg.loc())
        tr, _ = tree(prog, [lg])
        uses_ind = any(f.call_sites(r"Footprint::independent$") for f in tr)
        rep.check(uses_ind, "C03.R3", "legacy:uses-independent", "legacy reserve decides with Footprint::independent",
                  "legacy reserve no longer consults Footprint::independent", site=lg.loc())

    # ---- R4 exact blockers
    rr = prog.fn("warp_core::engine_impl::Engine::reserve_for_receipt")
    og = rr.origins()
    res_calls = rr.call_sites(r"RadixScheduler::reserve$|DeterministicScheduler::reserve$|::reserve$")
    res_calls = [b for b in res_calls if "scheduler" in (rr.callee_of(rr.blocks[b]["t"]) or "")]
    fc = rr.call_sites(r"engine_impl::footprints_conflict$")
    rep.check(len(res_calls) == 1, "C03.R4", "receipt:one-reserve-call", "reserve_for_receipt calls scheduler.reserve once per candidate",
              "expected exactly one scheduler reserve call, found %d" % len(res_calls), site=rr.loc())
    rep.check(len(fc) >= 1, "C03.R4", "receipt:blockers-use-footprints_conflict",
              "blockers are computed with footprints_conflict", "blockers are not computed with footprints_conflict", site=rr.loc())
    for b in fc:
        t = rr.blocks[b]["t"]
        a0 = og.of_operand(t["args"][0], deep=True)
        a1 = og.of_operand(t["args"][1], deep=True)

        def has_fp(atoms):
            return any(steps_have(a, "PendingRewrite", "footprint") for a in atoms)
        rep.check(has_fp(a0) and has_fp(a1), "C03.R4", "receipt:blocker-operands",
                  "both operands are PendingRewrite.footprint values",
                  "footprints_conflict is not applied to two PendingRewrite footprints", site=rr.loc(t.get("line")))
        # the prior side must come from iteration over `reserved` (accepted only): its deep origins include
        # an iterator over a local Vec<PendingRewrite> that is also the receiver of the accepted-only push
    if res_calls:
        rb = res_calls[0]
        sws = succ_edges_of_bool_call(rr, rb) or []
        rep.check(len(sws) >= 1, "C03.R4", "receipt:accepted-branch", "reserve result is branched on (%d sites)" % len(sws),
                  "reserve result is not branched on", site=rr.loc())
        # pushes of PendingRewrite into `reserved`
        push_pr = []
        for b in rr.call_sites(r"Vec.*::push$"):
            t = rr.blocks[b]["t"]
            g = t["fn"].get("g", "")
            if "PendingRewrite" in g:
                push_pr.append(b)
        rep.check(len(push_pr) == 1, "C03.R4", "receipt:reserved-push-site", "one push of an accepted rewrite",
                  "expected one Vec<PendingRewrite>::push, found %d" % len(push_pr), site=rr.loc())
        # rejected => no push: every switch on `accepted`: from its false target, cutting other switches' true edges
        false_edges = [(s["sw"], s["false"]) for s in sws]
        true_edges = [(s["sw"], s["true"]) for s in sws]
        # loop head cut: do not travel into the next iteration (the iterator `next` call block)
        nexts = rr.call_sites(r"Iterator.*::next$")
        for s in sws:
            w = rr.path([s["false"]], push_pr, avoid_edges=true_edges, avoid_blocks=nexts)
            rep.check(w is None, "C03.R4", "receipt:rejected-not-reserved",
                      "reserved.push unreachable within the iteration once reserve returned false",
                      "a rejected rewrite can be pushed to `reserved`: " + (rr.describe_path(w) if w else ""), site=rr.loc())
        # the footprints_conflict scan only happens on the rejected side
        for s in sws[:1]:
            w = rr.path([s["true"]], fc, avoid_edges=false_edges, avoid_blocks=nexts + [rb])
            # (the scan sits in an inner loop with its own `next`; cutting all nexts also cuts the inner loop head, so
            #  check from the false side that the scan is reachable instead)
        # empty blockers on rejection -> Err(InternalCorruption)
        ie = rr.call_sites(r"Vec.*::is_empty$")
        found = False
        for b in ie:
            for sw in succ_edges_of_bool_call(rr, b) or []:
                errs = [x for x in agg_blocks(rr, "warp_core::engine_impl::EngineError", "InternalCorruption")]
                reach = rr.reachable([sw["true"]], avoid_edges=[(sw["sw"], sw["false"])], avoid_blocks=nexts)
                rets = set(rr.return_blocks())
                # on the empty edge every path to return passes an InternalCorruption construction
                w = rr.path([sw["true"]], rets, avoid_blocks=set(errs) | set(nexts), avoid_edges=[(sw["sw"], sw["false"])])
                if errs and w is None and (reach & rets):
                    found = True
        rep.check(found, "C03.R4", "receipt:empty-blockers-is-error",
                  "blockers.is_empty() on rejection returns Err(InternalCorruption)",
                  "no `blockers.is_empty()` gate that forces Err(InternalCorruption) was found", site=rr.loc())

    # ---- R6 candidate order
    from .C01 import queue_order_rules
    queue_order_rules(rep, prog, "C03.R6")

    # ---- R5 factor mask not consulted by scheduler/receipt predicates
    for fn in (prog.fn("warp_core::engine_impl::footprints_conflict"), hc):
        reads = [l for bi, p, l in places_read_in(fn) if any(s[2] == "factor_mask" for s in field_steps(p))]
        rep.check(not reads, "C03.R5", "%s:no-factor-mask" % fn.name, "does not read factor_mask",
                  "reads Footprint.factor_mask (mask=0 placeholders would classify conflicts as independent)", site=fn.loc(reads[0] if reads else None))
        tr, _ = tree(prog, [fn])
        rep.check(not any(f.id.endswith("Footprint::independent") for f in tr), "C03.R5", "%s:not-via-independent" % fn.name,
                  "does not route through Footprint::independent", "routes through Footprint::independent (factor-mask prefilter)", site=fn.loc())
    ind = prog.fn("warp_core::footprint::Footprint::independent")
    reads = [l for bi, p, l in places_read_in(ind) if any(s[2] == "factor_mask" for s in field_steps(p))]
    rep.check(bool(reads), "C03.R5", "independent:prefilter-present", "independent keeps its factor_mask prefilter (legacy path only)",
              "independent no longer reads factor_mask (table out of date)", site=ind.loc())
