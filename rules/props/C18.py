"""C18 — materialized output is independent of emission order (thin structural clauses)."""
from ..prims import *

EXPLANATION = (
    "Only thin structural necessary conditions of C18 are decided: (R1) pending emissions live in ordered maps keyed by "
    "channel then by an Ord-derived emit key whose ordering covers (scope hash, rule id, subkey); (R2) a repeated "
    "(channel, key) emission is rejected, never merged: only the vacant arm inserts and the occupied arm returns the "
    "DuplicateEmission error; (R3) finalisation is total over channel policies and reducers, every policy consumes "
    "emissions in key order and nothing re-orders them; (R4) the emissions digest sorts by channel before hashing and "
    "covers channel id, length and data; (R5) the set of reducers declared commutative equals the documented set. "
    "Commutativity/associativity of the reducers on byte strings — the algebraic heart of the property — is NOT decided."
    ' Round 2 (R6): the arms of reducers declared commutative fold every operand — no early exit from an operand loop.'
)
ASSUMPTIONS = ["BTreeMap iteration is key order", "reducer algebra is out of static reach"]
FLOOR = 17

MB = "warp_core::materialization::"
BUS = MB + "bus::MaterializationBus"
COMMUTATIVE = {"Sum", "Max", "Min", "BitOr", "BitAnd"}


def run(ctx):
    rep = ctx.report
    prog = ctx.prog("trusted")
    rep.rule("C18.R1", "A8 ordered containers; EmitKey: Ord derived over all key fields")
    rep.rule("C18.R2", "A6/A1 duplicate (channel,key) rejected, never merged")
    rep.rule("C18.R3", "A6 finalisation total over policies/reducers; key-order consumption; no re-ordering")
    rep.rule("C18.R4", "A1/A3 emissions digest: sort by channel, cover id+len+data")
    rep.rule("C18.R5", "A10 is_commutative set equals the documented set")

    bus = prog.adt(BUS)
    pend = [f["ty"] for f in bus["variants"][0]["fields"] if f["n"] == "pending"][0]
    rep.check("RefCell<std::collections::BTreeMap<" in pend and "std::collections::BTreeMap<warp_core::materialization::emit_key::EmitKey" in pend and "Hash" not in pend.replace("ident::Hash", ""),
              "C18.R1", "bus.pending:type", pend[:120], "MaterializationBus.pending is %s" % pend, site=BUS)
    ek = prog.adt(MB + "emit_key::EmitKey")
    ek_fields = [f["n"] for f in ek["variants"][0]["fields"]]
    derived = {i["trait"].rsplit("::", 1)[-1]: i for i in prog.impls if i.get("adt") == MB + "emit_key::EmitKey" and i.get("trait")}
    rep.check("Ord" in derived, "C18.R1", "EmitKey:Ord", "EmitKey implements Ord (derived=%s)" % derived.get("Ord", {}).get("derived"), "EmitKey has no Ord impl", site=MB + "emit_key::EmitKey")
    cmpf = [f for f in prog.fns.values() if f.rec.get("impl_adt") == MB + "emit_key::EmitKey" and f.rec.get("impl_trait", "").endswith("cmp::Ord") and f.name == "cmp"]
    if cmpf:
        rd = set(read_set(cmpf + [prog.fns[c] for c in prog.closures_in(cmpf[0].id)], MB + "emit_key::EmitKey"))
        rep.check(set(ek_fields) <= rd, "C18.R1", "EmitKey:cmp-covers-all-fields", "Ord::cmp reads %s" % sorted(rd), "EmitKey ordering ignores fields %s" % sorted(set(ek_fields) - rd), site=cmpf[0].loc())
    rep.check({"scope_hash", "rule_id", "subkey"} <= set(ek_fields), "C18.R1", "EmitKey:fields", "fields %s" % ek_fields, "EmitKey fields are %s" % ek_fields, site=MB + "emit_key::EmitKey")

    em = prog.fn(BUS + "::emit")
    ins = em.call_sites(r"VacantEntry.*::insert$|BTreeMap.*::insert$")
    dup = agg_blocks(em, MB + "bus::DuplicateEmission")
    rep.check(len(ins) == 1 and len(dup) == 1, "C18.R2", "emit:anchors", "one insertion site, one DuplicateEmission site", "insert=%d duplicate=%d" % (len(ins), len(dup)), site=em.loc())
    esw = [b for b, blk in enumerate(em.blocks) if blk["t"]["t"] == "sw" and any(st[0] == "a" and st[2]["r"] == "disc" and "btree_map::Entry" in st[2].get("adt", "") for st in blk["st"])]
    ok2 = False
    for b in esw:
        t = em.blocks[b]["t"]
        tg = [x for x in [y[1] for y in t["v"]] + [t["ow"]] if em.blocks[x]["t"]["t"] != "unreachable"]
        if len(tg) == 2 and ins and dup:
            r0, r1 = em.reachable([tg[0]], avoid_blocks=[tg[1]]), em.reachable([tg[1]], avoid_blocks=[tg[0]])
            a = (ins[0] in r0, dup[0] in r0, ins[0] in r1, dup[0] in r1)
            if a in ((True, False, False, True), (False, True, True, False)):
                ok2 = True
    rep.check(ok2, "C18.R2", "emit:occupied-rejects-vacant-inserts", "the arm that inserts cannot reject and the arm that rejects cannot insert",
              "duplicate handling changed: an occupied (channel,key) slot may be overwritten or merged", site=em.loc())
    rep.check(not em.call_sites(r"OccupiedEntry.*::(insert|get_mut|into_mut)$|Vec.*::extend|Vec.*::append$"), "C18.R2", "emit:no-merge", "occupied entries are never modified",
              "emit modifies an occupied entry", site=em.loc())

    fc = prog.fn(BUS + "::finalize_channel")
    for bb, missing, arms in match_absorbed(fc, MB + "channel::ChannelPolicy"):
        rep.check(not missing, "C18.R3", "finalize_channel:total", "names every ChannelPolicy", "wildcard absorbs policies %s" % sorted(missing), site=fc.loc())
    rep.check(bool(match_absorbed(fc, MB + "channel::ChannelPolicy")), "C18.R3", "finalize_channel:matches-policy", "matches on the policy", "no match on ChannelPolicy", site=fc.loc())
    vals = fc.call_sites(r"BTreeMap.*::values$")
    rep.check(len(vals) >= 3 and not fc.call_sites(r"::sort|::reverse$|::rev$|::shuffle"), "C18.R3", "finalize_channel:key-order", "%d policies consume emissions.values() in key order, no re-ordering" % len(vals),
              "finalize_channel re-orders emissions or no longer iterates values() (%d)" % len(vals), site=fc.loc())
    ap = prog.fn(MB + "reduce_op::ReduceOp::apply")
    ms = match_absorbed(ap, MB + "reduce_op::ReduceOp")
    full = [m for m in ms if not m[1] and len(m[2]) >= 8]
    rep.check(bool(full), "C18.R3", "ReduceOp::apply:total", "apply names every reducer", "ReduceOp::apply has no total match over ReduceOp (%s)" % [(sorted(m[1]), len(m[2])) for m in ms], site=ap.loc())
    fin = prog.fn(BUS + "::finalize")
    rep.check(bool(fin.call_sites(r"BTreeMap.*::clear$")) and not fin.call_sites(r"::sort|::reverse$"), "C18.R3", "finalize:map-order-and-clear", "report built in map order; pending cleared",
              "finalize re-orders channels or no longer clears pending", site=fin.loc())

    ed = prog.fn("warp_core::snapshot::compute_emissions_digest")
    srt = ed.call_sites(r"::sort_by$|::sort_by_key$|::sort_unstable_by|::sort$")
    upd = ed.call_sites(r"Hasher::update$")
    og = ed.origins()
    data_upd = [b for b in upd if any(steps_have(a, "FinalizedChannel", f) for a in og.of_operand(ed.blocks[b]["t"]["args"][1], deep=True) for f in ("channel", "data"))]
    rep.check(bool(srt) and bool(data_upd) and dominates(ed, srt, data_upd) is None, "C18.R4", "emissions-digest:sorted-before-hash", "channels sorted before any channel is hashed",
              "channel data hashed without sorting by channel id", site=ed.loc())
    names, allf, ns = writer_coverage(prog, ed, MB + "bus::FinalizedChannel")
    for fld in allf:
        rep.check(fld in names, "C18.R4", "emissions-digest:covers:%s" % fld, "covered", "emissions digest does not cover FinalizedChannel.%s" % fld, site=ed.loc())
    has_len = any(any(a.kind == "call" and a.key[0].endswith("::len") for a in og.of_operand(ed.blocks[b]["t"]["args"][1], deep=True)) and
                  any(steps_have(a, "FinalizedChannel", "data") for a in og.of_operand(ed.blocks[b]["t"]["args"][1], deep=True)) for b in upd)
    rep.check(has_len, "C18.R4", "emissions-digest:length-prefixed", "data length hashed before data", "data length no longer hashed (concatenation ambiguity)", site=ed.loc())
    sc = [prog.fns[c] for c in prog.closures_in(ed.id)]
    rep.check(any(any(s[2] == "channel" for s in field_steps(p)) for c in sc for bi, p, l in places_read_in(c)), "C18.R4", "emissions-digest:sort-key-is-channel", "sort comparator reads .channel",
              "sort comparator does not read the channel id", site=ed.loc())

    # R6: a reducer declared commutative folds EVERY operand.  An operand loop with an early exit ("zero is absorbing, stop")
    # makes the result depend on which operands came before the exit — the result then depends on key order for operands of
    # unequal length although the reducer is declared order-free.
    rep.rule("C18.R6", "A1 commutative reducer arms consume every operand: no early exit from an operand loop")
    asw = enum_switches(ap, MB + "reduce_op::ReduceOp")
    full_sw = [x for x in asw if len(x[1]) >= 8] or asw
    if full_sw:
        bb, arms, ow, _ = full_sw[0]
        tg = set(arms.values())
        for v in sorted(COMMUTATIVE):
            tgt = arms.get(v)
            if tgt is None:
                rep.bad("C18.R6", "commutative-folds-all:%s" % v, "no arm for %s in ReduceOp::apply" % v, site=ap.loc())
                continue
            region = ap.reachable([tgt], avoid_blocks=[x for x in tg if x != tgt])
            loops = iterator_loops(ap, region)
            early = [(ap.block_line(a), ap.block_line(b)) for (h, body, ne, ex) in loops for (a, b) in ex]
            helper_early = []
            for b in region:
                t = ap.blocks[b]["t"]
                if t["t"] == "call":
                    for a in t["args"]:
                        for at in ap.origins().of_operand(a, deep=False):
                            if at.kind == "agg" and at.key[0] in prog.fns:
                                c = prog.fns[at.key[0]]
                                for (h, body, ne, ex) in iterator_loops(c):
                                    helper_early += [(c.block_line(x), c.block_line(y)) for (x, y) in ex]
            rep.check(not early and not helper_early, "C18.R6", "commutative-folds-all:%s" % v, "%d operand loop(s), none exits early" % len(loops),
                      "the %s arm leaves its operand loop early (line %s): later operands are ignored, so the result depends on emission key order" % (v, (early + helper_early)[:2]), site=ap.loc())
    # R7: Max/Min select by the TOTAL order of the payload bytes (`Iterator::max/min`, `Ord::max/min`).  A custom comparator
    # (`max_by(cmp_padded)`) can make two different payloads compare equal; which of them wins then depends on key order.
    rep.rule("C18.R7", "Max/Min pick by the payload's own total order, never through a custom comparator")
    if full_sw:
        bb, arms, ow, _ = full_sw[0]
        tg = set(arms.values())
        for v in ("Max", "Min"):
            tgt = arms.get(v)
            if tgt is None:
                continue
            region = ap.reachable([tgt], avoid_blocks=[x for x in tg if x != tgt])
            callees = [(ap.callee_of(ap.blocks[b]["t"]) or "") for b in region if ap.blocks[b]["t"]["t"] == "call"]
            custom = [c.rsplit("::", 1)[-1] for c in callees if re.search(r"::(max_by|min_by|max_by_key|min_by_key|is_sorted_by|sort_by|sort_unstable_by)$", c)]
            total = [c for c in callees if re.search(r"Iterator::(max|min)$|cmp::Ord::(max|min)$|Iterator>::(max|min)$", c)]
            rep.check(bool(total) and not custom, "C18.R7", "extremum-by-total-order:%s" % v, "selects with %s" % (total[0].rsplit("::", 2)[-2:] if total else "-"),
                      "the %s arm selects through %s: a comparator under which two different payloads tie makes the result depend on emission key order" % (v, custom or "no total-order selection"), site=ap.loc())
    ic = prog.fn(MB + "reduce_op::ReduceOp::is_commutative")
    sws = enum_switches(ic, MB + "reduce_op::ReduceOp")
    got = None
    if sws:
        bb, arms, ow, _ = sws[0]
        tb = set(ret_const_blocks(ic, "true"))
        got = set()
        allv = [v["n"] for v in prog.adt(MB + "reduce_op::ReduceOp")["variants"]]
        for v in allv:
            tgt = arms.get(v, ow)
            others = set(arms.values()) | {ow}
            others.discard(tgt)
            reach = ic.reachable([tgt], avoid_blocks=others)
            if reach & tb:
                got.add(v)
    rep.check(got == COMMUTATIVE, "C18.R5", "is_commutative:set", "commutative reducers = %s" % sorted(COMMUTATIVE),
              "reducers declared commutative are %s, documented set is %s" % (sorted(got) if got is not None else None, sorted(COMMUTATIVE)), site=ic.loc())
