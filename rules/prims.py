"""Analysis primitives A1..A12 (see DESIGN.md §2.4). Pure functions of the facts."""
import re
from collections import defaultdict

from .engine import Fn, op_place, field_steps, const_int, AnchorMissing, resolve_upvars


# ------------------------------------------------------------------ helpers

def tree(prog, entries, stop=None):
    """Workspace functions reachable from the entries (Fn objects or ids)."""
    ids, ext = prog.reach(entries, stop)
    return [prog.fns[i] for i in sorted(ids)], ext


def rx(p):
    return re.compile(p) if isinstance(p, str) else p


def operands_of_rvalue(rv):
    ops = []
    if "o" in rv:
        ops.append(rv["o"])
    if "os" in rv:
        ops.extend(rv["os"])
    if "a" in rv and isinstance(rv.get("a"), dict):
        ops.extend([rv["a"], rv["b"]])
    return ops


def places_read_in(fn, include_cleanup=False):
    """Every place read (operand / borrowed / discriminant-inspected) in a body, with line."""
    for bi, b in enumerate(fn.blocks):
        if b["cl"] and not include_cleanup:
            continue
        for st in b["st"]:
            if st[0] != "a":
                continue
            rv = st[2]
            for o in operands_of_rvalue(rv):
                p = op_place(o)
                if p is not None:
                    yield bi, p, st[3]
            if "p" in rv:
                yield bi, rv["p"], st[3]
        t = b["t"]
        if t["t"] in ("call", "tailcall"):
            for o in t["args"]:
                p = op_place(o)
                if p is not None:
                    yield bi, p, t.get("line", 0)
        elif t["t"] == "sw":
            p = op_place(t["o"])
            if p is not None:
                yield bi, p, t.get("line", 0)


# ------------------------------------------------------------------ A11 variant_live

def constructed_variants(fns, enum_path):
    """variant -> [(fn id, line)] for every `Aggregate(enum::Variant)` (or unit-variant constant /
    SetDiscriminant) in the given bodies."""
    out = defaultdict(list)
    short = enum_path.rsplit("::", 1)[-1]
    for f in fns:
        for bi, b in enumerate(f.blocks):
            for st in b["st"]:
                if st[0] == "a":
                    rv = st[2]
                    if rv["r"] == "agg" and rv.get("adt") == enum_path:
                        out[rv["var"]].append((f.id, st[3]))
                    else:
                        for o in operands_of_rvalue(rv):
                            k = o.get("k") if "k" in o else None
                            if k and o.get("ty") == enum_path:
                                # unit variants appear as constants: `const Enum::Variant`
                                m = re.search(r"::([A-Za-z0-9_]+)\s*$", k.replace("const ", ""))
                                if m:
                                    out[m.group(1)].append((f.id, st[3]))
            t = b["t"]
            if t["t"] in ("call", "tailcall"):
                for o in t["args"]:
                    if "k" in o and o.get("ty") == enum_path:
                        m = re.search(r"::([A-Za-z0-9_]+)\s*$", o["k"].replace("const ", ""))
                        if m:
                            out[m.group(1)].append((f.id, t.get("line", 0)))
                    # tuple-variant constructors used as fn items: map_err(Enum::Variant)
                    if "fn" in o and o["fn"] and o["fn"].startswith(enum_path + "::"):
                        out[o["fn"].rsplit("::", 1)[-1]].append((f.id, t.get("line", 0)))
                fj = t["fn"]
                if "r" in fj and (fj["r"] or "").startswith(enum_path + "::"):
                    # calling a tuple-variant constructor as a function
                    nm = fj["r"].rsplit("::", 1)[-1]
                    out[nm].append((f.id, t.get("line", 0)))
    return out


# ------------------------------------------------------------------ A6 match_total

def enum_switches(fn, enum_path):
    """SwitchInt terminators whose discriminant comes from `Discriminant(place: enum_path)`.
    Returns [(bb, {variant_name: target_bb}, otherwise_bb, otherwise_is_unreachable)]."""
    adt = fn.prog.adts.get(enum_path)
    out = []
    disc_locals = {}
    for bi, b in enumerate(fn.blocks):
        for st in b["st"]:
            if st[0] == "a" and st[2]["r"] == "disc" and st[2].get("adt") == enum_path and not st[1][1]:
                disc_locals[st[1][0]] = bi
    if not disc_locals:
        return out
    names = None
    if adt is not None:
        names = {}
        discrs = adt.get("discrs") or []
        for i, v in enumerate(adt["variants"]):
            val = discrs[i] if i < len(discrs) else str(i)
            names[str(val)] = v["n"]
    for bi, b in enumerate(fn.blocks):
        t = b["t"]
        if t["t"] != "sw":
            continue
        p = op_place(t["o"])
        if p is None or p[1] or p[0] not in disc_locals:
            continue
        arms = {}
        for val, tgt in t["v"]:
            nm = names.get(val, "#" + val) if names else "#" + val
            arms[nm] = tgt
        ow = t["ow"]
        ow_unreach = fn.blocks[ow]["t"]["t"] == "unreachable" and not fn.blocks[ow]["st"]
        out.append((bi, arms, ow, ow_unreach))
    return out


def match_absorbed(fn, enum_path):
    """For each switch on enum_path in fn: the set of variants that fall into a live `otherwise`
    (wildcard / binding arm).  Empty set = the match names every variant."""
    adt = fn.prog.adt(enum_path)
    allv = [v["n"] for v in adt["variants"]]
    res = []
    for bb, arms, ow, ow_unreach in enum_switches(fn, enum_path):
        if ow_unreach:
            # all variants that are not listed are statically impossible here (rustc proved exhaustiveness)
            missing = [v for v in allv if v not in arms]
            # with an unreachable otherwise rustc lists all but possibly one variant... keep exact
            res.append((bb, set(), set(arms)))
        else:
            missing = set(v for v in allv if v not in arms)
            res.append((bb, missing, set(arms)))
    return res


# ------------------------------------------------------------------ A4 mod sets

def mod_set(fns, adt_path):
    """First-level fields of `adt_path` that the given bodies may write: assignment through the
    field, `&mut`/two-phase borrow of a place through the field, or a Drop+assign of it.
    Returns {field: [(fn id, line, how)]}."""
    out = defaultdict(list)
    for f in fns:
        for bi, b in enumerate(f.blocks):
            for st in b["st"]:
                if st[0] != "a":
                    continue
                place, rv, line = st[1], st[2], st[3]
                for (adt, var, fld) in field_steps(place):
                    if adt == adt_path:
                        out[fld].append((f.id, line, "assign"))
                if rv["r"] in ("ref", "raw") and rv["bk"] in ("mut", "two", "Mut"):
                    for (adt, var, fld) in field_steps(rv["p"]):
                        if adt == adt_path:
                            out[fld].append((f.id, line, "&mut"))
            t = b["t"]
            if t["t"] == "call":
                for (adt, var, fld) in field_steps(t["dest"]):
                    if adt == adt_path:
                        out[fld].append((f.id, t.get("line", 0), "call-dest"))
    return out


def read_set(fns, adt_path):
    out = defaultdict(list)
    for f in fns:
        for bi, p, line in places_read_in(f):
            for (adt, var, fld) in field_steps(p):
                if adt == adt_path:
                    out[fld].append((f.id, line))
    return out


# ------------------------------------------------------------------ A3 coverage

_sink_param_memo = {}


def sink_params(prog, fid, srx, depth=0):
    """Parameter indexes of workspace function `fid` whose value (deep) reaches an argument of a sink call,
    directly or through further workspace helpers (bounded)."""
    key = (id(prog), fid, srx.pattern)
    if key in _sink_param_memo:
        return _sink_param_memo[key]
    f = prog.fns.get(fid)
    if f is None or depth > 5:
        return frozenset()
    _sink_param_memo[key] = frozenset()
    out = set()
    og = f.origins()
    for bi, t in f.calls():
        if f.blocks[bi]["cl"]:
            continue
        callee = f.callee_of(t) or ""
        decl = t["fn"].get("d", "") if "d" in t["fn"] else ""
        positions = None
        if srx.search(callee) or srx.search(decl):
            positions = range(len(t["args"]))
        elif callee in prog.fns and callee != fid:
            sp = sink_params(prog, callee, srx, depth + 1)
            positions = [i - 1 for i in sp if 0 <= i - 1 < len(t["args"])]
        if not positions:
            continue
        for ai in positions:
            for atom in og.of_operand(t["args"][ai], deep=True):
                if atom.kind == "param":
                    out.add(atom.key)
    res = frozenset(out)
    _sink_param_memo[key] = res
    return res


def sink_field_atoms(fns, sink_pat, arg_filter=None):
    """All (adt, variant, field) steps occurring in the deep origins of values that reach a sink: arguments of
    calls whose callee matches sink_pat, or arguments of workspace helpers whose corresponding parameter reaches
    such a sink (summaries).  Returns ({step: [(fn id, line)]}, number of direct sink sites)."""
    srx = rx(sink_pat)
    covered = defaultdict(list)
    nsinks = 0
    for f in fns:
        og = None
        for bi, t in f.calls():
            if f.blocks[bi]["cl"]:
                continue
            callee = f.callee_of(t) or ""
            decl = t["fn"].get("d", "") if "d" in t["fn"] else ""
            args = t["args"]
            if srx.search(callee) or srx.search(decl):
                nsinks += 1
                positions = list(range(len(args)))
            elif callee in f.prog.fns:
                sp = sink_params(f.prog, callee, srx)
                positions = [i - 1 for i in sp if 0 <= i - 1 < len(args)]
                if not positions:
                    continue
            else:
                continue
            if og is None:
                og = f.origins()
            for ai in positions:
                a = args[ai]
                if arg_filter and not arg_filter(ai, a):
                    continue
                for atom in og.of_operand(a, deep=True):
                    for s in atom.steps:
                        if isinstance(s, tuple):
                            covered[s].append((f.id, t.get("line", 0)))
                    if atom.kind == "call":
                        # value computed by a workspace helper: the fields that helper reads into its return value
                        for s in ret_field_steps(f.prog, atom.key[0]):
                            covered[s].append((f.id, t.get("line", 0)))
    return covered, nsinks


def control_field_atoms(fns, sink_pat):
    """Fields covered by control dependence: in a body that contains a sink call, a field whose discriminant is
    matched on (each arm then feeds its own tag constant to the sink)."""
    srx = rx(sink_pat)
    out = set()
    for f in fns:
        if not f.call_sites(srx):
            continue
        for bi, si, place, rv, line in f.assigns():
            if rv["r"] == "disc":
                for s in field_steps(rv["p"]):
                    out.add(s)
    return out


_ret_memo = {}


def ret_field_steps(prog, fid, depth=0):
    """Field steps occurring in the deep origins of a workspace function's return value (transitively through
    the helpers it calls, bounded depth)."""
    key = (id(prog), fid)
    if key in _ret_memo:
        return _ret_memo[key]
    f = prog.fns.get(fid)
    if f is None or depth > 4:
        return frozenset()
    _ret_memo[key] = frozenset()
    out = set()
    og = f.origins()
    for atom in og.of_local(0, deep=True):
        for s in atom.steps:
            if isinstance(s, tuple):
                out.add(s)
        if atom.kind == "call":
            out |= ret_field_steps(prog, atom.key[0], depth + 1)
    res = frozenset(out)
    _ret_memo[key] = res
    return res


def adt_obligations(prog, roots, stop_adts=(), max_depth=8):
    """(adt, variant, field) for every field reachable from the root ADTs through workspace-local ADTs
    (following the type strings of fields; containers are looked through textually)."""
    obligations = []
    seen = set()
    stack = [(r, 0) for r in roots]
    local_names = prog.adts
    while stack:
        a, d = stack.pop()
        if a in seen or a in stop_adts:
            continue
        seen.add(a)
        rec = local_names.get(a)
        if rec is None:
            continue
        for v in rec["variants"]:
            for fld in v["fields"]:
                obligations.append((a, v["n"], fld["n"]))
                if d < max_depth:
                    for m in re.finditer(r"[A-Za-z_][A-Za-z0-9_]*(?:::[A-Za-z_][A-Za-z0-9_]*)+", fld["ty"]):
                        if m.group(0) in local_names:
                            stack.append((m.group(0), d + 1))
    return obligations


# ------------------------------------------------------------------ A9 effects

def reach_forbidden(prog, entries, forbidden_pat, stop=None, allow=()):
    """Call chains from the entries to any callee (workspace or external) matching forbidden_pat."""
    frx = rx(forbidden_pat)
    allow = [rx(a) for a in allow]
    hits = []
    ids, ext = prog.reach(entries, stop)
    bad = set(e for e in ext if frx.search(e) and not any(a.search(e) for a in allow))
    bad |= set(i for i in ids if frx.search(i) and not any(a.search(i) for a in allow))
    for b in sorted(bad):
        for e in entries:
            chain = prog.call_chain(e, lambda p, b=b: p == b, stop)
            if chain:
                hits.append((b, chain))
                break
    return hits, len(ids), len(ext)


# ------------------------------------------------------------------ A1 path rules

def succ_edges_of_bool_call(fn, bb):
    """For a call at bb whose bool result is immediately switched on: (true_edge, false_edge)
    as (switch_bb, target_bb) pairs; None if the shape is not recognised."""
    t = fn.blocks[bb]["t"]
    if t["t"] != "call" or t.get("tgt") is None:
        return None
    dest = t["dest"]
    if dest[1]:
        return None
    return switch_edges_on_local(fn, dest[0], start=t["tgt"])


def switch_edges_on_local(fn, local, start=None):
    """Find a SwitchInt on `local` (possibly after copies / a `Not`), return dict value->(sw_bb,target) and
    'otherwise'. Handles negation by swapping."""
    # follow simple copies / not
    aliases = {local: False}  # local -> negated?
    changed = True
    while changed:
        changed = False
        for bi, si, place, rv, line in fn.assigns():
            if place[1]:
                continue
            if rv["r"] == "use":
                p = op_place(rv["o"])
                if p is not None and not p[1] and p[0] in aliases and place[0] not in aliases:
                    aliases[place[0]] = aliases[p[0]]
                    changed = True
            elif rv["r"] == "un" and rv["op"] == "Not":
                p = op_place(rv["o"])
                if p is not None and not p[1] and p[0] in aliases and place[0] not in aliases:
                    aliases[place[0]] = not aliases[p[0]]
                    changed = True
    res = []
    for bi, b in enumerate(fn.blocks):
        t = b["t"]
        if t["t"] != "sw":
            continue
        p = op_place(t["o"])
        if p is None or p[1] or p[0] not in aliases:
            continue
        neg = aliases[p[0]]
        false_t = None
        for val, tgt in t["v"]:
            if val == "0":
                false_t = tgt
        true_t = t["ow"]
        if false_t is None:
            continue
        if neg:
            true_t, false_t = false_t, true_t
        res.append({"sw": bi, "true": true_t, "false": false_t})
    return res


def result_edges(fn, bb):
    """For a call at `bb` returning Result/Option/ControlFlow that is inspected by `?` or match:
    returns dict with 'ok' and 'err' lists of (switch_bb, target_bb) edges.
    Recognised shapes (MIR opt-level 0):
      dest = call(..); r = Try::branch(move dest); d = discriminant(r); switch d [0: continue, 1: break]
      dest = call(..); d = discriminant(dest); switch d [0: ..(Ok/None), 1: ..(Err/Some)]
    The mapping of discriminant values to ok/err uses the ADT of the switched place:
      Result: 0=Ok 1=Err ; ControlFlow: 0=Continue 1=Break ; Option: 0=None 1=Some (reported as 'none'/'some')."""
    t = fn.blocks[bb]["t"]
    out = {"ok": [], "err": [], "none": [], "some": []}
    if t["t"] != "call" or t.get("tgt") is None or t["dest"][1]:
        return out
    tracked = {t["dest"][0]: "direct"}
    # follow moves and Try::branch
    work = True
    while work:
        work = False
        for bi, b in enumerate(fn.blocks):
            for st in b["st"]:
                if st[0] == "a" and not st[1][1] and st[2]["r"] == "use":
                    p = op_place(st[2]["o"])
                    if p is not None and not p[1] and p[0] in tracked and st[1][0] not in tracked:
                        tracked[st[1][0]] = tracked[p[0]]
                        work = True
            tt = b["t"]
            if tt["t"] == "call" and not tt["dest"][1] and tt["dest"][0] not in tracked:
                cal = fn.callee_of(tt) or ""
                d = tt["fn"].get("d", "")
                if d.endswith("Try::branch") or cal.endswith("::branch") and "Try" in d:
                    a0 = tt["args"][0] if tt["args"] else None
                    p = op_place(a0) if a0 else None
                    if p is not None and not p[1] and p[0] in tracked:
                        tracked[tt["dest"][0]] = "branch"
                        work = True
    disc = {}
    for bi, b in enumerate(fn.blocks):
        for st in b["st"]:
            if st[0] == "a" and not st[1][1] and st[2]["r"] == "disc":
                p = st[2]["p"]
                if not p[1] and p[0] in tracked:
                    disc[st[1][0]] = (tracked[p[0]], st[2].get("adt", ""))
    for bi, b in enumerate(fn.blocks):
        tt = b["t"]
        if tt["t"] != "sw":
            continue
        p = op_place(tt["o"])
        if p is None or p[1] or p[0] not in disc:
            continue
        how, adt = disc[p[0]]
        vals = {v: tgt for v, tgt in tt["v"]}
        ow = tt["ow"]

        def tgt_of(v):
            return vals.get(v, ow)
        if adt.endswith("Option"):
            out["none"].append((bi, tgt_of("0")))
            out["some"].append((bi, tgt_of("1")))
        else:
            out["ok"].append((bi, tgt_of("0")))
            out["err"].append((bi, tgt_of("1")))
    return out


def return_aliases(fn):
    """Locals whose whole value is moved/copied into the return place (`let r = Ok(x); r`, and the return place of a
    helper inlined into this view): {0} ∪ {L : _a = use(L), a alias}."""
    al = getattr(fn, "_ret_aliases", None) if False else None
    out = {0}
    changed = True
    while changed:
        changed = False
        for bi, si, place, rv, line in fn.assigns():
            if place[0] in out and not place[1] and rv["r"] == "use":
                p = op_place(rv["o"])
                if p is not None and not p[1] and p[0] not in out:
                    out.add(p[0])
                    changed = True
    return out


def ok_return_blocks(fn):
    """Blocks that assign `Result::Ok(..)` / `Option::Some` to the return place, and blocks that assign Err/
    propagate a residual."""
    oks, errs = [], []
    ra = return_aliases(fn)
    for bi, b in enumerate(fn.blocks):
        if b["cl"]:
            continue
        for st in b["st"]:
            if st[0] == "a" and st[1][0] in ra and not st[1][1]:
                rv = st[2]
                if rv["r"] == "agg" and rv.get("adt", "").endswith("result::Result"):
                    (oks if rv["var"] == "Ok" else errs).append(bi)
        t = b["t"]
        if t["t"] == "call" and t["dest"][0] in ra and not t["dest"][1]:
            d = t["fn"].get("d", "") if "d" in t["fn"] else ""
            if d.endswith("from_residual"):
                errs.append(bi)
            else:
                # tail-expression call returning the callee's Result: both outcomes
                pass
    return oks, errs


def must_pass(fn, starts, goals, through, unwind=False, avoid_edges=()):
    """Every path starts -> goals passes a block in `through`?  Returns None if yes, else a witness path."""
    return fn.path(starts, goals, avoid_blocks=through, unwind=unwind, avoid_edges=avoid_edges)


def assign_blocks(fn, adt_path, field, include_cleanup=False):
    """Blocks that assign to a place ending with Field(adt_path, field) (whole-field assignment)."""
    out = []
    for bi, b in enumerate(fn.blocks):
        if b["cl"] and not include_cleanup:
            continue
        for st in b["st"]:
            if st[0] == "a":
                fs = field_steps(st[1])
                if fs and fs[-1][0] == adt_path and fs[-1][2] == field:
                    # last projection must be that field (not a sub-field)
                    last = st[1][1][-1]
                    if isinstance(last, list) and last[0] == "f" and last[3] == field:
                        out.append(bi)
    return out


def agg_blocks(fn, adt_path, variant=None):
    out = []
    for bi, b in enumerate(fn.blocks):
        if b["cl"]:
            continue
        for st in b["st"]:
            if st[0] == "a" and st[2]["r"] == "agg" and st[2].get("adt") == adt_path:
                if variant is None or st[2].get("var") == variant:
                    out.append(bi)
    return out


# ------------------------------------------------------------------ A2 comparisons

CMP_OPS = {"Eq", "Ne", "Lt", "Le", "Gt", "Ge"}
CMP_CALL = re.compile(r"(PartialEq.*::(eq|ne)$)|(::cmp::(PartialOrd|Ord).*::(lt|le|gt|ge|cmp|partial_cmp)$)|(::eq$)|(::ne$)")


def comparisons(fn):
    """[(bb, kind, lhs_operand, rhs_operand, result_local, line)] for BinaryOp comparisons and
    PartialEq/Ord calls."""
    out = []
    for bi, b in enumerate(fn.blocks):
        if b["cl"]:
            continue
        for st in b["st"]:
            if st[0] == "a" and st[2]["r"] == "bin" and st[2]["op"] in CMP_OPS and not st[1][1]:
                out.append((bi, st[2]["op"], st[2]["a"], st[2]["b"], st[1][0], st[3]))
        t = b["t"]
        if t["t"] == "call" and len(t["args"]) == 2 and not t["dest"][1]:
            d = t["fn"].get("d", "") if "d" in t["fn"] else ""
            r = t["fn"].get("r", "") if "r" in t["fn"] else ""
            if CMP_CALL.search(d) or CMP_CALL.search(r or ""):
                kind = (d or r).rsplit("::", 1)[-1]
                out.append((bi, kind, t["args"][0], t["args"][1], t["dest"][0], t.get("line", 0)))
    return out


def atoms_match(atoms, pred):
    return any(pred(a) for a in atoms)


def steps_have(atom, adt_suffix, field):
    for s in atom.steps:
        if isinstance(s, tuple) and s[2] == field and (adt_suffix is None or s[0].endswith(adt_suffix)):
            return True
    return False


def find_comparison(fn, pred_a, pred_b, deep=True):
    """Comparisons in fn where one side's origins satisfy pred_a and the other pred_b (either order)."""
    og = fn.origins()
    hits = []
    for (bb, kind, a, b, res, line) in comparisons(fn):
        oa = og.of_operand(a, deep=deep)
        ob = og.of_operand(b, deep=deep)
        if (atoms_match(oa, pred_a) and atoms_match(ob, pred_b)) or (atoms_match(oa, pred_b) and atoms_match(ob, pred_a)):
            hits.append((bb, kind, res, line))
    return hits


def comparison_gates(fn, cmp_hit):
    """Does the comparison result feed a SwitchInt whose two successors differ in what they can reach?
    Returns the list of switch descriptors (sw bb, true, false)."""
    bb, kind, res, line = cmp_hit
    return switch_edges_on_local(fn, res)


# ------------------------------------------------------------------ A5 pairs

def atom_param_fields(atoms):
    """{(param index, tuple of field names)} for param-rooted atoms (field names only, closures' upvars kept)."""
    out = set()
    for a in atoms:
        if a.kind == "param":
            out.add((a.key, tuple(s[2] for s in a.steps if isinstance(s, tuple) and not s[0].startswith(("core::", "std::", "alloc::", "(")))))
    return out


def call_pairs(fn, callee_pat, deep=True, with_closures=False):
    """For each non-cleanup call matching callee_pat with >= 2 args:
    (bb, line, recv {(param, fields)}, arg {(param, fields)}).  With with_closures the closures defined inside fn are
    scanned too (captured variables resolved to the enclosing function's origins); their rows carry bb = (closure, bb)."""
    out = []
    og = fn.origins()
    for bb in fn.call_sites(callee_pat):
        t = fn.blocks[bb]["t"]
        if len(t["args"]) < 2:
            continue
        ra = atom_param_fields(og.of_operand(t["args"][0], deep=deep))
        aa = atom_param_fields(og.of_operand(t["args"][1], deep=deep))
        out.append((bb, t.get("line", 0), ra, aa))
    if with_closures:
        for cid in fn.prog.closures_in(fn.id):
            c = fn.prog.fns[cid]
            cog = c.origins()
            for bb in c.call_sites(callee_pat):
                t = c.blocks[bb]["t"]
                if len(t["args"]) < 2:
                    continue
                # resolve up to the outermost enclosing function
                def up(atoms, f=c):
                    cur, g = atoms, f
                    while g.is_closure():
                        cur = resolve_upvars(g, cur, deep)
                        g = fn.prog.fns.get(g.rec.get("parent"))
                        if g is None:
                            break
                    return cur
                ra = atom_param_fields(up(cog.of_operand(t["args"][0], deep=deep)))
                aa = atom_param_fields(up(cog.of_operand(t["args"][1], deep=deep)))
                out.append(((cid, bb), t.get("line", 0), ra, aa))
    return out


def ret_const_blocks(fn, value):
    """Blocks that assign the constant `value` ('true'/'false'/int) to the return place."""
    out = []
    for bi, si, place, rv, line in fn.assigns():
        if place[0] == 0 and not place[1] and rv["r"] == "use" and "k" in rv["o"]:
            k = rv["o"]["k"].replace("const ", "").strip()
            if k == value:
                out.append(bi)
    return out


def bool_call_polarity(fn, bb):
    """What does a `true` result of the bool call at `bb` force the function to return?
    'true' / 'false' / 'result' (the call result itself is the return value) / None (unrecognised)."""
    t = fn.blocks[bb]["t"]
    dest = t["dest"]
    if dest[0] == 0 and not dest[1]:
        return "result"
    sws = switch_edges_on_local(fn, dest[0])
    if not sws:
        # result moved into _0 ?
        for bi, si, place, rv, line in fn.assigns():
            if place[0] == 0 and not place[1] and rv["r"] == "use":
                p = op_place(rv["o"])
                if p is not None and p[0] == dest[0]:
                    return "result"
        return None
    rets = set(fn.return_blocks())
    verdicts = set()
    for sw in sws:
        tt = sw["true"]
        for val in ("true", "false"):
            cut = set(ret_const_blocks(fn, val))
            # the true-successor must reach a return, and only through an assignment `_0 = val`
            reach_all = fn.reachable([tt])
            if not (reach_all & rets):
                continue
            if tt in cut:
                verdicts.add(val)
                continue
            reach = fn.reachable([tt], avoid_blocks=cut)
            if not (reach & rets):
                verdicts.add(val)
    if len(verdicts) == 1:
        return verdicts.pop()
    return None


# ------------------------------------------------------------------ A8 type rules

CELL_DEFS = ("std::cell::UnsafeCell", "core::cell::UnsafeCell")
REFCOUNT_OK = (
    ("alloc::sync::ArcInner.strong", "refcount only (Arc)"),
    ("alloc::sync::ArcInner.weak", "refcount only (Arc)"),
    ("alloc::rc::RcInner.strong", "refcount only (Rc)"),
    ("alloc::rc::RcInner.weak", "refcount only (Rc)"),
    ("bytes::Bytes.data", "bytes::Bytes shared-buffer pointer (refcount only)"),
)


def interior_mut(prog, ty, allow=REFCOUNT_OK):
    """UnsafeCell nodes reachable from `ty` in the exported type graph.
    Returns (hits, allowed): lists of (cell type, path labels)."""
    if ty not in prog.tys:
        raise AnchorMissing("type not in the exported type graph: %s" % ty)
    hits, allowed = [], []
    for t, path in prog.ty_reach(ty).items():
        node = prog.tys.get(t)
        if node is None or node.get("def") not in CELL_DEFS:
            continue
        reason = None
        for lbl, why in allow:
            if any(lbl in p or p.endswith(lbl.split("::")[-1]) and lbl.split("::")[-1] in p for p in path):
                if any(p.endswith(lbl.rsplit("::", 1)[-1]) or lbl in p for p in path):
                    reason = why
                    break
        (allowed if reason else hits).append((t, path))
    return hits, allowed


def dominates(fn, a_blocks, b_blocks, unwind=False):
    """Every path entry -> any b passes some a (a_blocks non-empty).  Returns witness path or None."""
    if not a_blocks:
        return [0]
    bs = [b for b in b_blocks if b not in a_blocks]
    return fn.path([0], bs, avoid_blocks=a_blocks, unwind=unwind)


def fn_ret_ty(fn):
    return fn.locals[0]


def fn_param_tys(fn):
    return fn.locals[1:fn.argc + 1]


NONDET = (r"^std::time::(SystemTime|Instant)::now$|^std::time::Instant::elapsed$|^rand(_core|_chacha)?::|^getrandom::|"
          r"^std::env::(var|vars|var_os|args|current_dir|temp_dir)|^std::thread::(current|available_parallelism)$|"
          r"RandomState::new$|^std::hash::random::|^std::collections::hash_map::|^std::collections::HashMap|^std::collections::HashSet|"
          r"^std::collections::hash::|^std::process::id$|^std::ptr::.*::addr$|^core::ptr::.*::addr$")


# ------------------------------------------------------------------ presence / result usage

def local_uses(fn, local, include_cleanup=False):
    """[(bb, how)] where `local` (whole or projected) is read: statement operand, call arg, switch, return move."""
    out = []
    for bi, b in enumerate(fn.blocks):
        if b["cl"] and not include_cleanup:
            continue
        for st in b["st"]:
            if st[0] != "a":
                continue
            rv = st[2]
            for o in operands_of_rvalue(rv):
                p = op_place(o)
                if p is not None and p[0] == local:
                    out.append((bi, "stmt", st))
            if "p" in rv and rv["p"][0] == local:
                out.append((bi, "stmt", st))
            # writing through a projection of local whose index is local
        t = b["t"]
        if t["t"] in ("call", "tailcall"):
            for o in t["args"]:
                p = op_place(o)
                if p is not None and p[0] == local:
                    out.append((bi, "arg", t))
            if "ind" in t["fn"]:
                p = op_place(t["fn"].get("o", {}))
                if p is not None and p[0] == local:
                    out.append((bi, "callee", t))
        elif t["t"] == "sw":
            p = op_place(t["o"])
            if p is not None and p[0] == local:
                out.append((bi, "switch", t))
    return out


PASS_THROUGH = re.compile(r"Result.*::(ok|err|map|map_err|as_ref|as_mut|and_then|or_else|inspect_err|inspect)$|Option.*::(map|as_ref|ok_or|ok_or_else|and_then)$")


def result_inspected(fn, bb, depth=0):
    """Is the value produced by the call at `bb` actually inspected/propagated (not silently dropped)?
    Accepted idioms: `?` (Try::branch), discriminant read (match / if let), returned, passed to another function
    that is not a pure pass-through adapter whose own result is dropped, stored into a place."""
    t = fn.blocks[bb]["t"]
    dest = t["dest"]
    if dest[0] == 0:
        return True, "returned"
    if dest[1]:
        return True, "stored"
    uses = local_uses(fn, dest[0])
    if not uses:
        return False, "result is never read (dropped)"
    for (b2, how, x) in uses:
        if how == "switch":
            return True, "switched"
        if how == "stmt":
            st = x
            rv = st[2]
            if rv["r"] == "disc":
                return True, "matched"
            # moved into another local / aggregate / _0
            tgt = st[1]
            if tgt[0] == 0 or tgt[1]:
                return True, "returned/stored"
            if depth < 4:
                # follow the move
                sub_uses = local_uses(fn, tgt[0])
                if any(h in ("switch", "arg", "callee") or (h == "stmt") for (_, h, _) in sub_uses):
                    return True, "moved and used"
        if how == "arg":
            tt = x
            callee = fn.callee_of(tt) or tt["fn"].get("d", "") or ""
            if PASS_THROUGH.search(callee) and depth < 4:
                okk, why = result_inspected(fn, b2, depth + 1)
                if okk:
                    return True, "via " + callee.rsplit("::", 1)[-1] + ": " + why
                continue
            if callee.endswith("mem::drop") or callee.endswith("::forget"):
                continue
            return True, "passed to " + callee.rsplit("::", 1)[-1]
    return False, "result only flows into adapters whose value is dropped"


PRESENCE_PRESERVING = re.compile(r"option::Option(::)?<.*>::(ok_or|ok_or_else|map|as_ref|as_mut|as_deref|as_deref_mut|copied|cloned|inspect)$|"
                                r"result::Result(::)?<.*>::(ok|map|map_err|as_ref|as_mut|inspect|inspect_err|copied|cloned)$")


def presence_edges(fn, bb, _depth=0):
    """For a call at `bb` yielding Option/Result/bool, the CFG edges taken when the value is
    'present' (Some/Ok/true) and 'absent' (None/Err/false).  Looks through is_none/is_some/is_ok/is_err/`!`."""
    t = fn.blocks[bb]["t"]
    out = {"present": [], "absent": []}
    if t["t"] != "call" or t["dest"][1]:
        return out
    res = result_edges(fn, bb)
    for e in res["some"] + res["ok"]:
        out["present"].append(e)
    for e in res["none"] + res["err"]:
        out["absent"].append(e)
    dest = t["dest"][0]
    # direct bool
    if fn.locals[dest] == "bool":
        for sw in switch_edges_on_local(fn, dest):
            out["present"].append((sw["sw"], sw["true"]))
            out["absent"].append((sw["sw"], sw["false"]))
    # presence-preserving adapters (`x.ok_or(e)?`, `x.as_mut().map(..)`, `r.map_err(..)?`): Some/Ok stays Some/Ok
    if _depth < 4:
        for (b2, how, x) in local_uses(fn, dest):
            if how == "arg" and x["t"] == "call" and x["args"] and op_place(x["args"][0]) is not None and op_place(x["args"][0])[0] == dest:
                if PRESENCE_PRESERVING.search(fn.callee_of(x) or ""):
                    sub = presence_edges(fn, b2, _depth + 1)
                    out["present"].extend(sub["present"])
                    out["absent"].extend(sub["absent"])
    # adapters
    for (b2, how, x) in local_uses(fn, dest):
        if how != "arg":
            # a reference to the result may be taken first:  _r = &dest; is_none(move _r)
            if how == "stmt" and x[2]["r"] == "ref" and not x[1][1]:
                for (b3, how3, x3) in local_uses(fn, x[1][0]):
                    if how3 == "arg":
                        _presence_adapter(fn, b3, x3, out)
            continue
        _presence_adapter(fn, b2, x, out)
    return out


def _presence_adapter(fn, b2, tt, out):
    callee = fn.callee_of(tt) or ""
    nm = callee.rsplit("::", 1)[-1]
    if nm in ("is_none", "is_err"):
        for sw in switch_edges_on_local(fn, tt["dest"][0]):
            out["absent"].append((sw["sw"], sw["true"]))
            out["present"].append((sw["sw"], sw["false"]))
    elif nm in ("is_some", "is_ok"):
        for sw in switch_edges_on_local(fn, tt["dest"][0]):
            out["present"].append((sw["sw"], sw["true"]))
            out["absent"].append((sw["sw"], sw["false"]))


def absent_blocks_mutation(fn, guard_bb, mutation_blocks):
    """The 'absent' outcome of the guard call at guard_bb can never reach a mutation block (within the function,
    cutting the present edges).  Returns (recognised, witness_path_or_None)."""
    pe = presence_edges(fn, guard_bb)
    if not pe["absent"]:
        return False, None
    present = set(pe["present"])
    for (sw, tgt) in pe["absent"]:
        w = fn.path([tgt], mutation_blocks, avoid_edges=present)
        if w is not None:
            return True, w
    return True, None


def loop_heads(fn):
    """Blocks calling Iterator::next (loop heads of `for` loops) — used to cut paths at iteration boundaries."""
    return fn.call_sites(r"Iterator.*::next$|::next$")


def const_defs_into(fn, callee_pat):
    """Named constants (def paths) flowing into arguments of calls matching callee_pat."""
    out = set()
    og = fn.origins()
    for bb in fn.call_sites(callee_pat):
        for a in fn.blocks[bb]["t"]["args"]:
            for at in og.of_operand(a, deep=True):
                if at.kind == "const" and isinstance(at.key, str) and "::" in at.key:
                    out.add(at.key)
    return out


def const_bytes_into(fn, callee_pat):
    """Evaluated byte-string / integer constants flowing (directly) into args of calls matching callee_pat:
    set of display strings such as 'const b"\\x01"'."""
    out = set()
    defs = fn.defs()
    for bb in fn.call_sites(callee_pat):
        for a in fn.blocks[bb]["t"]["args"]:
            stack = [a]
            seen = set()
            while stack:
                o = stack.pop()
                if "k" in o:
                    out.add(o.get("ev") or o.get("k"))
                    continue
                p = op_place(o)
                if p is None or p[0] in seen:
                    continue
                seen.add(p[0])
                for d in defs.get(p[0], ()):
                    if d[0] == "assign":
                        rv = d[4]
                        for o2 in operands_of_rvalue(rv):
                            stack.append(o2)
                        if "p" in rv:
                            stack.append({"c": rv["p"]})
    return out


# ------------------------------------------------------------------ `?` residual sites

def residual_sites(fn):
    """Every `?` in fn: [(branch_bb, source callee names (deep origins of the branched value), err edge (sw,tgt), ok edge)]"""
    out = []
    og = fn.origins()
    for bi, t in fn.calls():
        if fn.blocks[bi]["cl"]:
            continue
        d = t["fn"].get("d", "") if "d" in t["fn"] else ""
        if not d.endswith("Try::branch"):
            continue
        srcs = set()
        for a in og.of_operand(t["args"][0], deep=True):
            if a.kind == "call":
                srcs.add(a.key[0].rsplit("::", 1)[-1])
        re_ = result_edges_of_branch(fn, bi)
        out.append((bi, srcs, re_.get("err"), re_.get("ok")))
    return out


def result_edges_of_branch(fn, bb):
    """Edges of the ControlFlow switch that follows a Try::branch call at bb."""
    t = fn.blocks[bb]["t"]
    dest = t["dest"][0]
    disc = {}
    for bi, b in enumerate(fn.blocks):
        for st in b["st"]:
            if st[0] == "a" and not st[1][1] and st[2]["r"] == "disc" and st[2]["p"][0] == dest and not st[2]["p"][1]:
                disc[st[1][0]] = bi
    for bi, b in enumerate(fn.blocks):
        tt = b["t"]
        if tt["t"] == "sw":
            p = op_place(tt["o"])
            if p is not None and not p[1] and p[0] in disc:
                vals = {v: tgt for v, tgt in tt["v"]}
                return {"ok": (bi, vals.get("0", tt["ow"])), "err": (bi, vals.get("1", tt["ow"]))}
    return {}


def diverging_calls(fn, pat):
    """Blocks whose call terminator matches pat and never returns (tgt None), e.g. resume_unwind / panic_any."""
    r = rx(pat)
    out = []
    for bi, t in fn.calls():
        c = fn.callee_of(t) or ""
        d = t["fn"].get("d", "") if "d" in t["fn"] else ""
        if (r.search(c) or r.search(d)) and t.get("tgt") is None and not fn.blocks[bi]["cl"]:
            out.append(bi)
    return out


def reachable_without_edges(fn, goal_blocks, cut_edges, start=(0,), unwind=False):
    """Witness path start -> goal that takes none of cut_edges (None if every path must take one of them)."""
    return fn.path(list(start), goal_blocks, avoid_edges=set(cut_edges), unwind=unwind)


def self_field_assign_blocks(fn, adt_path, include_mut_borrows=False):
    """{field: [blocks]} for assignments whose place goes through a first-level field of adt_path (any depth below it)."""
    out = defaultdict(list)
    for bi, b in enumerate(fn.blocks):
        if b["cl"]:
            continue
        for st in b["st"]:
            if st[0] != "a":
                continue
            for (adt, var, fld) in field_steps(st[1]):
                if adt == adt_path:
                    out[fld].append(bi)
            if include_mut_borrows and st[2]["r"] == "ref" and st[2]["bk"] in ("mut", "two"):
                for (adt, var, fld) in field_steps(st[2]["p"]):
                    if adt == adt_path:
                        out[fld].append(bi)
        t = b["t"]
        if t["t"] == "call":
            for (adt, var, fld) in field_steps(t["dest"]):
                if adt == adt_path:
                    out[fld].append(bi)
    return out


WRITER_SINKS = (r"Hasher::update$|Vec.*::extend_from_slice$|Vec.*::push$|::push_\w+$|::update_len_prefixed$|::write_\w+$|::put_\w+$|::extend$|String::push_str$|"
                r"::copy_from_slice$|::clone_from_slice$|::\w*_value$|::to_value$|encode_canonical_cbor_v1$|canonical::encode_value$|::encode_cbor$|BTreeMap.*::insert$|::hash_len_prefixed$")


def writer_coverage(prog, fn, adt_path, sink_pat=WRITER_SINKS, control=True):
    """Fields of adt_path (first variant, or all variants) that reach a sink in fn's tree.  Returns (covered set of
    field names, all field names, number of sinks)."""
    fns, _ = tree(prog, [fn])
    cov, ns = sink_field_atoms(fns, sink_pat)
    names = {f for (a, v, f) in cov if a == adt_path}
    if control:
        names |= {f for (a, v, f) in control_field_atoms(fns, sink_pat) if a == adt_path}
    adt = prog.adt(adt_path)
    allf = [f["n"] for v in adt["variants"] for f in v["fields"]]
    return names, allf, ns


# ------------------------------------------------------------------ near origins (value identity through trivial adapters)

TRIVIAL_CALLS = re.compile(r"::(try_from|try_into|from|into|branch|unwrap_or|unwrap_or_default|unwrap_or_else|ok_or|ok_or_else|map_err|as_ref|as_mut|clone|copied|cloned|deref|"
                           r"checked_mul|checked_add|checked_sub|saturating_mul|saturating_add|wrapping_add|from_residual|to_owned|as_usize|as_u64|as_u32|get|from_raw|into_inner)$")


def near_origins(fn, operand, max_nodes=400):
    """Where does this value come from, looking only through assignments, projections and *trivial* adapter calls
    (conversions, `?`, checked arithmetic)?  Returns a set of ('call', callee, bb) | ('param', i) | ('const', key) |
    ('agg', adt, bb).  Unlike the deep origins this does not merge everything that ever touched a `&mut` cursor."""
    defs = fn.defs()
    out = set()
    seen = set()
    stack = [operand]
    n = 0
    while stack and n < max_nodes:
        o = stack.pop()
        n += 1
        if "k" in o:
            out.add(("const", o.get("def") or o.get("v") or o.get("k")))
            continue
        p = op_place(o)
        if p is None:
            continue
        l = p[0]
        if l in seen:
            continue
        seen.add(l)
        for d in defs.get(l, ()):
            if d[0] == "param":
                out.add(("param", d[1]))
            elif d[0] == "call":
                bb, t = d[1], d[2]
                callee = fn.callee_of(t) or "(indirect)"
                if TRIVIAL_CALLS.search(callee):
                    for a in t["args"][:1] if not re.search(r"checked_|saturating_|wrapping_", callee) else t["args"]:
                        stack.append(a)
                else:
                    out.add(("call", callee, bb))
            elif d[0] == "assign":
                rv = d[4]
                if rv["r"] == "agg" and rv.get("ak") == "adt":
                    out.add(("agg", rv.get("adt"), d[1]))
                for o2 in operands_of_rvalue(rv):
                    stack.append(o2)
                if "p" in rv:
                    stack.append({"c": rv["p"]})
    return out


def controlling_switch(fn, bb, max_hops=8):
    """The nearest SwitchInt block that decides whether `bb` is entered: walk back through unique predecessors
    (gotos, fall-through calls/drops).  Returns the switch block index or None."""
    preds = fn.preds()
    cur = bb
    for _ in range(max_hops):
        ps = [p for p in preds[cur] if not fn.blocks[p]["cl"]]
        if len(ps) != 1:
            return None
        cur = ps[0]
        if fn.blocks[cur]["t"]["t"] == "sw":
            return cur
    return None


# ------------------------------------------------------------------ closed tag dispatch

INT_TYS = ("u8", "u16", "u32", "u64", "i8", "i16", "i32", "i64", "usize")


def tag_tests(fn, INT_TYS=INT_TYS):
    """Tests of integer locals against constants.  Returns {local: {"explicit": [(bb, tgt)], "default": [(bb, tgt)], "n": values}}
    from (a) SwitchInt on an integer local with explicit values, (b) Eq/Ne(local, const) feeding a bool switch."""
    out = {}

    def root(l, depth=0):
        # look through plain copies / moves so `let code = tag; match code` is the same tag
        for d in fn.defs().get(l, ()):
            if d[0] == "assign" and not d[3][1] and d[4]["r"] == "use":
                p = op_place(d[4]["o"])
                if p is not None and not p[1] and depth < 4 and len(fn.defs().get(l, ())) == 1:
                    return root(p[0], depth + 1)
        return l
    for bi, b in enumerate(fn.blocks):
        if b["cl"]:
            continue
        t = b["t"]
        if t["t"] == "sw":
            p = op_place(t["o"])
            if p is not None and not p[1] and fn.locals[p[0]] in INT_TYS and t["v"]:
                r = out.setdefault(root(p[0]), {"explicit": [], "default": [], "n": set()})
                for v, tgt in t["v"]:
                    r["explicit"].append((bi, tgt))
                    r["n"].add(v)
                r["default"].append((bi, t["ow"]))
    for (bb, kind, a, b2, res, line) in comparisons(fn):
        if kind not in ("Eq", "Ne"):
            continue
        pa, pb = op_place(a), op_place(b2)
        tag, const = None, None
        if pa is not None and not pa[1] and "k" in b2 and fn.locals[pa[0]] in INT_TYS:
            tag, const = pa[0], b2
        elif pb is not None and not pb[1] and "k" in a and fn.locals[pb[0]] in INT_TYS:
            tag, const = pb[0], a
        if tag is None:
            continue
        for sw in switch_edges_on_local(fn, res):
            r = out.setdefault(root(tag), {"explicit": [], "default": [], "n": set()})
            eq_edge = (sw["sw"], sw["true"]) if kind == "Eq" else (sw["sw"], sw["false"])
            ne_edge = (sw["sw"], sw["false"]) if kind == "Eq" else (sw["sw"], sw["true"])
            r["explicit"].append(eq_edge)
            r["default"].append(ne_edge)
            r["n"].add(str(const.get("v", const.get("k"))))
    return out


def success_blocks(fn):
    """Blocks that define a success value of the function: `Ok(..)`/`Some(..)` assigned to the return place, or a
    non-Result/Option function's plain returns."""
    oks, errs = ok_return_blocks(fn)
    somes = []
    ra = return_aliases(fn)
    for bi, b in enumerate(fn.blocks):
        if b["cl"]:
            continue
        for st in b["st"]:
            if st[0] == "a" and st[1][0] in ra and not st[1][1] and st[2]["r"] == "agg" and st[2].get("adt", "").endswith("option::Option") and st[2].get("var") == "Some":
                somes.append(bi)
        t = b["t"]
        if t["t"] == "call" and t["dest"][0] in ra and not t["dest"][1] and not (t["fn"].get("d", "") if "d" in t["fn"] else "").endswith("from_residual"):
            # tail call whose result is returned as is (`self.read_hash().map(Some)`): may be a success
            somes.append(bi)
    return oks + somes


def open_tag_dispatches(fn, tys=INT_TYS):
    """Integer tags tested against constants in fn whose all-default path reaches a success value: an unlisted tag value
    is accepted.  Returns [(local, sorted explicit values, witness path)]; [] = every dispatch is closed."""
    tests = tag_tests(fn, tys)
    if not tests:
        return None
    succ = success_blocks(fn)
    res = []
    for l, r in tests.items():
        cut = set(r["explicit"]) - set(r["default"])
        for (bb, tgt) in r["default"]:
            w = fn.path([tgt], succ, avoid_edges=cut)
            if w is not None:
                res.append((l, sorted(r["n"]), [bb] + w))
                break
    return res


# ------------------------------------------------------------------ loops

def iterator_loops(fn, region=None):
    """`for x in it` loops: [(head_bb (the Iterator::next call), body blocks, none_edge, [early exit edges])].
    body = blocks reachable from the Some edge that can reach the head again; an early exit is an edge from a body block
    to a non-body block other than the head's own None edge (a `break`, `return`, `?`)."""
    out = []
    preds = fn.preds()
    for h in fn.call_sites(r"Iterator.*::next$|::next$"):
        if region is not None and h not in region:
            continue
        t = fn.blocks[h]["t"]
        if t.get("tgt") is None:
            continue
        re_ = result_edges(fn, h)
        if not re_["some"] or not re_["none"]:
            continue
        some_t = [tgt for (sw, tgt) in re_["some"]]
        none_e = set(re_["none"])
        fwd = fn.reachable(some_t, avoid_blocks=[h])
        # blocks that can reach h
        back = set()
        stack = [h]
        while stack:
            b = stack.pop()
            for p in preds[b]:
                if p not in back and p != h:
                    back.add(p)
                    stack.append(p)
        body = (fwd & back) | {h} | {sw for (sw, tgt) in re_["some"]} | set(fn.reachable([t["tgt"]], avoid_blocks=[sw for (sw, tgt) in re_["some"]]) & back)
        exits = []
        for b in body:
            if fn.blocks[b]["cl"]:
                continue
            for s_ in fn.succ(b):
                if s_ not in body and (b, s_) not in none_e:
                    # falling into a block that cannot continue (panic / unreachable) is not an exit of the fold
                    if fn.blocks[s_]["t"]["t"] == "unreachable" and not fn.blocks[s_]["st"]:
                        continue
                    exits.append((b, s_))
        out.append((h, body, none_e, exits))
    return out


# ------------------------------------------------------------------ value sources through Option/Result adaptor chains

ADAPTORS = re.compile(r"(option::Option|result::Result)(::)?<.*>::(or|or_else|map|and_then|unwrap_or|unwrap_or_else|unwrap_or_default|ok_or|ok_or_else|copied|cloned|filter|xor|zip|max|min)$|cmp::Ord::(max|min)$")


ACCESSORS = re.compile(r"::(first|last|get|iter|as_slice|as_deref|deref|get_mut|values|keys|first_key_value|last_key_value|as_ref|as_mut)$")


def chain_field_reads(fn, operand, depth=0, _seen=None):
    """Fields (adt short name, field) read to produce `operand`, looking through assignments, trivial conversions and
    Option/Result adaptor chains INCLUDING the return values of closures handed to those adaptors
    (`a.or_else(|| b.map(|e| e.f)).and_then(g)`).  Unlike the deep origins this does not merge everything reachable
    through `self`."""
    prog = fn.prog
    if _seen is None:
        _seen = set()
    out = set()
    if depth > 6:
        return out
    # direct field steps on the operand's own place and on the places it was copied from
    stack = [operand]
    seen_l = set()
    defs = fn.defs()
    while stack:
        o = stack.pop()
        p = op_place(o)
        if p is None:
            if "fn" in o and o.get("fn") in prog.fns and prog.fns[o["fn"]].is_closure():
                c = prog.fns[o["fn"]]
                if c.id not in _seen:
                    _seen.add(c.id)
                    out |= chain_field_reads(c, {"c": [0, []]}, depth + 1, _seen)
            continue
        for (adt, var, fld) in field_steps(p):
            if not adt.startswith(("core::", "std::", "alloc::", "(")):
                out.add((adt.rsplit("::", 1)[-1], fld))
        l = p[0]
        if l in seen_l:
            continue
        seen_l.add(l)
        for d in defs.get(l, ()):
            if d[0] == "assign":
                rv = d[4]
                if rv["r"] == "agg" and rv.get("ak") == "closure" and rv["adt"] in prog.fns:
                    c = prog.fns[rv["adt"]]
                    if c.id not in _seen:
                        _seen.add(c.id)
                        out |= chain_field_reads(c, {"c": [0, []]}, depth + 1, _seen)
                    # what the closure captured (precise captures such as `&ledger.active_epoch` carry the field read here)
                    for o2 in rv.get("os", []):
                        stack.append(o2)
                    continue
                for o2 in operands_of_rvalue(rv):
                    stack.append(o2)
                if "p" in rv:
                    stack.append({"c": rv["p"]})
            elif d[0] == "call":
                t = d[2]
                callee = fn.callee_of(t) or ""
                if TRIVIAL_CALLS.search(callee) or ADAPTORS.search(callee) or ACCESSORS.search(callee):
                    for a in t["args"]:
                        stack.append(a)
    return out
