"""Helper-inlined view of a function (MIR-level inlining on the exported facts).

Purpose: refactor tolerance.  Most rules are phrased on one named function's CFG (must-pass-through, dominance, site
counts, comparisons with given operand origins).  "Extract a block into a private helper" is the commonest
behaviour-preserving edit and moves the sites a rule looks for out of the named function.  Inlining is semantics-
preserving, so any rule that is sound on a function is sound on its inlined view; the runner therefore re-evaluates a
property on the inlined view when (and only when) an instance failed on the plain view, and an instance counts as
violated only if it fails on both (rules/run.py).

Policy: a call is inlined when the callee is a workspace function of the same crate with restricted visibility
(private `in:<module>` or `pub(crate)`) that did NOT exist on the pinned tree (rules/known_fns.txt: functions the rules
may name keep their call sites), is not on the current inline stack (no recursion), within a depth of 3 and while the
view stays below a block budget.  A closure handed to a call is spliced in front of that call as a may-run-0..n-times
loop (iterator adaptors, try_for_each, catch_unwind, spawn): `for` loops rewritten as adaptor chains keep their sites.
"""
import copy
import json

from .engine import Fn, Program

MAX_DEPTH = 3
MAX_BLOCKS = 6000
MAX_CALLEE_BLOCKS = 600


def _remap_place(p, nl):
    proj = []
    for e in p[1]:
        if isinstance(e, list) and e[0] == "i":
            proj.append(["i", e[1] + nl])
        else:
            proj.append(e)
    return [p[0] + nl, proj]


def _remap_operand(o, nl):
    if "c" in o:
        return {"c": _remap_place(o["c"], nl)}
    if "m" in o:
        return {"m": _remap_place(o["m"], nl)}
    return o


def _remap_rvalue(rv, nl):
    out = dict(rv)
    if "o" in rv and isinstance(rv["o"], dict):
        out["o"] = _remap_operand(rv["o"], nl)
    if "os" in rv:
        out["os"] = [_remap_operand(o, nl) for o in rv["os"]]
    if "a" in rv and isinstance(rv.get("a"), dict):
        out["a"] = _remap_operand(rv["a"], nl)
        out["b"] = _remap_operand(rv["b"], nl)
    if "p" in rv:
        out["p"] = _remap_place(rv["p"], nl)
    return out


def _remap_stmt(st, nl):
    if st[0] == "a":
        return ["a", _remap_place(st[1], nl), _remap_rvalue(st[2], nl)] + list(st[3:])
    if st[0] == "sd":
        return ["sd", _remap_place(st[1], nl)] + list(st[2:])
    return st


def _unw(u, nb, caller_unw):
    if isinstance(u, int):
        return u + nb
    if u == "cont":
        return caller_unw if caller_unw is not None else "cont"
    return u


def _remap_term(t, nl, nb, caller_unw):
    k = t["t"]
    out = dict(t)
    if k == "goto":
        out["tgt"] = t["tgt"] + nb
    elif k == "sw":
        out["o"] = _remap_operand(t["o"], nl)
        out["v"] = [[v, tg + nb] for v, tg in t["v"]]
        out["ow"] = t["ow"] + nb
    elif k == "call":
        f = t["fn"]
        if "ind" in f and isinstance(f.get("o"), dict):
            f = dict(f)
            f["o"] = _remap_operand(f["o"], nl)
            out["fn"] = f
        out["args"] = [_remap_operand(a, nl) for a in t["args"]]
        out["dest"] = _remap_place(t["dest"], nl)
        out["tgt"] = None if t.get("tgt") is None else t["tgt"] + nb
        out["unw"] = _unw(t.get("unw"), nb, caller_unw)
    elif k == "tailcall":
        out["args"] = [_remap_operand(a, nl) for a in t["args"]]
    elif k == "drop":
        out["p"] = _remap_place(t["p"], nl)
        out["tgt"] = t["tgt"] + nb
        out["unw"] = _unw(t.get("unw"), nb, caller_unw)
    elif k == "assert":
        out["cond"] = _remap_operand(t["cond"], nl)
        out["tgt"] = t["tgt"] + nb
        out["unw"] = _unw(t.get("unw"), nb, caller_unw)
    return out


_known = None


def known_fns():
    """Restricted-visibility functions of the pinned tree (frozen list, selftest/gen_known_fns.py).  Rules name such
    functions, so their call sites must stay visible; only helpers that did not exist then are inlined."""
    global _known
    if _known is None:
        import os
        path = os.path.join(os.path.dirname(os.path.abspath(__file__)), "known_fns.txt")
        try:
            with open(path) as fh:
                _known = set(l.strip() for l in fh if l.strip())
        except FileNotFoundError:
            _known = None
            return None
    return _known


def default_policy(prog, caller, callee):
    if callee.is_closure() or callee.crate != caller.crate:
        return False
    v = callee.vis or ""
    if not (v.startswith("in:") or v == "crate"):
        return False
    k = known_fns()
    if k is None or callee.id in k:
        return False
    return True


def inline_view(prog, fn, policy=default_policy, max_depth=MAX_DEPTH):
    """A new Fn (same id) whose body has the selected workspace callees inlined.  Returns fn itself when nothing was
    inlined."""
    base0 = prog.base_fns if hasattr(prog, "base_fns") else prog.fns
    cand = False
    for b_ in fn.blocks:
        t_ = b_["t"]
        if t_["t"] != "call":
            continue
        c_ = t_["fn"].get("r") if "r" in t_["fn"] else None
        if c_ and c_ in base0 and policy(prog, fn, base0[c_]):
            cand = True
            break
        if any(("fn" in a_ and a_.get("fn") in base0) for a_ in t_["args"]):
            cand = True
            break
    if not cand:
        cand = any(st_[0] == "a" and st_[2]["r"] == "agg" and st_[2].get("ak") == "closure" for b_ in fn.blocks for st_ in b_["st"])
    if not cand:
        return fn, []
    blocks = copy.deepcopy(fn.blocks)
    locals_ = list(fn.locals)
    dbg = list(fn.dbg)
    inlined = []
    # per block: (depth, stack of callee ids that led here)
    meta = {i: (0, (fn.id,)) for i in range(len(blocks))}
    work = list(range(len(blocks)))
    closure_parents = []
    no_splice = set()

    def closure_locals():
        """local -> closure body id, for locals holding a closure value (aggregate, then plain moves/copies/refs)."""
        m = {}
        changed = True
        while changed:
            changed = False
            for blk in blocks:
                for st in blk["st"]:
                    if st[0] != "a" or st[1][1]:
                        continue
                    rv = st[2]
                    tgt = st[1][0]
                    if tgt in m:
                        continue
                    if rv["r"] == "agg" and rv.get("ak") == "closure":
                        m[tgt] = rv["adt"]
                        changed = True
                    elif rv["r"] == "use":
                        pl = rv["o"].get("c") or rv["o"].get("m")
                        if pl is not None and not pl[1] and pl[0] in m:
                            m[tgt] = m[pl[0]]
                            changed = True
                    elif rv["r"] == "ref" and all(e == "*" for e in rv["p"][1]) and rv["p"][0] in m:
                        m[tgt] = m[rv["p"][0]]
                        changed = True
        return m

    cl_locals = closure_locals()
    base_fns = prog.base_fns if hasattr(prog, "base_fns") else prog.fns
    while work:
        bi = work.pop()
        b = blocks[bi]
        t = b["t"]
        if t["t"] != "call":
            continue
        # ---- closure splice: a call that receives a closure may run it (0..n times) before it returns
        if bi not in no_splice and meta[bi][0] < max_depth and len(blocks) < MAX_BLOCKS:
            did = False
            for ai, a in enumerate(t["args"]):
                cid = None
                cl_local = None
                pl = a.get("c") or a.get("m")
                if pl is not None and not pl[1] and pl[0] in cl_locals:
                    cid, cl_local = cl_locals[pl[0]], pl[0]
                elif "fn" in a and a.get("fn") in base_fns and base_fns[a["fn"]].is_closure():
                    cid = a["fn"]
                if cid is None or cid not in base_fns or cid in meta[bi][1]:
                    continue
                cfn = base_fns[cid]
                cblocks = cfn.blocks
                if len(cblocks) > MAX_CALLEE_BLOCKS or len(blocks) + len(cblocks) + 2 > MAX_BLOCKS:
                    continue
                depth, stack = meta[bi]
                nl = len(locals_)
                locals_.extend(cfn.locals)
                for name, place in cfn.dbg:
                    try:
                        dbg.append([name, _remap_place(place, nl)])
                    except Exception:
                        pass
                line = t.get("line", 0)
                caller_unw = t.get("unw") if isinstance(t.get("unw"), int) else None
                head = len(blocks)          # nondeterministic: run the closure once more, or go on to the call
                cont = head + 1             # the original call
                nb = head + 2
                pre = []
                if cl_local is not None:
                    pre.append(["a", [nl + 1, []], {"r": "use", "o": {"c": [cl_local, []]}}, line, False])
                recv = t["args"][0] if ai != 0 else None
                if recv is not None and ("c" in recv or "m" in recv):
                    rp = recv.get("c") or recv.get("m")
                    for k in range(2, cfn.argc + 1):
                        pre.append(["a", [nl + k, []], {"r": "use", "o": {"c": rp}}, line, False])
                blocks.append({"st": pre, "cl": b["cl"], "t": {"t": "sw", "o": {"k": "nondet(closure may run)"}, "ty": "bool", "v": [["0", cont]], "ow": nb, "line": line}})
                blocks.append({"st": [], "cl": b["cl"], "t": t})
                meta[head] = (depth, stack)
                meta[cont] = (depth, stack)
                no_splice.add(cont)
                for ci, cb in enumerate(cblocks):
                    nbk = {"st": [_remap_stmt(s_, nl) for s_ in cb["st"]], "cl": bool(cb["cl"] or b["cl"])}
                    ct = cb["t"]
                    if ct["t"] == "ret":
                        if cl_local is not None:
                            nbk["st"].append(["a", [cl_local, [["f", "(closure)", cid, "<ret>"]]], {"r": "use", "o": {"c": [nl, []]}}, line, False])
                        nbk["t"] = {"t": "goto", "tgt": head}
                    elif ct["t"] == "resume":
                        nbk["t"] = {"t": "goto", "tgt": caller_unw} if caller_unw is not None else {"t": "resume"}
                    else:
                        nbk["t"] = _remap_term(ct, nl, nb, caller_unw)
                    blocks.append(nbk)
                    meta[nb + ci] = (depth + 1, stack + (cid,))
                    work.append(nb + ci)
                b["t"] = {"t": "goto", "tgt": head, "spliced_closure": cid, "line": line}
                inlined.append(cid)
                work.append(cont)
                did = True
                break
            if did:
                cl_locals = closure_locals()
                continue
        if "r" not in t["fn"]:
            continue
        cid = t["fn"]["r"]
        callee = prog.base_fns.get(cid) if hasattr(prog, "base_fns") else prog.fns.get(cid)
        if callee is None:
            continue
        depth, stack = meta[bi]
        if depth >= max_depth or cid in stack or not policy(prog, fn, callee):
            continue
        cblocks = callee.blocks
        if len(cblocks) > MAX_CALLEE_BLOCKS or len(blocks) + len(cblocks) > MAX_BLOCKS:
            continue
        if len(t["args"]) != callee.argc:
            continue  # spread/untupled closure-call ABI: leave alone
        nb, nl = len(blocks), len(locals_)
        locals_.extend(callee.locals)
        for name, place in callee.dbg:
            try:
                dbg.append([name, _remap_place(place, nl)])
            except Exception:
                pass
        line = t.get("line", 0)
        caller_unw = t.get("unw") if isinstance(t.get("unw"), int) else None
        in_cleanup = b["cl"]
        for ci, cb in enumerate(cblocks):
            nbk = {"st": [_remap_stmt(s, nl) for s in cb["st"]], "cl": bool(cb["cl"] or in_cleanup)}
            ct = cb["t"]
            if ct["t"] == "ret":
                nbk["st"].append(["a", t["dest"], {"r": "use", "o": {"m": [nl, []]}}, line, False])
                if t.get("tgt") is None:
                    nbk["t"] = {"t": "unreachable"}
                else:
                    nbk["t"] = {"t": "goto", "tgt": t["tgt"]}
            elif ct["t"] == "resume":
                nbk["t"] = {"t": "goto", "tgt": caller_unw} if caller_unw is not None else {"t": "resume"}
            else:
                nbk["t"] = _remap_term(ct, nl, nb, caller_unw)
            blocks.append(nbk)
            meta[nb + ci] = (depth + 1, stack + (cid,))
            work.append(nb + ci)
        for ai, a in enumerate(t["args"]):
            b["st"].append(["a", [nl + 1 + ai, []], {"r": "use", "o": a}, line, False])
        b["t"] = {"t": "goto", "tgt": nb, "inlined_call": cid, "line": line}
        inlined.append(cid)
        closure_parents.append(cid)
        cl_locals = closure_locals()
    if not inlined:
        return fn, []
    rec = {k: v for k, v in fn.rec.items() if k not in ("blocks", "locals", "dbg", "_raw")}
    rec["blocks"] = blocks
    rec["locals"] = locals_
    rec["dbg"] = dbg
    rec["inlined"] = inlined
    nf = Fn(rec, prog)
    nf._blocks = blocks
    return nf, closure_parents


class InlinedProgram(Program):
    """Same facts as Program; the anchor lookup `fn(path)` hands out helper-inlined views (computed lazily, cached).
    Whole-tree walks (`reach`, `tree`, `fns[...]`, iteration) keep using the plain functions: tree-based rules (mod sets,
    coverage, effects) are insensitive to helper extraction, and the call graph of the inlined view is the same."""

    def __init__(self, *a, **kw):
        super().__init__(*a, **kw)
        self.base_fns = self.fns
        self._views = {}
        self.inlined_view = True

    def find_fns(self, pat):
        return [self.fn(f.id) for f in super().find_fns(pat)]

    def fn(self, path):
        f = super().fn(path)
        v = self._views.get(f.id)
        if v is None:
            v, parents = inline_view(self, f)
            self._views[f.id] = v
            if v is not f:
                for p in parents:
                    for c in self._closures_of.get(p, ()):
                        if c not in self._closures_of[f.id]:
                            self._closures_of[f.id].append(c)
        return v
