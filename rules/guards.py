"""A2 guarded rejections: `a comparison of X with Y exists, feeds a branch, and the rejecting side constructs
the typed error and cannot reach a success return`.

Instances are written as (function, error variant, tokens of side A, tokens of side B).  Tokens describe the deep
origins of an operand in a refactor-tolerant way:
  f:<field>      a field of a workspace ADT was read on the way (name only)
  c:<fn name>    the value derives from a call to a function with that last path segment
  p:<i>          derives from parameter i
  k:<const>      a named constant / literal
A side matches when all its required tokens are present.
"""
import re

from .engine import op_place
from .prims import comparisons, switch_edges_on_local, ok_return_blocks, agg_blocks, tree

STD = ("core::", "std::", "alloc::", "(")


def tokens_of_atoms(atoms):
    out = set()
    for a in atoms:
        for s in a.steps:
            if isinstance(s, tuple) and not s[0].startswith(STD):
                out.add("f:" + s[2])
            elif isinstance(s, tuple) and s[0] == "(closure)":
                out.add("u:" + s[2])
        if a.kind == "call":
            out.add("c:" + a.key[0].rsplit("::", 1)[-1])
        elif a.kind == "param":
            out.add("p:%d" % a.key)
        elif a.kind == "const":
            out.add("k:" + str(a.key).rsplit("::", 1)[-1])
        elif a.kind == "agg":
            out.add("a:" + str(a.key[0]).rsplit("::", 1)[-1] + ("::" + a.key[1] if a.key[1] else ""))
    return out


def side_tokens(fn, operand):
    return tokens_of_atoms(fn.origins().of_operand(operand, deep=True))


def error_sites(fn, enum_path, variant):
    """Blocks constructing enum::variant (aggregate) in fn."""
    return agg_blocks(fn, enum_path, variant)


def comparison_controls(fn, cmp, target_blocks, ok_blocks=None):
    """Does the comparison (bb, kind, a, b, res, line) gate `target_blocks`: some switch on its result has a successor
    (the rejecting side) from which a target block (the typed error construction) is reachable and NO success return
    is.  Returns the list of (sw_bb, reject_target, accept_target)."""
    bb, kind, a, b, res, line = cmp
    if ok_blocks is None:
        ok_blocks = ok_return_blocks(fn)[0]
    out = []
    for sw in switch_edges_on_local(fn, res):
        for rej, acc in ((sw["true"], sw["false"]), (sw["false"], sw["true"])):
            reach = fn.reachable([rej], avoid_edges=[(sw["sw"], acc)], avoid_blocks=[sw["sw"]])
            if any(x in reach for x in target_blocks) and not any(x in reach for x in ok_blocks):
                out.append((sw["sw"], rej, acc))
    return out


def _guard_in(f, enum_path, variant, need_a, need_b, subst=None):
    """Gate search inside one function.  `subst` maps 'p:i' tokens to the caller's tokens for that argument."""
    sites = error_sites(f, enum_path, variant)
    if not sites:
        return None
    oks, errs = ok_return_blocks(f)
    if not oks:
        from .props.C13 import success_defs
        oks = success_defs(f)
    best = ("no-compare", "no comparison of {%s} with {%s} in %s" % (",".join(sorted(need_a)), ",".join(sorted(need_b)), f.id))

    def toks(o):
        t = side_tokens(f, o)
        if subst:
            extra = set()
            for x in t:
                if x in subst:
                    extra |= subst[x]
            t = t | extra
        return t
    for cmp in comparisons(f):
        ta, tb = toks(cmp[2]), toks(cmp[3])
        if not ((need_a <= ta and need_b <= tb) or (need_a <= tb and need_b <= ta)):
            continue
        if comparison_controls(f, cmp, sites, oks):
            return "ok", "%s: compare@%s gates %s" % (f.id.rsplit("::", 1)[-1], cmp[5], variant)
        best = ("not-gating", "comparison at line %s has no side that leads to %s without being able to reach Ok" % (cmp[5], variant))
    return best


def find_guard(prog, fn, enum_path, variant, need_a, need_b, search_tree=True):
    """Look for a gating comparison for `variant` in fn.  If the check was moved into a helper (the variant is constructed
    in a workspace callee, up to two levels down), the helper is searched with its parameters substituted by the caller's
    argument tokens and the helper's Result must be propagated by the caller.
    Returns (status, detail): status in 'ok' | 'no-site' | 'no-compare' | 'not-gating'."""
    from .prims import result_inspected
    r = _guard_in(fn, enum_path, variant, need_a, need_b)
    if r is not None and r[0] == "ok":
        return r
    best = r or ("no-site", "error variant %s is not constructed" % variant)
    if not search_tree:
        return best
    frontier = [(fn, None, 0)]
    seen = {fn.id}
    while frontier:
        f, subst, depth = frontier.pop(0)
        if depth >= 2:
            continue
        for bi, t in f.calls():
            callee = f.callee_of(t) or ""
            h = prog.fns.get(callee)
            if h is None or h.id in seen or f.blocks[bi]["cl"] or not h.crate.startswith(fn.crate.split("_")[0]):
                continue
            if not result_inspected(f, bi)[0]:
                continue
            seen.add(h.id)
            sub = {}
            for ai, a in enumerate(t["args"]):
                tk = side_tokens(f, a)
                if subst:
                    extra = set()
                    for x in tk:
                        if x in subst:
                            extra |= subst[x]
                    tk = tk | extra
                sub["p:%d" % (ai + 1)] = tk
            rr = _guard_in(h, enum_path, variant, need_a, need_b, sub)
            if rr is not None:
                if rr[0] == "ok":
                    return "ok", rr[1] + " (helper of %s)" % fn.name
                if best[0] == "no-site":
                    best = rr
            frontier.append((h, sub, depth + 1))
    return best


def dump_guards(prog, fn, enum_paths):
    """Development aid: list, for every error-variant construction in fn, the comparisons controlling it."""
    rows = []
    cmps = comparisons(fn)
    for enum_path in enum_paths:
        adt = prog.adts.get(enum_path)
        if not adt:
            continue
        for v in adt["variants"]:
            sites = error_sites(fn, enum_path, v["n"])
            if not sites:
                continue
            ctl = []
            for cmp in cmps:
                if comparison_controls(fn, cmp, sites):
                    ctl.append((cmp[5], cmp[1], sorted(side_tokens(fn, cmp[2])), sorted(side_tokens(fn, cmp[3]))))
            rows.append((v["n"], [fn.block_line(s) for s in sites], ctl))
    return rows


def find_presence_guard(prog, fn, enum_path, variant, need, adapters=r"::(is_some|is_none|is_ok|is_err|is_empty)$"):
    """A presence test (`x.is_some()`, `x.is_none()`, `.is_empty()`) whose receiver carries the tokens `need` and one of
    whose outcomes leads to the construction of `variant` without being able to reach a success return."""
    from .prims import presence_edges
    sites = error_sites(fn, enum_path, variant)
    if not sites:
        return "no-site", "error variant %s is not constructed" % variant
    oks = ok_return_blocks(fn)[0]
    rx_ = re.compile(adapters)
    seen = False
    for bi, t in fn.calls():
        c = fn.callee_of(t) or ""
        if not rx_.search(c) or fn.blocks[bi]["cl"]:
            continue
        toks = side_tokens(fn, t["args"][0])
        if not need <= toks:
            continue
        seen = True
        for sw in switch_edges_on_local(fn, t["dest"][0]):
            for rej, acc in ((sw["true"], sw["false"]), (sw["false"], sw["true"])):
                reach = fn.reachable([rej], avoid_edges=[(sw["sw"], acc)], avoid_blocks=[sw["sw"]])
                if any(s in reach for s in sites) and not any(o in reach for o in oks):
                    return "ok", "%s: presence test@%s gates %s" % (fn.name, t.get("line"), variant)
    if seen:
        return "not-gating", "presence test on {%s} does not gate %s" % (",".join(sorted(need)), variant)
    return "no-compare", "no presence test on {%s} in %s" % (",".join(sorted(need)), fn.id)
