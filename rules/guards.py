"""A2 guarded rejections: `a comparison of X with Y exists, feeds a branch, and the rejecting side constructs
the typed error and cannot reach a success return`.

Instances are written as (function, error variant, tokens of side A, tokens of side B).  Tokens describe the deep
origins of an operand in a refactor-tolerant way:
  f:<field>      a field of a workspace ADT was read on the way (name only)
  c:<fn name>    the value derives from a call to a function with that last path segment
  p:<i>          derives from parameter i
  k:<const>      a named constant / literal
A side matches when all its required tokens are present.
"""
import re

from .engine import op_place
from .prims import comparisons, switch_edges_on_local, ok_return_blocks, agg_blocks, tree

STD = ("core::", "std::", "alloc::", "(")


def tokens_of_atoms(atoms):
    out = set()
    for a in atoms:
        for s in a.steps:
            if isinstance(s, tuple) and not s[0].startswith(STD):
                out.add("f:" + s[2])
            elif isinstance(s, tuple) and s[0] == "(closure)":
                out.add("u:" + s[2])
        if a.kind == "call":
            out.add("c:" + a.key[0].rsplit("::", 1)[-1])
        elif a.kind == "param":
            out.add("p:%d" % a.key)
        elif a.kind == "const":
            out.add("k:" + str(a.key).rsplit("::", 1)[-1])
        elif a.kind == "agg":
            out.add("a:" + str(a.key[0]).rsplit("::", 1)[-1] + ("::" + a.key[1] if a.key[1] else ""))
    return out


def side_tokens(fn, operand):
    return tokens_of_atoms(fn.origins().of_operand(operand, deep=True))


def error_sites(fn, enum_path, variant):
    """Blocks constructing enum::variant (aggregate) in fn."""
    return agg_blocks(fn, enum_path, variant)


def comparison_controls(fn, cmp, target_blocks, ok_blocks=None):
    """Does the comparison (bb, kind, a, b, res, line) gate `target_blocks`: some switch on its result has a successor
    (the rejecting side) from which a target block (the typed error construction) is reachable and NO success return
    is.  Returns the list of (sw_bb, reject_target, accept_target)."""
    bb, kind, a, b, res, line = cmp
    if ok_blocks is None:
        ok_blocks = ok_return_blocks(fn)[0]
    out = []
    for sw in switch_edges_on_local(fn, res):
        for rej, acc in ((sw["true"], sw["false"]), (sw["false"], sw["true"])):
            reach = fn.reachable([rej], avoid_edges=[(sw["sw"], acc)], avoid_blocks=[sw["sw"]])
            if any(x in reach for x in target_blocks) and not any(x in reach for x in ok_blocks):
                out.append((sw["sw"], rej, acc))
    return out


def find_guard(prog, fn, enum_path, variant, need_a, need_b, search_tree=False):
    """Look for a gating comparison for `variant` in fn (or, with search_tree, in its workspace callees too).
    Returns (status, detail): status in 'ok' | 'no-site' | 'no-compare' | 'not-gating'."""
    fns = [fn]
    if search_tree:
        fns, _ = tree(prog, [fn])
    any_site = False
    best = ("no-site", "error variant %s is not constructed" % variant)
    for f in fns:
        sites = error_sites(f, enum_path, variant)
        if not sites:
            continue
        any_site = True
        oks, errs = ok_return_blocks(f)
        found_cmp = False
        for cmp in comparisons(f):
            ta = side_tokens(f, cmp[2])
            tb = side_tokens(f, cmp[3])
            if not ((need_a <= ta and need_b <= tb) or (need_a <= tb and need_b <= ta)):
                continue
            found_cmp = True
            ctrls = comparison_controls(f, cmp, sites, oks)
            if ctrls:
                return "ok", "%s: compare@%s gates %s" % (f.id.rsplit("::", 1)[-1], cmp[5], variant)
            best = ("not-gating", "comparison at line %s has no side that leads to %s without being able to reach Ok" % (cmp[5], variant))
        if not found_cmp and best[0] == "no-site":
            best = ("no-compare", "no comparison of {%s} with {%s} in %s" % (",".join(sorted(need_a)), ",".join(sorted(need_b)), f.id))
    if not any_site:
        return best
    return best


def dump_guards(prog, fn, enum_paths):
    """Development aid: list, for every error-variant construction in fn, the comparisons controlling it."""
    rows = []
    cmps = comparisons(fn)
    for enum_path in enum_paths:
        adt = prog.adts.get(enum_path)
        if not adt:
            continue
        for v in adt["variants"]:
            sites = error_sites(fn, enum_path, v["n"])
            if not sites:
                continue
            ctl = []
            for cmp in cmps:
                if comparison_controls(fn, cmp, sites):
                    ctl.append((cmp[5], cmp[1], sorted(side_tokens(fn, cmp[2])), sorted(side_tokens(fn, cmp[3]))))
            rows.append((v["n"], [fn.block_line(s) for s in sites], ctl))
    return rows


def find_presence_guard(prog, fn, enum_path, variant, need, adapters=r"::(is_some|is_none|is_ok|is_err|is_empty)$"):
    """A presence test (`x.is_some()`, `x.is_none()`, `.is_empty()`) whose receiver carries the tokens `need` and one of
    whose outcomes leads to the construction of `variant` without being able to reach a success return."""
    from .prims import presence_edges
    sites = error_sites(fn, enum_path, variant)
    if not sites:
        return "no-site", "error variant %s is not constructed" % variant
    oks = ok_return_blocks(fn)[0]
    rx_ = re.compile(adapters)
    seen = False
    for bi, t in fn.calls():
        c = fn.callee_of(t) or ""
        if not rx_.search(c) or fn.blocks[bi]["cl"]:
            continue
        toks = side_tokens(fn, t["args"][0])
        if not need <= toks:
            continue
        seen = True
        for sw in switch_edges_on_local(fn, t["dest"][0]):
            for rej, acc in ((sw["true"], sw["false"]), (sw["false"], sw["true"])):
                reach = fn.reachable([rej], avoid_edges=[(sw["sw"], acc)], avoid_blocks=[sw["sw"]])
                if any(s in reach for s in sites) and not any(o in reach for o in oks):
                    return "ok", "%s: presence test@%s gates %s" % (fn.name, t.get("line"), variant)
    if seen:
        return "not-gating", "presence test on {%s} does not gate %s" % (",".join(sorted(need)), variant)
    return "no-compare", "no presence test on {%s} in %s" % (",".join(sorted(need)), fn.id)
