"""A2 guarded rejections: `a comparison of X with Y exists, feeds a branch, and the rejecting side constructs
the typed error and cannot reach a success return`.

Instances are written as (function, error variant, tokens of side A, tokens of side B).  Tokens describe the deep
origins of an operand in a refactor-tolerant way:
  f:<field>      a field of a workspace ADT was read on the way (name only)
  c:<fn name>    the value derives from a call to a function with that last path segment
  p:<i>          derives from parameter i
  k:<const>      a named constant / literal
A side matches when all its required tokens are present.
"""
import re

from .engine import op_place
from .prims import comparisons, switch_edges_on_local, ok_return_blocks, agg_blocks, tree, near_origins

STD = ("core::", "std::", "alloc::", "(")


def tokens_of_atoms(atoms):
    out = set()
    for a in atoms:
        for s in a.steps:
            if isinstance(s, tuple) and not s[0].startswith(STD):
                out.add("f:" + s[2])
            elif isinstance(s, tuple) and s[0] == "(closure)":
                out.add("u:" + s[2])
        if a.kind == "call":
            out.add("c:" + a.key[0].rsplit("::", 1)[-1])
        elif a.kind == "param":
            out.add("p:%d" % a.key)
        elif a.kind == "const":
            out.add("k:" + str(a.key).rsplit("::", 1)[-1])
        elif a.kind == "agg":
            out.add("a:" + str(a.key[0]).rsplit("::", 1)[-1] + ("::" + a.key[1] if a.key[1] else ""))
    return out


def side_tokens(fn, operand):
    return tokens_of_atoms(fn.origins().of_operand(operand, deep=True))


def error_sites(fn, enum_path, variant):
    """Blocks constructing enum::variant (aggregate) in fn."""
    return agg_blocks(fn, enum_path, variant)


def comparison_controls(fn, cmp, target_blocks, ok_blocks=None):
    """Does the comparison (bb, kind, a, b, res, line) gate `target_blocks`: some switch on its result has a successor
    (the rejecting side) from which a target block (the typed error construction) is reachable and NO success return
    is.  Returns the list of (sw_bb, reject_target, accept_target)."""
    bb, kind, a, b, res, line = cmp
    if ok_blocks is None:
        ok_blocks = ok_return_blocks(fn)[0]
    out = []
    for sw in switch_edges_on_local(fn, res):
        for rej, acc in ((sw["true"], sw["false"]), (sw["false"], sw["true"])):
            reach = fn.reachable([rej], avoid_edges=[(sw["sw"], acc)], avoid_blocks=[sw["sw"]])
            if any(x in reach for x in target_blocks) and not any(x in reach for x in ok_blocks):
                out.append((sw["sw"], rej, acc))
    return out


def _guard_in(f, enum_path, variant, need_a, need_b, subst=None):
    """Gate search inside one function.  `subst` maps 'p:i' tokens to the caller's tokens for that argument."""
    sites = error_sites(f, enum_path, variant)
    if not sites:
        return None
    oks, errs = ok_return_blocks(f)
    if not oks:
        from .props.C13 import success_defs
        oks = success_defs(f)
    best = ("no-compare", "no comparison of {%s} with {%s} in %s" % (",".join(sorted(need_a)), ",".join(sorted(need_b)), f.id))

    def toks(o):
        t = side_tokens(f, o)
        if subst:
            extra = set()
            for x in t:
                if x in subst:
                    extra |= subst[x]
            t = t | extra
        return t
    for cmp in comparisons(f):
        ta, tb = toks(cmp[2]), toks(cmp[3])
        if not ((need_a <= ta and need_b <= tb) or (need_a <= tb and need_b <= ta)):
            continue
        if comparison_controls(f, cmp, sites, oks):
            return "ok", "%s: compare@%s gates %s" % (f.id.rsplit("::", 1)[-1], cmp[5], variant)
        best = ("not-gating", "comparison at line %s has no side that leads to %s without being able to reach Ok" % (cmp[5], variant))
    return best


def find_guard(prog, fn, enum_path, variant, need_a, need_b, search_tree=True):
    """Look for a gating comparison for `variant` in fn.  If the check was moved into a helper (the variant is constructed
    in a workspace callee, up to two levels down), the helper is searched with its parameters substituted by the caller's
    argument tokens and the helper's Result must be propagated by the caller.
    Returns (status, detail): status in 'ok' | 'no-site' | 'no-compare' | 'not-gating'."""
    from .prims import result_inspected
    r = _guard_in(fn, enum_path, variant, need_a, need_b)
    if r is not None and r[0] == "ok":
        return r
    best = r or ("no-site", "error variant %s is not constructed" % variant)
    if not search_tree:
        return best
    from .engine import resolve_upvars
    frontier = [(fn, None, 0)]
    seen = {fn.id}
    while frontier:
        f, subst, depth = frontier.pop(0)
        if depth >= 2:
            continue
        # the helper may be called from a closure of f (`items.iter().try_for_each(|x| helper(ctx, x))?`)
        callsites = [(f, bi, t) for bi, t in f.calls()]
        for cid in prog.closures_in(f.id):
            c_ = prog.fns[cid]
            callsites += [(c_, bi, t) for bi, t in c_.calls()]
        for g, bi, t in callsites:
            callee = g.callee_of(t) or ""
            h = prog.fns.get(callee)
            if h is None or h.id in seen or g.blocks[bi]["cl"] or not h.crate.startswith(fn.crate.split("_")[0]):
                continue
            if not result_inspected(g, bi)[0]:
                continue
            seen.add(h.id)
            sub = {}
            for ai, a in enumerate(t["args"]):
                if g is f:
                    tk = side_tokens(f, a)
                else:
                    cur, hh = g.origins().of_operand(a, deep=True), g
                    while hh is not None and hh.is_closure():
                        cur = resolve_upvars(hh, cur, True)
                        hh = prog.fns.get(hh.rec.get("parent"))
                    tk = tokens_of_atoms(cur)
                if subst:
                    extra = set()
                    for x in tk:
                        if x in subst:
                            extra |= subst[x]
                    tk = tk | extra
                sub["p:%d" % (ai + 1)] = tk
            rr = _guard_in(h, enum_path, variant, need_a, need_b, sub)
            if rr is not None:
                if rr[0] == "ok":
                    return "ok", rr[1] + " (helper of %s)" % fn.name
                if best[0] == "no-site":
                    best = rr
            frontier.append((h, sub, depth + 1))
    return best


def dump_guards(prog, fn, enum_paths):
    """Development aid: list, for every error-variant construction in fn, the comparisons controlling it."""
    rows = []
    cmps = comparisons(fn)
    for enum_path in enum_paths:
        adt = prog.adts.get(enum_path)
        if not adt:
            continue
        for v in adt["variants"]:
            sites = error_sites(fn, enum_path, v["n"])
            if not sites:
                continue
            ctl = []
            for cmp in cmps:
                if comparison_controls(fn, cmp, sites):
                    ctl.append((cmp[5], cmp[1], sorted(side_tokens(fn, cmp[2])), sorted(side_tokens(fn, cmp[3]))))
            rows.append((v["n"], [fn.block_line(s) for s in sites], ctl))
    return rows


def find_presence_guard(prog, fn, enum_path, variant, need, adapters=r"::(is_some|is_none|is_ok|is_err|is_empty)$"):
    """A presence test (`x.is_some()`, `x.is_none()`, `.is_empty()`) whose receiver carries the tokens `need` and one of
    whose outcomes leads to the construction of `variant` without being able to reach a success return."""
    from .prims import presence_edges
    sites = error_sites(fn, enum_path, variant)
    if not sites:
        return "no-site", "error variant %s is not constructed" % variant
    oks = ok_return_blocks(fn)[0]
    rx_ = re.compile(adapters)
    seen = False
    for bi, t in fn.calls():
        c = fn.callee_of(t) or ""
        if not rx_.search(c) or fn.blocks[bi]["cl"]:
            continue
        toks = side_tokens(fn, t["args"][0])
        if not need <= toks:
            continue
        seen = True
        for sw in switch_edges_on_local(fn, t["dest"][0]):
            for rej, acc in ((sw["true"], sw["false"]), (sw["false"], sw["true"])):
                reach = fn.reachable([rej], avoid_edges=[(sw["sw"], acc)], avoid_blocks=[sw["sw"]])
                if any(s in reach for s in sites) and not any(o in reach for o in oks):
                    return "ok", "%s: presence test@%s gates %s" % (fn.name, t.get("line"), variant)
    if seen:
        return "not-gating", "presence test on {%s} does not gate %s" % (",".join(sorted(need)), variant)
    return "no-compare", "no presence test on {%s} in %s" % (",".join(sorted(need)), fn.id)


# ------------------------------------------------------------------ guard strength: relation + unconditionality

_NEG = {"Eq": "Ne", "Ne": "Eq", "Lt": "Ge", "Ge": "Lt", "Gt": "Le", "Le": "Gt"}
_FLIP = {"Eq": "Eq", "Ne": "Ne", "Lt": "Gt", "Gt": "Lt", "Le": "Ge", "Ge": "Le"}
_CANON = {"eq": "Eq", "ne": "Ne", "lt": "Lt", "le": "Le", "gt": "Gt", "ge": "Ge"}


def _edge_polarity(fn, cmp_res_local, sw_bb, rej):
    """Is `rej` the successor taken when the comparison result is TRUE (returns True), FALSE (False) or unknown (None)?"""
    for sw in switch_edges_on_local(fn, cmp_res_local):
        if sw["sw"] == sw_bb:
            if sw["true"] == rej and sw["false"] != rej:
                return True
            if sw["false"] == rej and sw["true"] != rej:
                return False
    return None


def _matching_gates(f, enum_path, variant, need_a, need_b, subst=None):
    """[(cmp, sw_bb, rej, acc, a_is_first)] for every comparison in f whose operands carry the tokens and which gates the error."""
    sites = error_sites(f, enum_path, variant)
    if not sites:
        return [], sites
    oks, errs = ok_return_blocks(f)
    if not oks:
        from .props.C13 import success_defs
        oks = success_defs(f)

    def toks(o):
        t = side_tokens(f, o)
        if subst:
            extra = set()
            for x in t:
                if x in subst:
                    extra |= subst[x]
            t = t | extra
        return t
    out = []
    for cmp in comparisons(f):
        ta, tb = toks(cmp[2]), toks(cmp[3])
        fwd = need_a <= ta and need_b <= tb
        rev = need_a <= tb and need_b <= ta
        if not (fwd or rev):
            continue
        for (sw_bb, rej, acc) in comparison_controls(f, cmp, sites, oks):
            out.append((cmp, sw_bb, rej, acc, True if (fwd and not rev) else (False if (rev and not fwd) else None)))
    return out, oks


def guard_strength(prog, fn, enum_path, variant, need_a, need_b):
    """For the gate(s) found by the same search as find_guard: the normalised rejection relation(s) and the branch
    conditions that decide whether the gate is evaluated at all.

    relation: 'A<op>B' = the error is raised when (side A) <op> (side B) holds, A being the side that carries need_a
              ('?' when the orientation is ambiguous or the comparison is a cmp()/partial_cmp() call).
    deciders: switch blocks D (other than the gate's own) with one successor from which a success return is reachable
              without evaluating any matching gate comparison, and another successor from which success is reachable
              only through the gate: D decides "validated or not".  Each is described by the kind of its condition:
              'disc:<adt>' (Option/enum match, loop exhaustion) or 'cmp:<tokens>' / 'call:<callee>' (value tests)."""
    from .prims import result_inspected
    found = []
    host = fn
    gates, oks = _matching_gates(fn, enum_path, variant, need_a, need_b)
    if not gates:
        # helper search, as in find_guard (two levels)
        frontier = [(fn, None, 0)]
        seen = {fn.id}
        while frontier and not gates:
            f, subst, depth = frontier.pop(0)
            if depth >= 2:
                continue
            for bi, t in f.calls():
                callee = f.callee_of(t) or ""
                h = prog.fns.get(callee)
                if h is None or h.id in seen or f.blocks[bi]["cl"] or not h.crate.startswith(fn.crate.split("_")[0]):
                    continue
                if not result_inspected(f, bi)[0]:
                    continue
                seen.add(h.id)
                sub = {}
                for ai, a in enumerate(t["args"]):
                    tk = side_tokens(f, a)
                    if subst:
                        extra = set()
                        for x in tk:
                            if x in subst:
                                extra |= subst[x]
                        tk = tk | extra
                    sub["p:%d" % (ai + 1)] = tk
                g2, oks2 = _matching_gates(h, enum_path, variant, need_a, need_b, sub)
                if g2:
                    gates, oks, host = g2, oks2, h
                    break
                frontier.append((h, sub, depth + 1))
    if not gates:
        return None
    rels = set()
    for (cmp, sw_bb, rej, acc, a_first) in gates:
        kind = _CANON.get(cmp[1], cmp[1])
        if kind not in _NEG:
            rels.add("A?B")
            continue
        pol = _edge_polarity(host, cmp[4], sw_bb, rej)
        if pol is None:
            rels.add("A?B")
            continue
        k = kind if pol else _NEG[kind]
        if k in ("Eq", "Ne"):
            rels.add("A%sB" % k)
        elif a_first is None:
            rels.add("A%s|%sB" % tuple(sorted((k, _FLIP[k]))))
        else:
            rels.add("A%sB" % (k if a_first else _FLIP[k]))
    # deciders
    f = host
    cblocks = {g[0][0] for g in gates}
    gate_sws = {g[1] for g in gates}
    n = len(f.blocks)
    preds = f.preds()
    # A = blocks from which an Ok return is reachable without entering a gate comparison block
    A = set()
    stack = [b for b in oks if b not in cblocks]
    A.update(stack)
    while stack:
        b = stack.pop()
        for p in preds[b]:
            if p in A or p in cblocks:
                continue
            A.add(p)
            stack.append(p)
    # OKR = blocks from which an Ok return is reachable at all
    OKR = set(oks)
    stack = list(oks)
    while stack:
        b = stack.pop()
        for p in preds[b]:
            if p not in OKR:
                OKR.add(p)
                stack.append(p)
    reach0 = f.reachable([0])
    deciders = []
    for b in sorted(reach0):
        t = f.blocks[b]["t"]
        if t["t"] != "sw" or b in gate_sws or f.blocks[b]["cl"]:
            continue
        succs = set(f.succ(b))
        if len(succs) < 2:
            continue
        skip = [s for s in succs if s in A]
        checked = [s for s in succs if s not in A and s in OKR]
        if skip and checked:
            deciders.append((b, describe_condition(f, b)))
    return {"relations": rels, "deciders": deciders, "host": host}


def _closure_condition(fn, call_t):
    """If exactly one closure is handed to the adapter call and it contains exactly one comparison, describe that comparison
    (captured variables resolved to the enclosing function)."""
    from .engine import resolve_upvars
    prog = fn.prog
    og = fn.origins()
    cids = set()
    for a in call_t["args"]:
        for at in og.of_operand(a, deep=False):
            if at.kind == "agg" and at.key[0] in prog.fns and prog.fns[at.key[0]].is_closure():
                cids.add(at.key[0])
        if "fn" in a and a.get("fn") in prog.fns and prog.fns[a["fn"]].is_closure():
            cids.add(a["fn"])
    if len(cids) != 1:
        return None
    c = prog.fns[cids.pop()]
    cmps = comparisons(c)
    if len(cmps) != 1:
        return None
    bb, kind, a, b, res, line = cmps[0]
    cog = c.origins()

    def toks(o):
        return sorted(tokens_of_atoms(resolve_upvars(c, cog.of_operand(o, deep=True), True)))
    return "cmp:%s:%s~%s" % (kind, ",".join(toks(a)), ",".join(toks(b)))


def describe_condition(fn, sw_bb):
    """Refactor-tolerant description of what a SwitchInt tests."""
    t = fn.blocks[sw_bb]["t"]
    p = op_place(t["o"])
    if p is None:
        return "const"
    l = p[0]
    for d in fn.defs().get(l, ()):
        if d[0] == "assign":
            rv = d[4]
            if rv["r"] == "disc":
                return "disc:" + str(rv.get("adt", "")).rsplit("::", 1)[-1]
            if rv["r"] == "bin":
                ta, tb = sorted(side_tokens(fn, rv["a"])), sorted(side_tokens(fn, rv["b"]))
                return "cmp:%s:%s~%s" % (rv["op"], ",".join(ta), ",".join(tb))
            if rv["r"] in ("use", "un"):
                o = rv["o"]
                q = op_place(o)
                if q is not None and not q[1]:
                    # copy / negation of another local: describe that one
                    for d2 in fn.defs().get(q[0], ()):
                        if d2[0] == "call":
                            nm2 = (fn.callee_of(d2[2]) or "?").rsplit("::", 1)[-1]
                            if nm2 in ("is_some_and", "is_ok_and", "is_none_or", "map_or", "any", "all", "is_err_and"):
                                inner = _closure_condition(fn, d2[2])
                                if inner is not None:
                                    return inner
                            return "call:" + nm2
                        if d2[0] == "assign" and d2[4]["r"] == "bin":
                            rv2 = d2[4]
                            return "cmp:%s:%s~%s" % (rv2["op"], ",".join(sorted(side_tokens(fn, rv2["a"]))), ",".join(sorted(side_tokens(fn, rv2["b"]))))
                        if d2[0] == "assign" and d2[4]["r"] == "disc":
                            return "disc:" + str(d2[4].get("adt", "")).rsplit("::", 1)[-1]
                toks = sorted(side_tokens(fn, o))
                return "val:" + ",".join(toks)
        elif d[0] == "call":
            callee = (fn.callee_of(d[2]) or "?").rsplit("::", 1)[-1]
            if callee in ("is_some_and", "is_ok_and", "is_none_or", "map_or", "any", "all", "is_err_and"):
                # the test is the closure's: `x.checked_add(n).is_some_and(|end| end <= bytes.len())`
                inner = _closure_condition(fn, d[2])
                if inner is not None:
                    return inner
            if callee in ("eq", "ne", "lt", "le", "gt", "ge"):
                a = d[2]["args"]
                return "cmp:%s:%s~%s" % (callee, ",".join(sorted(side_tokens(fn, a[0]))), ",".join(sorted(side_tokens(fn, a[1]))))
            return "call:" + callee
        elif d[0] == "param":
            return "param:%d" % d[1]
    return "other"


def coarse_condition(desc):
    """Coarsen a condition description to what a behaviour-preserving edit leaves alone: the workspace fields read on
    either side, whether a length is involved, the callee name."""
    if desc.startswith("cmp:"):
        _, op, rest = desc.split(":", 2)
        toks = set(x for side in rest.split("~") for x in side.split(",") if x)
        fl = sorted(t for t in toks if t.startswith("f:"))
        return "cmp:" + ",".join(fl) + ("|len" if "c:len" in toks else "")
    if desc.startswith("val:"):
        toks = [x for x in desc[4:].split(",") if x.startswith(("f:", "c:"))]
        return "val:" + ",".join(sorted(toks))
    return desc


def check_strength(rep, rule, key, pid, prog, fn, enum_path, variant, need_a, need_b):
    """Two more instances for a gate that find_guard accepted:
    <key>:relation       the rejection relation between the two sides is the one confirmed on the pinned tree
                         (`!=` turned into `<`, or a second weaker comparison of the same values gating the same error);
    <key>:unconditional  no NEW value test (comparison / bool call) decides whether the gate is evaluated at all before a
                         success return — Option/enum matches and loop exhaustion are not value tests.  (A validation that
                         became conditional on some other field is a weakened validation.)"""
    from .baselines import baseline
    gs = guard_strength(prog, fn, enum_path, variant, set(need_a), set(need_b))
    if gs is None:
        return
    rels = sorted(gs["relations"])
    frozen = baseline("%s.gate-relation.%s" % (pid, key), rels)
    extra = [r for r in rels if r not in frozen and r != "A?B"]
    rep.check(not extra, rule, key + ":relation", "rejects when %s" % "/".join(rels),
              "the rejection relation of this gate changed: now %s, confirmed %s (weakened or altered comparison)" % (rels, frozen), site=gs["host"].loc())
    dec = sorted({coarse_condition(d) for b, d in gs["deciders"] if not d.startswith("disc:")})
    frozen_d = baseline("%s.gate-deciders.%s" % (pid, key), dec)
    new = [d for d in dec if d not in frozen_d]
    where = [gs["host"].block_line(b) for b, d in gs["deciders"] if coarse_condition(d) in new]
    # structural deciders (Option/enum matches, loop exhaustion) are legitimate, but a NEW one is a new success path that skips
    # the gate (`let Some(last) = xs.last() else { return Ok(default) }` in front of a tail check): their number is frozen
    # (counted over ALL deciders: `if end > len {..}` and `.filter(|end| *end <= len)` + let-else are the same bypass in two classes)
    n_struct = len(gs["deciders"])
    frozen_n = baseline("%s.gate-decider-count.%s" % (pid, key), [str(n_struct)])
    more = n_struct > int(frozen_n[0]) if frozen_n else False
    where_s = [gs["host"].block_line(b) for b, d in gs["deciders"]]
    rep.check(not more, rule, key + ":no-new-bypass", "%d structural bypass path(s), as confirmed" % n_struct,
              "the gate can now be skipped at %d branch points (confirmed: %s; deciders at lines %s): a new early success return precedes the validation" % (
                  n_struct, frozen_n[0] if frozen_n else "?", where_s), site=gs["host"].loc())
    rep.check(not new, rule, key + ":unconditional", "no new value test decides whether the gate runs (%d structural deciders)" % len(gs["deciders"]),
              "the gate is now skipped depending on %s (line %s): a success return is reachable without the comparison" % (new, where), site=gs["host"].loc())


def check_zip_lengths(rep, rule, prog, fn, done=None):
    """`a.iter().zip(b)` stops at the shorter side.  In a validation function a comparison loop driven by `zip` silently
    skips the surplus of the longer side, so it must be accompanied by a comparison of the two lengths (or of a length with
    a bound) in the same function.  No zip, no obligation."""
    if done is not None:
        if fn.id in done:
            return
        done.add(fn.id)
    bodies = [fn] + [prog.fns[c] for c in prog.closures_in(fn.id)]
    zips = [(g, b) for g in bodies for b in g.call_sites(r"Iterator>::zip$|::zip$")]
    if not zips:
        return
    has_len_gate = False
    for g in bodies:
        for (bb, kind, a, b, res, line) in comparisons(g):
            ta, tb = side_tokens(g, a), side_tokens(g, b)
            if "c:len" in ta and "c:len" in tb and switch_edges_on_local(g, res):
                has_len_gate = True
    rep.check(has_len_gate, rule, "zip-has-length-gate:%s" % fn.id.replace("warp_core::", ""), "%d zip site(s), lengths compared" % len(zips),
              "%s drives a comparison with `zip` (line %s) but never compares the two lengths: entries beyond the shorter sequence are accepted unchecked" % (
                  fn.name, [g.block_line(b) for g, b in zips][:2]), site=fn.loc())


NARROWING = r"Iterator::(skip|take|step_by|skip_while|take_while|nth)$|Iterator>::(skip|take|step_by|skip_while|take_while|nth)$|::split_at$|::split_off$"


def check_whole_sequence(rep, rule, prog, fn, done=None):
    """A validation function examines the WHOLE sequence it is given.  A positional narrowing of an iterator or slice whose
    amount is computed (`.skip(n)`, `.take(n)`, `[n..]`, `split_at(n)` with non-constant n) means part of the sequence is
    accepted unexamined.  Constant amounts (`skip(1)` for adjacent pairs) carry no such obligation.  Returns the number of
    sites examined so callers can report them."""
    if done is not None:
        if fn.id in done:
            return 0
        done.add(fn.id)
    bodies = [fn] + [prog.fns[c] for c in prog.closures_in(fn.id)]
    bad, n = [], 0
    for g in bodies:
        for bi, blk in enumerate(g.blocks):
            t = blk["t"]
            if t["t"] != "call":
                continue
            c = g.callee_of(t) or ""
            amount = None
            if re.search(NARROWING, c) and len(t["args"]) >= 2:
                amount = t["args"][1]
            elif re.search(r"Index(Mut)?<.*::index(_mut)?$", c) and len(t["args"]) >= 2:
                pl = op_place(t["args"][1])
                if pl is not None and "ops::Range" in str(g.locals[pl[0]]):
                    amount = t["args"][1]
            if amount is None:
                continue
            n += 1
            if "k" in amount:
                continue
            near = {x for x in near_origins(g, amount)}
            if near and all(x[0] == "const" for x in near):
                continue
            bad.append("%s:%s" % (c.rsplit("::", 1)[-1], g.block_line(bi)))
    rep.check(not bad, rule, "whole-sequence:%s" % fn.id.replace("warp_core::", ""), "no computed positional narrowing (%d constant-amount site(s))" % n,
              "%s narrows the sequence it validates by a computed amount (%s): the elements outside that window are accepted without being examined" % (fn.name, ", ".join(bad[:3])), site=fn.loc())
    return n
