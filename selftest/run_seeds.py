#!/usr/bin/env python3
"""Apply every seeded change to /repo (git apply), run ALL twenty checks, revert (git checkout -- .); record which rule
instances fire.  usage: selftest/run_seeds.py <out.json> <seed dir>...   (a seed dir holds patch.diff)"""
import json, os, subprocess, sys, re
from concurrent.futures import ThreadPoolExecutor
IDS = ["C%02d" % i for i in range(1, 21)]


def sh(cmd, **kw):
    return subprocess.run(cmd, shell=True, capture_output=True, text=True, **kw)


def main():
    out_path, seeds = sys.argv[1], sys.argv[2:]
    res = json.load(open(out_path)) if os.path.exists(out_path) else {}
    for sd in seeds:
        name = sd.rstrip("/")
        if name in res:
            continue
        if sh("git -C /repo status --porcelain").stdout.strip():
            sys.exit("refusing: /repo dirty")
        r = sh("git -C /repo apply %s/patch.diff" % sd)
        if r.returncode != 0:
            res[name] = {"error": "patch does not apply: " + r.stderr[:200]}
            continue
        try:
            sh("cd /verif && python3 -c \"from rules import facts as F; F.ensure_facts('trusted')\"")

            def one(pid):
                # evidence of a patched tree must not overwrite the committed evidence: ECHO_VERIF_NO_EVIDENCE
                r_ = sh("cd /verif && ECHO_VERIF_NO_EVIDENCE=1 ./check %s" % pid)
                keys = re.findall(r"rule=(\S+) key=(.*?) site=", r_.stdout)
                broken = "BROKEN" in r_.stdout
                return pid, keys, broken, r_.returncode
            with ThreadPoolExecutor(10) as ex:
                rows = list(ex.map(one, IDS))
            res[name] = {pid: {"fired": [k for k in keys], "broken": broken, "exit": rc} for pid, keys, broken, rc in rows if keys or broken or rc}
            print(name, {pid: [k[1][:60] for k in keys][:3] for pid, keys, b, rc in rows if keys}, flush=True)
        finally:
            sh("git -C /repo checkout -- .")
        json.dump(res, open(out_path, "w"), indent=1)


if __name__ == "__main__":
    main()
