#!/bin/bash
# usage: selftest/all_with_patch.sh <patch.diff> [ids...]  — apply to /repo, run all (or given) checks in parallel, always revert.
P="$1"; shift
IDS="$@"; [ -z "$IDS" ] && IDS="C01 C02 C03 C04 C05 C06 C07 C08 C09 C10 C11 C12 C13 C14 C15 C16 C17 C18 C19 C20"
cd /verif || exit 2
[ -n "$(git -C /repo status --porcelain)" ] && { echo "refusing: /repo dirty"; exit 2; }
git -C /repo apply "$P" || { echo "patch does not apply"; exit 2; }
python3 -c "from rules import facts as F; F.ensure_facts('trusted')" >/dev/null 2>&1
OUT=$(mktemp -d)
for id in $IDS; do ( ./check $id > $OUT/$id.txt 2>&1; echo "exit=$?" >> $OUT/$id.txt ) & done; wait
for id in $IDS; do grep -E "^(VIOLATION|BROKEN)|rule=|exit=[12]" $OUT/$id.txt | cut -c1-400 | sed "s/^/$id: /"; done
rm -rf $OUT
git -C /repo checkout -- . ; git -C /repo status --short | head -3
