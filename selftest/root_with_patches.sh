#!/bin/bash
# usage: selftest/root_with_patches.sh <dir-or-files...> -- [ids...]  — apply as many of the patches as apply cumulatively to /tmp/seeds/chk; run checks with --root.
R=/tmp/seeds/chk
[ -d $R ] || git -C /repo worktree add --detach $R HEAD >/dev/null 2>&1
FILES=(); IDS=""
while [ $# -gt 0 ]; do if [ "$1" = "--" ]; then shift; IDS="$@"; break; fi; FILES+=("$1"); shift; done
[ -z "$IDS" ] && IDS="C01 C02 C03 C04 C05 C06 C07 C08 C09 C10 C11 C12 C13 C14 C15 C16 C17 C18 C19 C20"
cd $R && git checkout -q -- . && git clean -fdq crates
for p in "${FILES[@]}"; do if git apply "$p" 2>/dev/null; then echo "applied $(basename $p)"; else echo "SKIPPED $(basename $p)"; fi; done
cd /verif
python3 -c "from rules import facts as F; F.ensure_facts('trusted', root='$R')" 2>&1 | tail -5
OUT=$(mktemp -d)
for id in $IDS; do ( python3 -m rules.run $id --root $R > $OUT/$id.txt 2>&1; echo "exit=$?" >> $OUT/$id.txt ) & done; wait
for id in $IDS; do grep -E "^(VIOLATION|BROKEN)|rule=|exit=[12]" $OUT/$id.txt | cut -c1-600 | sed "s/^/$id: /"; done
rm -rf $OUT
cd $R && git checkout -q -- . && git clean -fdq crates
