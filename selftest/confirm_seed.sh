#!/bin/bash
# usage: confirm_seed.sh <seed dir with patch.diff + demo/> <crate> [features]   — run inside scratch worktree /tmp/seeds/confirm
# Confirms: (1) patched tree compiles and the crate's existing tests pass, (2) demo FAILS with the patch, (3) demo PASSES without it.
S="$1"; CRATE="$2"; FEAT="$3"
WT=/tmp/seeds/confirm
export CARGO_TARGET_DIR=/tmp/seeds/confirm-target CARGO_NET_OFFLINE=true
cd $WT || exit 2
git checkout -q -- . && git clean -fdq crates
FE=""; [ -n "$FEAT" ] && FE="--features $FEAT"
place_demo() {
  for f in "$S"/demo/*.rs; do
    dest=$(grep -m1 -oE "crates/[A-Za-z0-9_/-]+\.rs" "$f" | head -1)
    [ -z "$dest" ] && dest="crates/$CRATE/tests/$(basename $f)"
    mkdir -p "$(dirname $dest)"; cp "$f" "$dest"; echo "demo -> $dest"
  done
  for d in "$S"/demo/*.diff; do [ -f "$d" ] && git apply "$d" && echo "applied $d"; done
}
demo_filter() {
  f=$(ls "$S"/demo/*.rs | head -1); n=$(basename $f .rs)
  dest=$(grep -m1 -oE "crates/[A-Za-z0-9_/-]+\.rs" "$f" | head -1)
  case "$dest" in */src/*) echo "$n";; *) echo "--test $n";; esac
}
echo "### with patch: existing tests of $CRATE"
git apply "$S/patch.diff" || { echo "PATCH DOES NOT APPLY"; exit 2; }
cargo test --offline --no-fail-fast -p $CRATE $FE 2>&1 | grep -E "^test result|FAILED|^error" | grep -v "^test result: ok" | head -12; echo "(only non-ok lines shown; expected: the known always-failing inverse_intent test)"
echo "### with patch: demo"
place_demo
cargo test --offline --no-fail-fast -p $CRATE $FE $(demo_filter) 2>&1 | grep -E "^test .*(ok|FAILED)$|^test result: (FAILED|ok). [1-9]|^error" | head -12
echo "### without patch: demo"
git apply -R "$S/patch.diff"
cargo test --offline --no-fail-fast -p $CRATE $FE $(demo_filter) 2>&1 | grep -E "^test .*(ok|FAILED)$|^test result: (FAILED|ok). [1-9]|^error" | head -12
git checkout -q -- . && git clean -fdq crates
