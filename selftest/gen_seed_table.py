#!/usr/bin/env python3
"""Regenerate the seed table of DESIGN.md Appendix C (rows S09..) from seeded/*/meta.json."""
import json, os, re
V = os.path.dirname(os.path.dirname(os.path.abspath(__file__)))
rows = []
for d in sorted(os.listdir(os.path.join(V, "seeded"))):
    mp = os.path.join(V, "seeded", d, "meta.json")
    if not os.path.exists(mp) or d[:3] <= "S08":
        continue
    m = json.load(open(mp))
    det = m.get("detected_by", [])
    short = []
    for x in det:
        parts = x.split(" ", 2)
        short.append("%s `%s`" % (parts[1], parts[2][:70]) if len(parts) == 3 else x)
    caught = "; ".join(short[:3]) + (" (+%d more)" % (len(short) - 3) if len(short) > 3 else "")
    if not det and m.get("detected_only_by_fail_closed_anchor"):
        caught = "fail-closed anchor only: " + m["detected_only_by_fail_closed_anchor"][0]
    if not caught:
        caught = "(detection run pending)"
    rows.append("| %s | %s | %s | %s | %s | %s |" % (d[:3], m["breaks_property"], m.get("change", ""), m["needs_to_manifest"], m.get("first_run", "").replace("first run: ", ""), caught))
s = open(os.path.join(V, "DESIGN.md")).read()
start = "<!-- seed-table-begin -->"
end = "<!-- seed-table-end -->"
block = (start + "\n\n**Rounds 2 and 3** (S09–S68; two independent changes per property and round):\n\n"
         "| seed | property | change (one line) | needs | first run | now caught by |\n|---|---|---|---|---|---|\n" + "\n".join(rows) + "\n\n" + end)
if start in s:
    s = s[:s.index(start)] + block + s[s.index(end) + len(end):]
else:
    # append after the S08 row
    i = s.index("| S08 |")
    j = s.index("\n", i)
    s = s[:j + 1] + "\n" + block + "\n" + s[j + 1:]
open(os.path.join(V, "DESIGN.md"), "w").write(s)
print(len(rows), "rows")
