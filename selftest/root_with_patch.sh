#!/bin/bash
# usage: selftest/root_with_patch.sh <patch.diff> [ids...] — apply to the scratch checkout /tmp/seeds/chk (never /repo), run the checks with --root.
# Development aid for triaging many candidate patches while /repo is busy; official seed results are taken with with_patch.sh on /repo.
P="$1"; shift
IDS="$@"; [ -z "$IDS" ] && IDS="C01 C02 C03 C04 C05 C06 C07 C08 C09 C10 C11 C12 C13 C14 C15 C16 C17 C18 C19 C20"
R=/tmp/seeds/chk
[ -d $R ] || git -C /repo worktree add --detach $R HEAD >/dev/null 2>&1
cd $R && git checkout -q -- . && git clean -fdq crates && git apply "$P" || { echo "patch does not apply"; exit 2; }
cd /verif
python3 -c "from rules import facts as F; F.ensure_facts('trusted', root='$R')" 2>&1 | tail -5
OUT=$(mktemp -d)
for id in $IDS; do ( python3 -m rules.run $id --root $R > $OUT/$id.txt 2>&1; echo "exit=$?" >> $OUT/$id.txt ) & done; wait
for id in $IDS; do grep -E "^(VIOLATION|BROKEN)|rule=|exit=[12]" $OUT/$id.txt | cut -c1-500 | sed "s/^/$id: /"; done
rm -rf $OUT
cd $R && git checkout -q -- . && git clean -fdq crates
