#!/usr/bin/env python3
"""Development regression suite for the checker itself (NOT a registered check: it edits /repo's working tree and reverts).

  python3 selftest/mutants.py [name-filter]

Each mutant is a list of textual edits to /repo plus the properties that MUST fire (`fire`) or MUST stay silent
(`silent`: behaviour-preserving refactors).  Every mutant still compiles (the fact generation would report BROKEN otherwise).
"""
import subprocess
import sys

REPO = "/repo"
WC = "crates/warp-core/src/"

MUTANTS = [
    # ---------------- must fire
    ("c03-drop-cell", {"fire": ["C03"]}, [
        (WC + "engine_impl.rs", "    a.n_write.intersects(&b.n_write)\n        || a.n_write.intersects(&b.n_read)\n", "    a.n_write.intersects(&b.n_write)\n")]),
    ("c03-read-read-conflict", {"fire": ["C03"]}, [
        (WC + "scheduler.rs", "        for key in pr.footprint.e_read.iter() {\n            if active.edges_written.contains(*key) {",
         "        for key in pr.footprint.e_read.iter() {\n            if active.edges_read.contains(*key) {")]),
    ("c04-digest-drops-type-id", {"fire": ["C04"]}, [
        (WC + "tick_patch.rs", "    h.update(&(atom.type_id).0);\n", "")]),
    ("c04-set-attachment-without-owner-check", {"fire": ["C04"]}, [
        (WC + "tick_patch.rs", "            if store.node(&node.local_id).is_none() {\n                return Err(TickPatchError::MissingNode(node));\n            }\n            store.set_node_attachment(node.local_id, value.cloned());",
         "            store.set_node_attachment(node.local_id, value.cloned());")]),
    ("c04-sort-key-drops-from", {"fire": ["C04"]}, [
        (WC + "tick_patch.rs", "                a: record.from.0,\n                b: record.id.0,", "                a: record.id.0,\n                b: record.id.0,")]),
    ("c10-commit-marker-not-synced", {"fire": ["C10"]}, [
        (WC + "causal_wal.rs", "append_segment_record(&self.segment_path(), DiskWalRecord::Commit(&commit), true)?;", "append_segment_record(&self.segment_path(), DiskWalRecord::Commit(&commit), false)?;")]),
    ("c10-cursor-before-append", {"fire": ["C10"]}, [
        (WC + "trusted_runtime_host.rs", "        self.store.append_transaction(transaction)?;\n        self.next_lsn = next_lsn;", "        self.next_lsn = next_lsn;\n        self.store.append_transaction(transaction)?;")]),
    ("c10-no-rollback-on-wal-error", {"fire": ["C10"]}, [
        (WC + "trusted_runtime_host.rs", "                return Ok(handle);\n            }\n            self.host.runtime = before_runtime;\n            return Err(error.into());", "                return Ok(handle);\n            }\n            return Err(error.into());")]),
    ("c16-observe-through-mutable-kernel", {"fire": ["C16"]}, [
        ("crates/warp-wasm/src/lib.rs", "encode_result(with_kernel_ref(|k| k.observe(request)))", "encode_result(with_kernel(|k| k.observe(request)))")]),
    ("c13-unbounded-map-alloc", {"fire": ["C13"]}, [
        ("crates/echo-wasm-abi/src/canonical.rs", "            need(bytes, *idx, len.checked_mul(2).ok_or(CanonError::Incomplete)?)?;\n", "")]),
    ("c20-fast-path-before-hash", {"fire": ["C20"]}, [
        ("crates/echo-cas/src/memory.rs", "        let computed = blob_hash(bytes);\n        if computed != expected {\n            return Err(CasError::HashMismatch { expected, computed });\n        }\n        // Already stored: verified bytes are identical by content address.\n        if self.blobs.contains_key(&expected) {\n            return Ok(());\n        }\n",
         "        if self.blobs.contains_key(&expected) {\n            return Ok(());\n        }\n        let computed = blob_hash(bytes);\n        if computed != expected {\n            return Err(CasError::HashMismatch { expected, computed });\n        }\n")]),
    ("c06-accumulator-drops-domain-tag", {"fire": ["C06"]}, [
        (WC + "snapshot_accum.rs", "        hasher.update(crate::domain::STATE_ROOT_V1);\n\n        // Root binding", "\n        // Root binding")]),
    # ---------------- must stay silent (behaviour-preserving refactors)
    ("silent-has-conflict-iterator-adaptors", {"silent": ["C03", "C01"]}, [
        (WC + "scheduler.rs", "        for key in pr.footprint.n_read.iter() {\n            if active.nodes_written.contains(*key) {\n                return true;\n            }\n        }\n",
         "        if pr.footprint.n_read.iter().any(|key| active.nodes_written.contains(*key)) {\n            return true;\n        }\n")]),
    ("silent-state-root-check-in-helper", {"silent": ["C05", "C07"]}, [
        (WC + "provenance_store.rs", "        if actual_state_root != entry.expected.state_root {\n            return Err(ReplayError::StateRootMismatch {\n                tick,\n                expected: entry.expected.state_root,\n                actual: actual_state_root,\n            });\n        }\n\n        let parent_hashes",
         "        ensure_state_root(tick, entry.expected.state_root, actual_state_root)?;\n\n        let parent_hashes"),
        (WC + "provenance_store.rs", "pub(crate) fn replay_worldline_state_at_from_provenance<P: ProvenanceStore>(",
         "fn ensure_state_root(tick: WorldlineTick, expected: Hash, actual: Hash) -> Result<(), ReplayError> {\n    if actual != expected {\n        return Err(ReplayError::StateRootMismatch { tick, expected, actual });\n    }\n    Ok(())\n}\n\npub(crate) fn replay_worldline_state_at_from_provenance<P: ProvenanceStore>(")]),
    ("silent-fork-checkpoint-bound-as-length", {"silent": ["C07", "C15"]}, [
        (WC + "provenance_store.rs", "                .filter(|c| c.checkpoint.worldline_tick <= checkpoint_max_tick)\n",
         "                .filter(|c| c.checkpoint.worldline_tick.as_u64() < (end_idx as u64).saturating_add(1))\n")]),
    ("c07-fork-checkpoint-bound-off-by-one", {"fire": ["C07"]}, [
        (WC + "provenance_store.rs", "                .filter(|c| c.checkpoint.worldline_tick <= checkpoint_max_tick)\n",
         "                .filter(|c| c.checkpoint.worldline_tick.as_u64() <= (end_idx as u64).saturating_add(1))\n")]),
    # ---------------- rounds 4/5
    ("c19-axis-angle-guard-on-the-square-only", {"fire": ["C19"]}, [   # re-introduces F11
        ("crates/warp-math/src/quat.rs", "        if len <= EPSILON {\n            return Self::identity();\n        }\n        let norm_axis", "        let norm_axis")]),
    ("c08-parents-sorted-by-projection", {"fire": ["C08"]}, [
        (WC + "head_inbox.rs", "causal_parents.sort_unstable();", "causal_parents.sort_unstable_by_key(|p| p.receipt_ref());")]),
    ("c04-jump-early-return", {"fire": ["C04"]}, [
        (WC + "engine_impl.rs", "        // 1. Restore state to the preserved initial state (U0).\n",
         "        if tick_index + 1 == ledger_len && self.tick_history[tick_index].0.state_root == compute_state_root(&self.state, &self.current_root) {\n            return Ok(());\n        }\n        // 1. Restore state to the preserved initial state (U0).\n")]),
    ("silent-jump-reset-via-clone-from", {"silent": ["C04"]}, [
        (WC + "engine_impl.rs", "        self.state = self.initial_state.clone();\n\n        // 2. Re-apply", "        let fresh = self.initial_state.clone();\n        self.state = fresh;\n\n        // 2. Re-apply")]),
]


def sh(cmd, **kw):
    return subprocess.run(cmd, shell=True, capture_output=True, text=True, **kw)


def main():
    flt = sys.argv[1] if len(sys.argv) > 1 else ""
    if sh("git -C %s status --porcelain" % REPO).stdout.strip():
        sys.exit("refusing: /repo working tree is not clean")
    bad = 0
    for name, exp, edits in MUTANTS:
        if flt and flt not in name:
            continue
        try:
            for path, old, new in edits:
                p = "%s/%s" % (REPO, path)
                s = open(p).read()
                if old not in s:
                    print("%-45s STALE (anchor text not found in %s)" % (name, path))
                    bad += 1
                    raise KeyError
                open(p, "w").write(s.replace(old, new, 1))
            for pid in exp.get("fire", []) + exp.get("silent", []):
                r = sh("cd /verif && ./check %s" % pid)
                fired = "VIOLATION property=%s" % pid in r.stdout
                broken = "BROKEN" in r.stdout or r.returncode == 2
                want = pid in exp.get("fire", [])
                ok = (fired == want) and not broken
                keys = [l.split("key=")[1].split(" site=")[0] for l in r.stdout.splitlines() if "key=" in l][:3]
                print("%-45s %s %-4s %s %s" % (name, "ok  " if ok else "FAIL", pid, "fired" if fired else ("BROKEN" if broken else "silent"), keys))
                bad += 0 if ok else 1
        except KeyError:
            pass
        finally:
            sh("git -C %s checkout -- ." % REPO)
    print("mutant suite: %s" % ("all as expected" if not bad else "%d unexpected" % bad))
    sys.exit(1 if bad else 0)


if __name__ == "__main__":
    main()
