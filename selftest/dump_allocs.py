import sys
sys.path.insert(0, '/verif')
from rules.engine import *
from rules.prims import *
from rules.guards import side_tokens
from rules.props.C13 import entry_points
p = Program('trusted')
E = entry_points(p)
fns, ext = tree(p, E)
print(len(E), len(fns))
ALLOC = re.compile(r"Vec.*::with_capacity$|String::with_capacity$|Vec.*::reserve(_exact)?$|vec::from_elem$|Vec.*::resize$|::repeat$|VecDeque.*::with_capacity$|BytesMut::with_capacity$")
for f in fns:
    for bi, t in f.calls():
        c = f.callee_of(t) or ''
        if ALLOC.search(c) and not f.blocks[bi]['cl']:
            arg = t['args'][-1] if not c.endswith('from_elem') else t['args'][1]
            if c.endswith('::resize'): arg = t['args'][1]
            if c.endswith('::reserve') or c.endswith('reserve_exact'): arg = t['args'][1]
            toks = side_tokens(f, arg)
            print(f.id.replace('warp_core::',''), t.get('line'), c.rsplit('::',2)[-2:], sorted(toks)[:12])
