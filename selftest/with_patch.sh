#!/bin/sh
# usage: selftest/with_patch.sh <patch.diff> <property id>...   — apply to /repo, run checks, always revert
P="$1"; shift
cd /verif || exit 2
git -C /repo apply "$P" || { echo "patch does not apply"; exit 2; }
for id in "$@"; do ./check "$id" | grep -E "^(VIOLATION|KNOWN|BROKEN|C[0-9]+:)|rule=" ; done
git -C /repo checkout -- . ; git -C /repo status --short | head -3
