#!/usr/bin/env python3
"""Copy sub-agent seeds from /tmp/seeds/out-*/{A,B} into /verif/seeded/Snn-*/ with meta.json (development helper)."""
import json, os, re, shutil, sys
V = "/verif/seeded"
MAP = [
 ("S09", "C09", "A", "lazy-checkpoint-overwrites-shared-frontier", "two or more runnable heads on ONE worldline; an earlier head commits, a later head also admits work and then fails", "first run: caught only by the fail-closed anchor (checkpoint_for was renamed)"),
 ("S10", "C09", "B", "undo-journal-pushed-after-index-update", "a ticketed ingress whose head commits earlier in the pass than a head that fails; then someone reads the pending-submission index", "first run: caught (C09.R8)"),
 ("S11", "C10", "A", "skip-rewrite-when-no-record-dropped", "crash inside the FIRST disk record of a transaction after >=1 committed transaction; reopen writable; acknowledge one more; read the log again", "first run: missed"),
 ("S12", "C10", "B", "writer-refresh-uses-read-only-recovery", "store fault after a frame was appended (flush fault), retry on the same live host, then any scan or restart", "first run: missed"),
 ("S13", "C11", "A", "zero-header-is-a-torn-tail", "a zero-filled commit marker starting exactly on a record boundary in a non-final segment", "first run: missed"),
 ("S14", "C11", "B", "lsn-continuity-relaxed-across-epochs", "a log with two writer epochs and a whole transaction removed next to the epoch handover", "first run: missed"),
 ("S15", "C12", "A", "f16-fit-range-precheck-drops-subnormals", "an f32-width float whose value is a non-zero f16 subnormal (k*2^-24)", "first run: missed"),
 ("S16", "C12", "B", "optional-presence-byte-nonzero-is-present", "a presence byte in 2..=255 for a present optional field of a WAL payload record", "first run: missed"),
 ("S17", "C13", "A", "cursor-take-helper-unchecked-add", "a byte/text string with the 8-byte length form and a declared length within idx of u64::MAX", "first run: missed"),
 ("S18", "C13", "B", "tick-batch-zero-count-guard-dropped", "a digest-consistent TickReceiptRecorded frame whose batch payload declares zero members", "first run: missed"),
 ("S19", "C14", "A", "guard-metadata-keyed-by-scope-only", "two different rules admitted on the same scope node in one tick with different footprints", "first run: missed"),
 ("S20", "C14", "B", "open-portal-loses-instance-op-flag", "a user rule that declares the portal slot in a_write and emits OpenPortal with PortalInit::Empty", "first run: caught, but by the attribution parser failing on the refactored shape (all 8 arms flagged)"),
 ("S21", "C15", "A", "movement-footprint-ignores-merge-imports", "two sibling strands writing the same slot; the first settled as an import, then the second settled", "first run: missed"),
 ("S22", "C15", "B", "settle-rollback-restores-frontier-only", "a settlement that fails during execution after at least one decision ran", "first run: caught (C15.R2)"),
 ("S23", "C16", "A", "tick-equal-frontier-answered-from-live-state", "an explicit Tick(t) with t == the current frontier tick; a commit between two identical requests", "first run: missed"),
 ("S24", "C16", "B", "witness-tail-runs-to-provenance-tip", "observe_optic at an explicit historical tick with a checkpoint below it and commits above it", "first run: missed"),
 ("S25", "C17", "A", "coordinator-stays-ready-during-frame-append", "an append fault that fails AFTER writing the frame; the caller keeps using the same coordinator; then recovery", "first run: caught (C17.R2)"),
 ("S26", "C17", "B", "claim-grant-reissued-after-outcome-unknown", "a settlement of kind OutcomeUnknown, then claim_grant on the restart/reconciliation path", "first run: missed"),
 ("S27", "C18", "A", "bitand-short-circuits-on-zero", "a Reduce(BitAnd) channel with payloads of unequal length where the running AND reaches zero before a shorter payload in key order", "first run: missed"),
 ("S28", "C18", "B", "duplicate-check-sees-current-channel-run-only", "the same (channel, key) emitted twice in one tick with an emission to another channel in between", "first run: caught (C18.R1 pending-map type)"),
 ("S29", "C19", "A", "add-sub-skip-subnormal-flush", "two normal operands near f32::MIN_POSITIVE whose exact difference is subnormal", "first run: caught (C19.R1 constructor monopoly)"),
 ("S30", "C19", "B", "trig-range-reduction-via-floorf", "an angle so large that one ULP exceeds TAU (>= ~1e8)", "first run: caught (C19.R3: libm::floorf is not the allowed software root)"),
 ("S31", "C20", "A", "put-verified-short-circuits-when-stored", "a verified put pairing an already-stored hash with different bytes; or put -> corrupt file -> put -> get", "first run: caught (C20.R1)"),
 ("S32", "C20", "B", "self-contained-hash-check-only-for-present", "a non-Present retention record with an embedded payload that is corrupted", "first run: missed"),
 ("S33", "C01", "A", "recycled-pending-queue-keeps-aborted-candidates", "begin -> matching apply -> abort, then begin -> apply -> commit", "first run: missed"),
 ("S34", "C01", "B", "skip-ops-that-restate-pre-tick-values", "one rewrite that deletes a node/edge and re-creates it with byte-identical content in the same tick", "first run: caught (C04.R1 unreviewed WarpOp handler)"),
 ("S35", "C02", "A", "worker-caches-store-across-units", "a multi-warp tick, >=2 workers, and a worker whose own previous unit was in another warp than the globally preceding unit", "first run: missed"),
 ("S36", "C02", "B", "per-delta-dedupe-before-conflict-check", "two accepted rewrites in different units emitting the same op key with different values, landing in one worker's delta", "first run: missed"),
 ("S37", "C03", "A", "radix-skips-passes-judged-on-wrong-bytes", ">1024 candidates in one tx whose scope hashes share constant early bytes and differ only in later bytes", "first run: caught (every-pass-executes, from S03)"),
 ("S38", "C03", "B", "blockers-from-last-reader-index", ">=2 accepted candidates reading one resource, then a candidate writing it", "first run: caught (C03.R4 blockers-use-footprints_conflict)"),
 ("S39", "C04", "A", "upsert-edge-via-delete-edge-exact-drops-attachment", "an existing edge carrying an attachment is upserted with a changed record while its attachment value stays the same", "first run: caught by C14.R3; the C04 check itself crashed (KeyError) - fixed"),
 ("S40", "C04", "B", "diff-edges-through-reverse-index-misses-retype", "an edge that keeps id and endpoints but changes only its type", "first run: caught (C04.R9 + fail-closed anchor)"),
 ("S41", "C05", "A", "restore-replay-base-skips-rehash", "a retained checkpoint whose graph was altered after add_checkpoint; a replay/seek whose target tick equals the checkpoint tick", "first run: caught (C05.R3/C07.R2 gate table; same clause as S05)"),
 ("S42", "C05", "B", "validate-btr-zips-with-retained-entries", "a BTR whose payload overruns the retained history (genuine prefix plus forged tail)", "first run: missed"),
 ("S43", "C06", "A", "edge-portal-followed-only-for-new-targets", "an edge portal whose target node is already visited (parallel edge, back edge, self loop)", "first run: caught (C06.R3 every-edge-probed-for-descend, from S06)"),
 ("S44", "C06", "B", "attachment-tables-get-separate-blob-arenas", "one instance carrying both a non-empty node atom and a non-empty edge atom; WSC write then read back", "first run: missed"),
 ("S45", "C07", "A", "seek-rewind-advances-in-place-when-checkpoint-exists", "a cursor rewinds on a worldline that has a checkpoint at or before the target", "first run: missed"),
 ("S46", "C07", "B", "fork-partition-point-keeps-checkpoint-at-fork-plus-two", "source checkpoint at exactly fork_tick+2, fork not at the tip, child commits its own tick, seek past it", "first run: caught (C07.R5 linear-form bound, from S07)"),
 ("S48", "C08", "B", "restore-correlation-returns-early-when-present", "commit through the ticketed path, run persistence+history restore on the same live runtime, then retry via ingest", "first run: missed (C08/A of the same agent repeated S08 and was caught by the S08 rule; not stored twice)"),
 ("S49", "C09", "A", "overflow-preflight-folded-into-commit-loop", "a head with work on a worldline at WorldlineTick::MAX that is not the first committing head in canonical order", "first run: caught (C09.R1 err-return-passes-*-restore, C09.R7)"),
 ("S50", "C09", "B", "provenance-markers-taken-lazily-per-head", "two heads on the same worldline that both commit in one pass, then any failure later in the pass", "first run: missed (the S09 rule only knew the runtime checkpoint)"),
 ("S51", "C10", "A", "epoch-ledger-persisted-before-commit-marker", "a flush fault on a later transaction after its frames were written, process loss, a recovered host that acknowledges new work", "first run: caught (C10.R1 flush_commit:ledger-after-marker)"),
 ("S52", "C10", "B", "retry-index-keeps-only-pending-submissions", "an acknowledged submission decided by a committed tick, a restart, then a retry of that exact envelope", "first run: missed"),
 ("S53", "C11", "A", "segment-evidence-from-the-recovery-scan", "a sealed, manifested log with >=3 transactions and only the commit marker of a non-final transaction deleted", "first run: missed"),
 ("S54", "C11", "B", "ledger-reconciliation-uses-active-epoch-horizon", "a root that went through three writer epochs with a foreign transaction spliced over the middle epoch's", "first run: missed; first judged a value-level preference and left undecided, then decided by C11.R6 (both spellings of the preference accepted)"),
 ("S55", "C13", "A", "edict-map-values-decoded-at-same-depth", "~32 000 levels of nesting through map values (about 64 KiB of input)", "first run: missed (R3 checked that a depth is compared, not that every recursive call advances it)"),
 ("S56", "C13", "B", "ingress-count-guard-multiplies-before-comparing", "a declared causal-parent count >= ~2^64/177 in a ~50 byte retained envelope", "first run: caught (C13.R6, written for S17, generalised)"),
 ("S57", "C12", "A", "ingress-v2-reencode-gate-replaced-by-parent-count", "an EINGR002 record with >=2 distinct causal parents out of Ord order", "first run: missed — and the existing re-encode rule turned out to be VACUOUS for this decoder (pattern did not match `to_retained_bytes_v2`, then `continue`)"),
 ("S58", "C12", "B", "cbor-length-headers-lose-minimal-width-check", "a hand-built string/array/map with a non-minimal length header", "first run: caught (C12.R3 width thresholds; collateral C13 alarms)"),
 ("S59", "C14", "A", "guard-sets-widened-by-declared-edges", "a footprint that names an edge but not its attachment slot, and an executor that touches the slot", "first run: caught (C14.R4 guard-new mapping)"),
 ("S60", "C14", "B", "warp-check-skipped-for-instance-ops", "a system-classified item emitting an instance op aimed at another warp", "first run: missed"),
 ("S61", "C15", "A", "edge-overlap-compared-by-endpoints-only", "parent and strand both re-type the same edge (same endpoints) after the fork", "first run: missed"),
 ("S62", "C15", "B", "fork-copies-all-parent-checkpoints", "parent checkpoint at tick T, fork at a non-tip tick with fork_tick+1 < T, the strand grows to length >= T and is replayed", "first run: caught (C07.R3/R5 fork bound rules)"),
 ("S63", "C16", "A", "strand-tip-tick-posture-from-live-basis", "a live strand, an explicit tick equal to the child's tip, then a later parent or child commit, same request again", "first run: missed"),
 ("S64", "C16", "B", "frontier-commit-stamp-lookup-swallowed", "the live frontier ahead of retained provenance (after ProvenanceService::restore, or a runtime rebuilt around a materialized state)", "first run: missed"),
 ("S65", "C17", "A", "request-indexed-before-the-transaction-is-built", "a request whose public fields no longer hash to its request_id, then recorded_request or one more step and a recovery", "first run: caught (C17.R2 anchors + DuplicateRequest presence gate)"),
 ("S66", "C17", "B", "tail-check-behind-genesis-early-return", "a crash between frame append and commit flush of the FIRST-EVER transaction, restart, one more step, one more recovery", "first run: missed (an Option decider was treated as always legitimate)"),
 ("S67", "C18", "A", "max-min-through-zero-padded-comparator", "a Reduce(Max/Min) channel where the extreme is attained by payloads differing only in trailing zero bytes", "first run: missed"),
 ("S68", "C18", "B", "commutative-channels-folded-on-arrival", "a Reduce(BitAnd) channel, a longer payload emitted before a shorter one", "first run: caught (C18.R1-R3 structure rules: pending map type, emit/finalize shape)"),
 ("S69", "C19", "A", "vec3-normalize-guards-squared-length", "a finite vector whose squared length overflows f32 (|v| > ~1.84e19)", "first run: missed (no rule looked at divisions; the same shape was a genuine defect of Quat::from_axis_angle, F11)"),
 ("S70", "C19", "B", "q32-to-f32-signed-abs", "the raw value i64::MIN (what from_f32 saturates to for large negative inputs): debug builds panic, release wraps", "first run: missed"),
 ("S71", "C20", "A", "retention-index-keyed-by-coordinate-digest", "two coordinates whose schema/artifact hex strings are not fixed-width, so their concatenation coincides", "first run: caught (C20.R4 index keyed by the full coordinate)"),
 ("S72", "C20", "B", "cas-addressed-retained-blobs-presence-only", "an importer-side CAS holding a present but corrupted, truncated or padded retained blob", "first run: missed"),
 ("S73", "C01", "A", "radix-hybrid-bucket-zero-unsorted", ">1024 candidates in one tx, two of them conflicting with scope hashes starting 0x0000", "first run: caught, but only fail-closed (C01.R1/C03.R6 radix shape anchors: the LSD passes they decide are gone)"),
 ("S74", "C03", "A", "port-claims-mutate-while-checking", "an accepted candidate holding port Q, then a multi-port candidate touching free P before Q, then a candidate touching only P", "first run: caught (C03.R1 has_conflict cells, C03.R2 mark_all)"),
 ("S75", "C03", "B", "shared-overlaps-predicate-flipped-edge-clause", "an accepted edge writer followed by a candidate that only reads that edge", "first run: caught (C03.R1 conflict-matrix cell e_read~e_write)"),
 ("S76", "C05", "A", "checkpoint-validation-skips-validated-prefix", "an honest checkpoint at K>=1, then a foreign checkpoint at N>K differing only at an index below K, then a replay to >=N", "first run: missed"),
 ("S77", "C05", "B", "receipt-digest-check-skipped-for-empty-receipt", "a retained receipt truncated at rest to zero candidates (same tx), then a replay across that tick", "first run: caught (C05.R3 guard strength: the ReceiptDigestMismatch gate gained a value-test decider)"),
 ("S78", "C07", "A", "finalize-skips-empty-outputs", "a commit with outputs followed by a commit with none; a replay ending on the empty one that does not start from U0", "first run: missed"),
 ("S79", "C07", "B", "checkpoint-state-before-inclusive", "a checkpoint stored at exactly target+1 and a restore (service replay, backward seek, or forward seek across another checkpoint)", "first run: missed"),
 ("S80", "C02", "A", "worker-deltas-kept-in-the-engine-across-ticks", "a tick where a rule panics on a lower-indexed worker while a higher-indexed worker finished a unit; the host catches the panic; a later tick with at least as many workers", "first run: caught (C09.R4 engine-swap guard: a new Engine field written by the commit body is not saved/restored; C02.R1 spawn captures; C14.R6)"),
 ("S81", "C02", "B", "single-producer-merge-skips-conflict-scan", "a rule that writes one key twice with different values, at least one other unit in the tick, and a schedule where one worker drains the whole queue", "first run: caught (C02.R5 merge-keeps-every-op, C01.R4 sort-dominates-ok)"),
 ("S82", "C04", "A", "portal-root-skip-set-keyed-by-local-id", "one tick that opens a portal to a brand-new child and, in another instance, creates/retypes/deletes a node whose local id equals the child root's", "first run: missed"),
 ("S83", "C04", "B", "jump-to-tick-fast-path-on-state-root", "ticks between the target and the current state that only touched content unreachable from the root, then jump_to_tick(k)", "first run: missed"),
 ("S84", "C06", "A", "reparented-edge-leaves-empty-bucket", "an existing edge id upserted with a different `from` while it was the only edge of its old bucket, the old source still reachable and given no new out-edge", "first run: missed"),
 ("S85", "C06", "B", "accumulator-reopen-keeps-child-untouched", "OpenPortal(Empty), DeleteNode(child root), OpenPortal(Empty) again with the same key/child/root", "first run: missed"),
 ("S86", "C08", "A", "causal-parents-sorted-by-receipt-ref-only", "an envelope citing one receipt in both roles (TickReceipt and ContractInverseTarget) and a second submission listing the same parents in another order", "first run: missed"),
 ("S87", "C08", "B", "ticketed-ingest-goes-straight-to-the-head-inbox", "an intent ingested and committed through plain ingest, then the same witnessed submission staged through ingest_ticketed_invocation and another pass", "first run: missed"),
 ("S88", "C12", "A", "cbor-8-byte-width-threshold-2-pow-28", "a 9-byte head (additional-info 27) whose argument lies in [2^28, 2^32): no byte string shorter than 9 bytes reaches it", "first run: caught (C12.R3 cbor-width-threshold agreement between write_major and read_len)"),
 ("S89", "C12", "A", "edict-reencode-gate-replaced-by-inline-width-check", "a non-minimal head whose argument is exactly 23, 255, 65535 or 2^32-1, one width too wide", "first run: caught (C12.R4 reencode-gate-kept:decode_canonical_cbor_v1)"),
 ("S90", "C13", "A", "abi-need-checks-idx-plus-n", "a canonical 8-byte length head whose declared length is within idx of 2^64 (5b ff..ff)", "first run: caught (C13.R5 canonical:need)"),
 ("S91", "C13", "A", "edict-map-arm-loses-cumulative-reservation", "128 nested 32000-entry map headers placed in first-key position: every open level pre-allocates at once (262 MB from a 32 KB input); both versions return a typed error", "first run: missed"),
 ("S92", "C19", "A", "trig-results-wrapped-without-subnormal-flush", "a normal angle within ~5 ULP of f32::MIN_POSITIVE: the interpolated sine is subnormal", "first run: caught (C19.R1 F32Scalar constructor monopoly)"),
 ("S93", "C20", "A", "memory-put-verified-resident-fast-path", "put X, then put_verified(hash(X), Y) with Y != X on the memory tier (re-introduces the defect repaired by 541d54c)", "first run: caught (C20.R1 memory:put_verified:compare-dominates-ok)"),
]
SRC_PREFIX = {k: "out1" for k in ("S09", "S10", "S11", "S12", "S13", "S14", "S15", "S16", "S17", "S18", "S19", "S20", "S21", "S22", "S23", "S24", "S25", "S26", "S27", "S28")}
SRC_PREFIX.update({k: "out2" for k in ("S29", "S30", "S31", "S32", "S33", "S34", "S37", "S38", "S41", "S42", "S45", "S46")})
SRC_DIR = {"S88": "R6C12a", "S89": "R6C12b", "S90": "R6C13b", "S91": "R6C13a", "S92": "R6C19", "S93": "R6C20"}
CHANGE = {
 "S88": "`dec_value::read_len` folds read and minimal-width check into one table; the 8-byte row says 0x1000_0000 where 2^32 is meant",
 "S89": "`decode_canonical_cbor_v1` drops decode-then-re-encode-and-compare for inline checks; the width check uses `<` where `<=` is needed",
 "S90": "`dec_value::need` tests `idx + n > bytes.len()` instead of `bytes.len().saturating_sub(idx) < n`",
 "S91": "`Decoder::value` hoists the shared container prefix into `container_length`; the map arm loses `reserve_nodes(child_nodes)` (arrays keep theirs)",
 "S92": "`F32Scalar::{sin,cos,sin_cos}` wrap trig outputs with a new private `from_trig` (NaN and -0 handled, subnormal flush forgotten) instead of `F32Scalar::new`",
 "S93": "`MemoryTier::put_verified` returns Ok for an already-resident hash before hashing the supplied bytes",
 "S09": "`checkpoint_for` replaced by a lazy per-head capture inside the commit loop: a second head on the same worldline overwrites the saved pre-pass frontier with one that already contains the first head's commit",
 "S10": "receipt-correlation undo entry is pushed after the index update, so `previous_pending_submission` is read after the removal and rollback never re-inserts the submission",
 "S11": "`rewrite_filesystem_segments_after_truncation` returns early when no decoded record would be dropped, leaving a torn partial record in place",
 "S12": "`refresh_cursor_from_store_for_writer` recovers with `recover_read_only()` instead of `recover_for_writer()`: frames of the failed transaction stay in the segment",
 "S13": "`read_segment_bytes` treats an all-zero record header as a torn tail instead of a digest mismatch",
 "S14": "`validate_recovery_frame_order` requires `lsn == previous+1` only inside one writer epoch and `>=` across an epoch change",
 "S15": "`can_fit_f16` gets a range pre-check using `f16::MIN_POSITIVE` (smallest normal), so f16 subnormals 'do not fit' and their f32 spelling is accepted",
 "S16": "`read_optional_hash/lsn` folded into a generic `read_optional` that treats every non-zero presence byte as present",
 "S17": "ABI CBOR cursor reads folded into a `take()` helper that computes `*idx + n` unchecked",
 "S18": "`TickReceiptBatchRecord::from_payload_bytes` guard rewritten in the `count > remaining/width` idiom, silently dropping the `member_count == 0` arm before `members[0]`",
 "S19": "footprint-guard metadata map keyed by the scope node alone instead of (origin, scope)",
 "S20": "`op_write_targets` rebuilt as default + per-arm mutation with `SetAttachment | OpenPortal` merged: OpenPortal loses `is_instance_op`",
 "S21": "divergence/parent-movement collectors deduplicated into a helper that keeps only `LocalCommit` entries",
 "S22": "settlement failure rollback restores only the target frontier instead of the whole runtime: `global_tick` leaks",
 "S23": "`resolve_coordinate` rewrites `Tick(t)` with `t == frontier_tick` to `Frontier`",
 "S24": "checkpoint+tail witness basis takes its tail end from `provenance.len()-1` instead of the materialized tick",
 "S25": "coordinator `ready = false` moved from before the frame-append loop to just before the commit flush",
 "S26": "`claim_grant` refuses on `!posture.awaits_outcome()` (Claimed or Settled(OutcomeUnknown)) instead of `settlement.is_some()`",
 "S27": "BitAnd reducer loop breaks once the accumulator is all-zero",
 "S28": "pending emissions wrapped in an active-run + settled-map structure; the duplicate check only sees the current run",
 "S29": "`Add`/`Sub` for `F32Scalar` build the result with a new `from_sum` that canonicalises only NaN",
 "S30": "trig range reduction `rem_euclid(TAU)` replaced by `x - floorf(x/TAU)*TAU` plus one fold-back",
 "S31": "`put_verified` (both tiers) returns Ok before hashing when the expected hash is already stored",
 "S32": "self-contained WSC validators deduplicated; the payload hash check moved inside the loop over `Present` records",
 "S33": "`RadixScheduler` recycles the last retired `PendingTx` (spare slot) for the next transaction without clearing an undrained queue",
 "S34": "`apply_reserved_rewrites` drops merged ops that 'restate' the pre-tick value",
 "S35": "work-queue worker caches the resolved store and re-resolves only when the globally preceding unit is in another warp",
 "S36": "both merge paths keep only the first op per key within each delta before the global sort and conflict check",
 "S37": "`radix_sort` skips passes whose digit it judges constant, indexing the difference array by pair instead of 2*pair",
 "S38": "`reserve_for_receipt` finds blockers through an index that remembers one (the last) reader per resource",
 "S39": "`upsert_edge_record` re-implemented as `delete_edge_exact` + insert, which also clears the edge's attachment",
 "S41": "`restore_replay_base` drops the re-hash of the checkpoint state and trusts the recorded state hash",
 "S42": "`validate_btr` compares `history.entries[start..]` zipped with the payload instead of looking every payload entry up",
 "S43": "`collect_reachable_graph` continues past an edge whose target node was already visited before probing the edge's attachment for a portal",
 "S44": "WSC build: node and edge attachment tables built by one helper with an arena each; arenas concatenated without rebasing offsets",
 "S45": "`seek_to` decision rewritten as a match on `checkpoint_before`: the Some arm drops `target < self.tick`",
 "S46": "`fork` checkpoint filter rewritten with `partition_point` on child tip + 1 but keeping `<=`",
 "S49": "the frontier-tick-overflow preflight loop is folded into the per-head commit loop; its early `return Err` now runs after earlier heads committed and never restores",
 "S50": "provenance rollback markers are taken lazily inside each head's commit closure (`checkpoint_worldline`), overwriting the marker of an earlier head on the same worldline",
 "S51": "`flush_commit_with_capabilities` persists the writer-epoch closure/ledger before the commit marker is appended",
 "S52": "`TrustedRuntimeWal::from_config` rebuilds the retry index from `AcceptedPending` entries only",
 "S53": "`filesystem_wal_recovery_segment_evidence` digests the frames of the caller's recovery report instead of re-reading the segment files",
 "S54": "`reconcile_writer_epoch_closures`: `retained_start_lsn` prefers the active epoch's start over the oldest retained closed epoch's",
 "S55": "Edict `Decoder::value` map branch decodes the map value with `self.value(depth)` instead of `depth + 1`",
 "S56": "retained-ingress parent-count guards folded into a `read_count` helper that checks `count * encoded_len > remaining`",
 "S57": "`from_retained_bytes_v2`: the decode/re-encode/compare gate is replaced by `causal_parents.len() != parent_count`",
 "S58": "ABI CBOR `read_len` split into read_arg/read_int/read_len; the minimal-width check stayed only in read_int",
 "S59": "`FootprintGuard::new` adds `edge_beta(e)` of every declared edge to the guard's attachment read/write sets",
 "S60": "`check_op` restructured as `if is_instance_op {..} else {match op_warp ..}`: the cross-warp check no longer runs for instance ops",
 "S61": "`RevalidationSlotValue::Edge` carries `(from, to)` from the reverse indexes instead of the whole `EdgeRecord`",
 "S62": "`fork` drops the checkpoint filter and clones all source checkpoints",
 "S63": "`basis_posture` treats `Tick(t)` at the strand child's tip as a frontier read and takes the posture from the live basis report",
 "S64": "frontier commit-stamp lookup `…map_err(..)?` replaced by `.and_then(|t| provenance.entry(..).ok())`",
 "S65": "`record_external_action_request` inserts the index entry first (doubling as duplicate check) and patches the commit digest after the append",
 "S66": "the `tail_posture != Clean` check moves from `recover` into `external_action_wal_continuation`, after the genesis early return",
 "S67": "Max/Min use `max_by`/`min_by` with a zero-padding comparator",
 "S68": "commutative-reducer channels are folded as payloads arrive; the in-place BitAnd step never truncates a longer accumulator",
 "S69": "`Vec3::normalize` classifies degenerate vectors on the squared length and divides by `det_sqrt_f32(len_sq)`, which clamps an overflowed square to 0",
 "S70": "`fixed_q32_32::to_f32` takes the magnitude with `raw.abs() as u64` instead of `unsigned_abs()`",
 "S71": "`RetainedBlobIndex` re-keyed from the full `SemanticBlobCoordinate` to a BLAKE3 digest that concatenates two variable-width fields without length prefixes; lookups never re-compare the coordinate",
 "S72": "`validate_cas_addressed_retained_blob_availability` asks the CAS port `has_cas_blob` (new provided method) instead of fetching, re-hashing and length-checking the blob",
 "S73": "`PendingTx::radix_sort` replaced by one counting pass on 16 bits + `sort_unstable_by(cmp_thin)` per bucket; the bucket loop walks `counts.windows(2)` and never sorts bucket 0",
 "S74": "`RadixScheduler::reserve` claims ports with an insert-if-absent `GenSet::claim` during the conflict check: a candidate rejected on a later port keeps its earlier ports reserved",
 "S75": "`Footprint::independent` and `footprints_conflict` share a new `overlaps`; its third edge clause is a flipped duplicate, losing `earlier e_write ∩ later e_read`",
 "S76": "`validate_checkpoint_for_history` skips the artifact comparison for the prefix covered by the nearest earlier stored checkpoint (`.skip(validated_prefix_len)`)",
 "S77": "`replay_artifacts_for_entry` merges the retained-receipt and placeholder branches; the decision-digest check is guarded by `!receipt.entries().is_empty()`",
 "S78": "`finalize_replay_metadata` rebuilds `last_materialization` only when the last replayed entry's outputs are non-empty",
 "S79": "`LocalProvenanceStore::checkpoint_state_before` rewritten with `partition_point(|c| tick(c) <= tick)` (contract: `<`)",
 "S80": "per-worker `TickDelta` buffers moved into a new `Engine::worker_deltas` field reused across ticks; they are drained in the same loop that re-raises a poisoned worker's panic, so higher-indexed workers keep their ops for the next tick",
 "S81": "`merge_parallel_deltas` drops empty worker deltas and, when exactly one non-empty delta remains, returns `delta.finalize()` without the duplicate-key conflict scan",
 "S82": "`diff_state`'s set of child roots covered by `OpenPortal` changes from `BTreeSet<NodeKey>` to `BTreeSet<NodeId>` and is checked before both the delete and the upsert branch of `diff_nodes`",
 "S83": "`Engine::jump_to_tick` returns Ok early when `compute_state_root(current state)` equals the target tick's recorded state root (the root covers only reachable content)",
 "S84": "`GraphStore::upsert_edge_record`'s detach of the previous bucket simplified to `if let Some(edges) .. retain`: an emptied `edges_from`/`edges_to` bucket is no longer removed",
 "S85": "`SnapshotAccumulator::apply_open_portal` (Empty) creates instance and root node only through `Entry::Vacant`, dropping the re-insertion of a missing child root on an existing instance",
 "S86": "`local_intent_with_causal_parents` sorts parents with `sort_unstable_by_key(|p| p.receipt_ref())`; `canonical_causal_parent_receipt_refs` drops its own sort",
 "S87": "`ingest_ticketed_invocation_inner` calls `heads.inbox_mut(..).ingest(envelope)` directly instead of `self.ingest(envelope)`, bypassing the committed-ingress gate",
 "S48": "`restore_receipt_correlation` returns Ok early when the correlation is already present, skipping the committed-ingress refill",
 "S40": "`diff_edges` matches edges through the reverse indexes (from/to only): a type-only change emits no `UpsertEdge`",
}
res = json.load(open("/tmp/seeds/seed_results.json")) if os.path.exists("/tmp/seeds/seed_results.json") else {}
for sid, prop, var, slug, needs, first in MAP:
    src = "/tmp/seeds/%s-%s/%s" % (SRC_PREFIX.get(sid, "out"), prop, var) if sid < "S80" else "/tmp/seeds/out-R5%s/%s" % (prop, var)
    if sid in SRC_DIR:  # round 6: one change per agent, several agents per property
        src = "/tmp/seeds/out-%s/A" % SRC_DIR[sid]
    if not os.path.exists(src + "/patch.diff"):
        print("missing", src); continue
    dst = "%s/%s-%s-%s" % (V, sid, prop.lower(), slug)
    os.makedirs(dst + "/demo", exist_ok=True)
    shutil.copy(src + "/patch.diff", dst + "/patch.diff")
    for f in os.listdir(src + "/demo"):
        shutil.copy(os.path.join(src, "demo", f), os.path.join(dst, "demo", f))
    if os.path.exists(src + "/notes.md"):
        shutil.copy(src + "/notes.md", dst + "/agent_notes.md")
    log = "/tmp/seeds/confirm-logs/%s%s-%s.log" % ("r5-" if sid >= "S80" else "r4-" if sid >= "S69" else "r3-" if sid >= "S49" else "", prop, var)
    if sid in SRC_DIR:
        log = "/tmp/seeds/confirm-logs/r6-%s.log" % SRC_DIR[sid]
    confirmed, conf_txt = False, "confirmation pending"
    if os.path.exists(log):
        t = open(log).read()
        if "### done" in t:
            a = t.split("### with patch: demo")
            with_demo = a[1].split("### without patch: demo")[0] if len(a) > 1 else ""
            without = t.split("### without patch: demo")[1] if "### without patch: demo" in t else ""
            existing = a[0]
            other_fail = [l for l in existing.splitlines() if l.startswith("test ") and l.endswith("FAILED") and "inverse_intent_resolves" not in l]
            confirmed = ("FAILED" in with_demo) and ("FAILED" not in without) and (" ok" in without)
            conf_txt = ("selftest/confirm_seed.sh in a scratch worktree (removed afterwards): (1) patch applied, the crate's existing tests run with --no-fail-fast: "
                        + ("only the baseline's always-failing inverse_intent test fails" if not other_fail else
                           "besides the baseline's always-failing test, the load-sensitive lease test(s) %s failed in the loaded run (they pass when run alone)" % sorted({l.split()[1] for l in other_fail}))
                        + "; (2) demonstration with the patch: FAILS; (3) demonstration without the patch: passes.")
    key = src
    fired = res.get(key, {})
    det = sorted({"%s %s %s" % (p, k[0], k[1]) for p, v in fired.items() if isinstance(v, dict) for k in v.get("fired", []) if not k[0].startswith(("anchor", "floor"))})
    det_anchor = sorted({"%s %s" % (p, k[1][:80]) for p, v in fired.items() if isinstance(v, dict) for k in v.get("fired", []) if k[0].startswith("anchor")})
    NOISE = ("provenance-coordinate:commit_hash-compared", "epoch-horizon:oldest-retained-epoch-first")  # a finding on the unchanged tree that was still unfixed while the seed runs were in progress
    det = [d_ for d_ in det if not d_.endswith(NOISE) or (sid == "S54" and "epoch-horizon" in d_)]
    meta = {"id": os.path.basename(dst), "breaks_property": prop, "change": CHANGE.get(sid, ""), "needs_to_manifest": needs, "base_commit": "011e441 (patch still applies to the current /repo HEAD)",
            "confirmed_by_me": confirmed, "what_i_ran": conf_txt + " Then: git -C /repo apply patch.diff; all twenty ./check Cnn; git -C /repo checkout -- . (selftest/run_seeds.py).",
            "detected_by": det, "detected_only_by_fail_closed_anchor": det_anchor if not det else [], "first_run": first}
    json.dump(meta, open(dst + "/meta.json", "w"), indent=1)
    print(sid, prop, var, "confirmed" if confirmed else "PENDING", len(det), "rule instances")
