#!/usr/bin/env python3
"""Regenerate DESIGN.md Appendix B.2 (rule table) from the evidence files of the last run of every check."""
import json, os, re, collections
V = os.path.dirname(os.path.dirname(os.path.abspath(__file__)))
out = []
for i in range(1, 21):
    pid = "C%02d" % i
    ev = json.load(open(os.path.join(V, "evidence", pid + ".json")))
    cov = ev["coverage"]
    cnt = collections.Counter(x["rule"] for x in cov["instances"] if not x["key"].startswith(("full:", "default:")))
    n = sum(cnt.values())
    out.append("\n**%s** — %d rule instances (quick tier)\n" % (pid, n))
    for rid, text in cov["rules"].items():
        out.append("* `%s` (%d): %s" % (rid, cnt.get(rid, 0), text))
    out.append("")
s = open(os.path.join(V, "DESIGN.md")).read()
a = s.index("### B.2 Rules per property as built")
b = s.index("### B.3 Deviations from §3")
head = ("### B.2 Rules per property as built\n\nThe table is generated (`selftest/gen_design_table.py`) from the evidence of the committed run "
        "(rule text and instance counts); the notes below it list the\ndeviations from §3.\n")
s = s[:a] + head + "\n".join(out) + "\n\n" + s[b:]
open(os.path.join(V, "DESIGN.md"), "w").write(s)
print("B.2 regenerated")
