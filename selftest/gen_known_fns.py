#!/usr/bin/env python3
"""Development only: freeze the ids of the restricted-visibility functions of the pinned tree (rules/known_fns.txt).
The helper-inlined view (rules/inline.py) inlines only functions that are NOT in this list, i.e. helpers that a later
edit extracted; functions that existed on the pinned tree keep their call sites, because rules name them."""
import os, sys
sys.path.insert(0, os.path.dirname(os.path.dirname(os.path.abspath(__file__))))
from rules.engine import Program
ids = set()
for cfg in ("trusted", "full"):
    p = Program(cfg)
    for f in p.fns.values():
        v = f.vis or ""
        if not f.is_closure() and (v.startswith("in:") or v == "crate"):
            ids.add(f.id)
out = os.path.join(os.path.dirname(os.path.dirname(os.path.abspath(__file__))), "rules", "known_fns.txt")
with open(out, "w") as fh:
    fh.write("\n".join(sorted(ids)) + "\n")
print(len(ids), "ids ->", out)
