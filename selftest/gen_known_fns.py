#!/usr/bin/env python3
"""Development only: freeze the ids of the restricted-visibility functions of the pinned tree (rules/known_fns.txt).
The helper-inlined view (rules/inline.py) inlines only functions that are NOT in this list, i.e. helpers that a later
edit extracted; functions that existed on the pinned tree keep their call sites, because rules name them."""
import os, sys
sys.path.insert(0, os.path.dirname(os.path.dirname(os.path.abspath(__file__))))
from rules.engine import Program
ids = set()
for cfg in ("trusted", "full"):
    p = Program(cfg)
    for f in p.fns.values():
        v = f.vis or ""
        if not f.is_closure() and (v.startswith("in:") or v == "crate"):
            ids.add(f.id)
out = os.path.join(os.path.dirname(os.path.dirname(os.path.abspath(__file__))), "rules", "known_fns.txt")
with open(out, "w") as fh:
    fh.write("\n".join(sorted(ids)) + "\n")
print(len(ids), "ids ->", out)

# ---- all function ids of the workspace crates (a function that is NOT in this list is new: candidate for "the renamed anchor")
allids = set()
for cfg in ("trusted", "full"):
    p = Program(cfg)
    for f in p.fns.values():
        if not f.is_closure() and f.crate.startswith(("warp_", "echo_")):
            allids.add(f.id)
out2 = os.path.join(os.path.dirname(out), "known_all_fns.txt")
with open(out2, "w") as fh:
    fh.write("\n".join(sorted(allids)) + "\n")
print(len(allids), "ids ->", out2)

# ---- signatures of the functions the rules name (anchors), recorded by running every property module once
import importlib, json
from rules import engine
from rules.run import Ctx
rec = {}
orig = engine.Program.fn


def recording_fn(self, path):
    f = orig(self, path)
    try:
        rec[f.id] = [list(f.locals[1:f.argc + 1]), f.locals[0]]
    except Exception:
        pass
    return f


engine.Program.fn = recording_fn
for i in range(1, 21):
    pid = "C%02d" % i
    mod = importlib.import_module("rules.props." + pid)
    for tier_cfg in (None, "full"):
        ctx = Ctx(pid, "quick")
        ctx.cfg_override = tier_cfg
        try:
            mod.run(ctx)
        except Exception as e:
            print("note:", pid, tier_cfg, type(e).__name__, str(e)[:80])
engine.Program.fn = orig
out3 = os.path.join(os.path.dirname(out), "anchor_sigs.json")
json.dump(rec, open(out3, "w"), indent=0, sort_keys=True)
print(len(rec), "anchor signatures ->", out3)
