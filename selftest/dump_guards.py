import sys
sys.path.insert(0, '/verif')
from rules.engine import *
from rules.prims import *
from rules.guards import *
p = Program('trusted')
entry = sys.argv[1]
enums = sys.argv[2:]
f = p.fn(entry)
fns, _ = tree(p, [f])
for g in fns:
    if not g.id.startswith(('warp_core', 'echo_', 'warp_wasm')):
        continue
    rows = dump_guards(p, g, enums)
    if rows:
        print("==", g.id)
        for v, lines, ctl in rows:
            print("  ", v, lines)
            for c in ctl:
                print("       cmp@%s %s  A=%s  B=%s" % c)
