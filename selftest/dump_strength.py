#!/usr/bin/env python3
"""Development aid: print relation + deciders for every row of the gate tables."""
import importlib, sys, os
sys.path.insert(0, os.path.dirname(os.path.dirname(os.path.abspath(__file__))))
from rules.engine import Program
from rules.guards import guard_strength
prog = Program("trusted")
for pid in sys.argv[1:] or ["C05", "C11", "C17", "C20", "C07"]:
    mod = importlib.import_module("rules.props." + pid)
    for row in getattr(mod, "GUARDS", []):
        try:
            path, enum, variant, ta, tb = row[:5]
        except ValueError:
            print(pid, "row shape", row); continue
        f = prog.fn(path)
        gs = guard_strength(prog, f, enum, variant, set(ta), set(tb))
        if gs is None:
            print(pid, f.name, variant, "NO GATE"); continue
        print(pid, f.name, variant, sorted(gs["relations"]), [(f_, d) for f_, d in [(gs["host"].block_line(b), d) for b, d in gs["deciders"]] if not d.startswith("disc:")],
              "disc=%d" % len([1 for b, d in gs["deciders"] if d.startswith("disc:")]))
