// echo-verif-driver: a generic rustc_private fact exporter.
//
// Injected as RUSTC_WORKSPACE_WRAPPER under `cargo +nightly check`. For every
// workspace crate it is asked to compile it runs the normal compiler and, after
// analysis, writes ONE json-lines file `<ECHO_VERIF_FACTS_DIR>/<crate>.jsonl`
// describing the resolved program: source files (with content hashes), ADTs,
// a type graph, constants and every MIR body (statements, terminators,
// resolved callees, field-resolved places).
//
// It contains no property knowledge. All rules live in /verif/rules.
#![feature(rustc_private)]

extern crate rustc_abi;
extern crate rustc_data_structures;
extern crate rustc_driver;
extern crate rustc_hir;
extern crate rustc_interface;
extern crate rustc_middle;
extern crate rustc_span;

use rustc_driver::Compilation;
use rustc_hir::def::DefKind;
use rustc_hir::def_id::{DefId, LOCAL_CRATE};
use rustc_middle::mir::{
    AggregateKind, BasicBlock, Body, BorrowKind, Const, Operand, PlaceRef, ProjectionElem,
    Rvalue, StatementKind, TerminatorKind, UnwindAction,
};
use rustc_middle::ty::print::{with_crate_prefix, with_no_trimmed_paths};
use rustc_middle::ty::{self, Instance, Ty, TyCtxt, TypeVisitableExt, TypingEnv};
use rustc_span::Span;
use std::collections::{HashMap, HashSet};
use std::fmt::Write as _;

struct Cb;

impl rustc_driver::Callbacks for Cb {
    fn after_analysis<'tcx>(
        &mut self,
        _c: &rustc_interface::interface::Compiler,
        tcx: TyCtxt<'tcx>,
    ) -> Compilation {
        if let Ok(dir) = std::env::var("ECHO_VERIF_FACTS_DIR") {
            let name = tcx.crate_name(LOCAL_CRATE).to_string();
            if name != "build_script_build" {
                let mut d = Dumper::new(tcx, name.clone());
                d.dump_all();
                let suffix = if tcx.sess.opts.test { ".test" } else { "" };
                let path = format!("{}/{}{}.jsonl", dir, name, suffix);
                let tmp = format!("{}.tmp.{}", path, std::process::id());
                std::fs::write(&tmp, d.out.as_bytes()).expect("write facts");
                std::fs::rename(&tmp, &path).expect("rename facts");
            }
        }
        Compilation::Continue
    }
}

fn main() {
    let mut args: Vec<String> = std::env::args().collect();
    // RUSTC_WORKSPACE_WRAPPER: argv[1] is the path of the real rustc.
    if args.len() > 1 && (args[1].ends_with("rustc") || args[1].contains("/rustc")) {
        args.remove(1);
    }
    rustc_driver::run_compiler(&args, &mut Cb);
}

// ---------------------------------------------------------------- json helpers

fn jstr(s: &str, out: &mut String) {
    out.push('"');
    for c in s.chars() {
        match c {
            '"' => out.push_str("\\\""),
            '\\' => out.push_str("\\\\"),
            '\n' => out.push_str("\\n"),
            '\r' => out.push_str("\\r"),
            '\t' => out.push_str("\\t"),
            c if (c as u32) < 0x20 => {
                let _ = write!(out, "\\u{:04x}", c as u32);
            }
            c => out.push(c),
        }
    }
    out.push('"');
}

fn js(s: &str) -> String {
    let mut o = String::new();
    jstr(s, &mut o);
    o
}

fn crc32(bytes: &[u8]) -> u32 {
    // zlib-compatible CRC-32 (python: zlib.crc32)
    let mut table = [0u32; 256];
    for i in 0..256u32 {
        let mut c = i;
        for _ in 0..8 {
            c = if c & 1 != 0 { 0xEDB88320 ^ (c >> 1) } else { c >> 1 };
        }
        table[i as usize] = c;
    }
    let mut crc = 0xFFFF_FFFFu32;
    for b in bytes {
        crc = table[((crc ^ (*b as u32)) & 0xFF) as usize] ^ (crc >> 8);
    }
    crc ^ 0xFFFF_FFFF
}

// ---------------------------------------------------------------- dumper

struct Dumper<'tcx> {
    tcx: TyCtxt<'tcx>,
    krate: String,
    out: String,
    ty_seen: HashSet<Ty<'tcx>>,
    ty_queue: Vec<Ty<'tcx>>,
    ty_str_cache: HashMap<Ty<'tcx>, String>,
    def_str_cache: HashMap<DefId, String>,
}

impl<'tcx> Dumper<'tcx> {
    fn new(tcx: TyCtxt<'tcx>, krate: String) -> Self {
        Dumper {
            tcx,
            krate,
            out: String::with_capacity(1 << 24),
            ty_seen: HashSet::new(),
            ty_queue: Vec::new(),
            ty_str_cache: HashMap::new(),
            def_str_cache: HashMap::new(),
        }
    }

    fn fix_crate(&self, s: String) -> String {
        // `with_crate_prefix` renders the local crate as `crate`; make it the crate name.
        if !s.contains("crate") {
            return s;
        }
        let mut out = String::with_capacity(s.len() + 16);
        let b = s.as_bytes();
        let mut i = 0;
        while i < b.len() {
            if s[i..].starts_with("crate::")
                && (i == 0 || !(b[i - 1].is_ascii_alphanumeric() || b[i - 1] == b'_'))
            {
                out.push_str(&self.krate);
                out.push_str("::");
                i += 7;
            } else {
                // push one utf-8 char
                let ch = s[i..].chars().next().unwrap();
                out.push(ch);
                i += ch.len_utf8();
            }
        }
        out
    }

    fn def_str(&mut self, d: DefId) -> String {
        if let Some(s) = self.def_str_cache.get(&d) {
            return s.clone();
        }
        let s = with_no_trimmed_paths!(with_crate_prefix!(self.tcx.def_path_str(d)));
        let s = self.fix_crate(s);
        self.def_str_cache.insert(d, s.clone());
        s
    }

    fn def_str_args(&mut self, d: DefId, args: ty::GenericArgsRef<'tcx>) -> String {
        let s = with_no_trimmed_paths!(with_crate_prefix!(self.tcx.def_path_str_with_args(d, args)));
        self.fix_crate(s)
    }

    fn ty_str(&mut self, t: Ty<'tcx>) -> String {
        if let Some(s) = self.ty_str_cache.get(&t) {
            return s.clone();
        }
        let s = with_no_trimmed_paths!(with_crate_prefix!(t.to_string()));
        let s = self.fix_crate(s);
        self.ty_str_cache.insert(t, s.clone());
        s
    }

    fn span_json(&self, sp: Span) -> String {
        let sm = self.tcx.sess.source_map();
        let lo = sm.lookup_char_pos(sp.lo());
        let fname = format!("{}", lo.file.name.prefer_local_unconditionally());
        format!(
            "{{\"f\":{},\"l\":{},\"x\":{}}}",
            js(&fname),
            lo.line,
            if sp.from_expansion() { "true" } else { "false" }
        )
    }

    fn line_of(&self, sp: Span) -> (usize, bool) {
        // line of the outermost (user-written) call site; flag if from expansion
        let exp = sp.from_expansion();
        let sp2 = sp.source_callsite();
        let sm = self.tcx.sess.source_map();
        (sm.lookup_char_pos(sp2.lo()).line, exp)
    }

    fn dump_all(&mut self) {
        self.dump_crate_header();
        self.dump_adts();
        self.dump_consts();
        self.dump_traits_and_sigs();
        self.dump_bodies();
        self.dump_ty_graph();
    }

    fn dump_crate_header(&mut self) {
        let tcx = self.tcx;
        let sm = tcx.sess.source_map();
        let mut files = Vec::new();
        for f in sm.files().iter() {
            let name = format!("{}", f.name.prefer_local_unconditionally());
            if name.starts_with('<') {
                continue;
            }
            if f.cnum != LOCAL_CRATE {
                continue;
            }
            let h = match &f.src {
                Some(src) => format!("{:08x}:{}", crc32(src.as_bytes()), src.len()),
                None => String::new(),
            };
            files.push(format!("[{},{}]", js(&name), js(&h)));
        }
        let mut cfgs: Vec<String> = tcx
            .sess
            .config
            .iter()
            .filter_map(|(k, v)| {
                let k = k.to_string();
                if k == "feature" || k == "debug_assertions" || k == "test" || k == "panic" {
                    Some(match v {
                        Some(v) => format!("{}={}", k, v),
                        None => k,
                    })
                } else {
                    None
                }
            })
            .collect();
        cfgs.sort();
        let cwd = std::env::current_dir().map(|p| p.display().to_string()).unwrap_or_default();
        let _ = writeln!(
            self.out,
            "{{\"k\":\"crate\",\"name\":{},\"cwd\":{},\"cfg\":[{}],\"files\":[{}]}}",
            js(&self.krate.clone()),
            js(&cwd),
            cfgs.iter().map(|c| js(c)).collect::<Vec<_>>().join(","),
            files.join(",")
        );
    }

    fn vis_str(&mut self, d: DefId) -> String {
        match self.tcx.def_kind(d) {
            DefKind::Closure | DefKind::InlineConst | DefKind::AnonConst | DefKind::SyntheticCoroutineBody => {
                return "closure".to_string()
            }
            _ => {}
        }
        match self.tcx.visibility(d) {
            ty::Visibility::Public => "pub".to_string(),
            ty::Visibility::Restricted(m) => {
                if m.is_crate_root() {
                    "crate".to_string()
                } else {
                    format!("in:{}", self.def_str(m))
                }
            }
        }
    }

    fn dump_adts(&mut self) {
        let tcx = self.tcx;
        let defs: Vec<_> = tcx.hir_crate_items(()).definitions().collect();
        for ld in defs {
            let d = ld.to_def_id();
            match tcx.def_kind(d) {
                DefKind::Struct | DefKind::Enum | DefKind::Union => {}
                _ => continue,
            }
            let adt = tcx.adt_def(d);
            let kind = if adt.is_enum() {
                "enum"
            } else if adt.is_union() {
                "union"
            } else {
                "struct"
            };
            let mut vs = Vec::new();
            for v in adt.variants().iter() {
                let mut fs = Vec::new();
                for f in v.fields.iter() {
                    let fty = tcx.type_of(f.did).instantiate_identity().skip_normalization();
                    self.enqueue_ty(fty);
                    let fvis = match f.vis {
                        ty::Visibility::Public => "pub".to_string(),
                        ty::Visibility::Restricted(m) => {
                            if m.is_crate_root() {
                                "crate".to_string()
                            } else {
                                format!("in:{}", self.def_str(m))
                            }
                        }
                    };
                    fs.push(format!(
                        "{{\"n\":{},\"ty\":{},\"vis\":{}}}",
                        js(f.name.as_str()),
                        js(&self.ty_str(fty)),
                        js(&fvis)
                    ));
                }
                let discr = match v.discr {
                    ty::VariantDiscr::Explicit(_) => "e",
                    ty::VariantDiscr::Relative(_) => "r",
                };
                vs.push(format!(
                    "{{\"n\":{},\"d\":\"{}\",\"fields\":[{}]}}",
                    js(v.name.as_str()),
                    discr,
                    fs.join(",")
                ));
            }
            // discriminant values for enums
            let mut discrs = Vec::new();
            if adt.is_enum() {
                for (_vi, dv) in adt.discriminants(tcx) {
                    discrs.push(format!("\"{}\"", dv.val));
                }
            }
            let span = self.span_json(tcx.def_span(d));
            let vis = self.vis_str(d);
            let path = self.def_str(d);
            let self_ty = tcx.type_of(d).instantiate_identity().skip_normalization();
            self.enqueue_ty(self_ty);
            let non_exh = adt.is_variant_list_non_exhaustive();
            let self_ty_s = self.ty_str(self_ty);
            let _ = writeln!(
                self.out,
                "{{\"k\":\"adt\",\"path\":{},\"kind\":\"{}\",\"vis\":{},\"span\":{},\"ty\":{},\"nonexh\":{},\"discrs\":[{}],\"variants\":[{}]}}",
                js(&path),
                kind,
                js(&vis),
                span,
                js(&self_ty_s),
                non_exh,
                discrs.join(","),
                vs.join(",")
            );
        }
    }

    fn dump_consts(&mut self) {
        let tcx = self.tcx;
        let defs: Vec<_> = tcx.hir_crate_items(()).definitions().collect();
        for ld in defs {
            let d = ld.to_def_id();
            let dk = tcx.def_kind(d);
            let is_static = matches!(dk, DefKind::Static { .. });
            match dk {
                DefKind::Const { .. } | DefKind::AssocConst { .. } | DefKind::Static { .. } => {}
                _ => continue,
            }
            let ty = tcx.type_of(d).instantiate_identity().skip_normalization();
            self.enqueue_ty(ty);
            let mut val = String::new();
            if !is_static && !tcx.generics_of(d).requires_monomorphization(tcx) {
                if let Ok(v) = tcx.const_eval_poly(d) {
                    let c = Const::Val(v, ty);
                    val = with_no_trimmed_paths!(format!("{}", c));
                    if val.len() > 400 {
                        val.truncate(400);
                    }
                }
            }
            let mutbl = match dk {
                DefKind::Static { mutability, .. } => mutability.is_mut(),
                _ => false,
            };
            let path = self.def_str(d);
            let tys = self.ty_str(ty);
            let span = self.span_json(tcx.def_span(d));
            let _ = writeln!(
                self.out,
                "{{\"k\":\"const\",\"path\":{},\"static\":{},\"mut\":{},\"ty\":{},\"val\":{},\"span\":{}}}",
                js(&path),
                is_static,
                mutbl,
                js(&tys),
                js(&val),
                span
            );
        }
    }

    // trait declarations (method names + self kinds) and impl headers
    fn dump_traits_and_sigs(&mut self) {
        let tcx = self.tcx;
        let defs: Vec<_> = tcx.hir_crate_items(()).definitions().collect();
        for ld in defs {
            let d = ld.to_def_id();
            match tcx.def_kind(d) {
                DefKind::Trait => {
                    let mut ms = Vec::new();
                    for it in tcx.associated_items(d).in_definition_order() {
                        if let ty::AssocKind::Fn { name, has_self } = it.kind {
                            let sig = tcx.fn_sig(it.def_id).instantiate_identity().skip_normalization().skip_binder();
                            let selfty = if has_self && !sig.inputs().is_empty() {
                                self.ty_str(sig.inputs()[0])
                            } else {
                                String::new()
                            };
                            ms.push(format!(
                                "{{\"n\":{},\"self\":{},\"default\":{}}}",
                                js(name.as_str()),
                                js(&selfty),
                                it.defaultness(tcx).has_value()
                            ));
                        }
                    }
                    let path = self.def_str(d);
                    let _ = writeln!(
                        self.out,
                        "{{\"k\":\"trait\",\"path\":{},\"methods\":[{}]}}",
                        js(&path),
                        ms.join(",")
                    );
                }
                DefKind::Impl { of_trait } => {
                    let self_ty = tcx.type_of(d).instantiate_identity().skip_normalization();
                    let tr = if of_trait {
                        let tref = tcx.impl_trait_ref(d).instantiate_identity().skip_normalization();
                        Some(self.def_str(tref.def_id))
                    } else {
                        None
                    };
                    let auto = tcx.is_automatically_derived(d);
                    let sts = self.ty_str(self_ty);
                    let adt_path = match self_ty.kind() {
                        ty::Adt(a, _) => self.def_str(a.did()),
                        _ => String::new(),
                    };
                    let _ = writeln!(
                        self.out,
                        "{{\"k\":\"impl\",\"self\":{},\"adt\":{},\"trait\":{},\"derived\":{},\"span\":{}}}",
                        js(&sts),
                        js(&adt_path),
                        match &tr {
                            Some(t) => js(t),
                            None => "null".to_string(),
                        },
                        auto,
                        self.span_json(tcx.def_span(d))
                    );
                }
                _ => {}
            }
        }
    }

    // ------------------------------------------------------------ type graph

    fn enqueue_ty(&mut self, t: Ty<'tcx>) {
        if self.ty_seen.len() > 400_000 {
            return;
        }
        if self.ty_seen.insert(t) {
            self.ty_queue.push(t);
        }
    }

    fn dump_ty_graph(&mut self) {
        let tcx = self.tcx;
        while let Some(t) = self.ty_queue.pop() {
            let mut edges: Vec<(String, Ty<'tcx>)> = Vec::new();
            let mut kind = "other";
            let mut def = String::new();
            match *t.kind() {
                ty::Adt(adt, args) => {
                    kind = if adt.is_enum() {
                        "enum"
                    } else if adt.is_union() {
                        "union"
                    } else {
                        "struct"
                    };
                    def = self.def_str(adt.did());
                    if def == "core::marker::PhantomData" {
                        kind = "phantom";
                    } else {
                        for v in adt.variants().iter() {
                            for f in v.fields.iter() {
                                let fty = f.ty(tcx, args);
                                let label = if adt.is_enum() {
                                    format!("{}.{}", v.name, f.name)
                                } else {
                                    f.name.to_string()
                                };
                                edges.push((label, fty));
                            }
                        }
                    }
                }
                ty::Ref(_, inner, m) => {
                    kind = if m.is_mut() { "refmut" } else { "ref" };
                    edges.push(("*".into(), inner));
                }
                ty::RawPtr(inner, m) => {
                    kind = if m.is_mut() { "ptrmut" } else { "ptr" };
                    edges.push(("*".into(), inner));
                }
                ty::Array(inner, _) => {
                    kind = "array";
                    edges.push(("[]".into(), inner));
                }
                ty::Slice(inner) => {
                    kind = "slice";
                    edges.push(("[]".into(), inner));
                }
                ty::Pat(inner, _) => {
                    kind = "pat";
                    edges.push(("pat".into(), inner));
                }
                ty::Tuple(ts) => {
                    kind = "tuple";
                    for (i, e) in ts.iter().enumerate() {
                        edges.push((format!("{}", i), e));
                    }
                }
                ty::Closure(d, args) => {
                    kind = "closure";
                    def = self.def_str(d);
                    let ut = args.as_closure().tupled_upvars_ty();
                    if let ty::Tuple(ts) = ut.kind() {
                        for (i, e) in ts.iter().enumerate() {
                            edges.push((format!("upvar{}", i), e));
                        }
                    }
                }
                ty::Dynamic(preds, ..) => {
                    kind = "dyn";
                    if let Some(p) = preds.principal_def_id() {
                        def = self.def_str(p);
                    }
                }
                ty::FnPtr(..) => kind = "fnptr",
                ty::FnDef(d, _) => {
                    kind = "fndef";
                    def = self.def_str(d);
                }
                ty::Param(_) => kind = "param",
                ty::Alias(..) => kind = "alias",
                ty::Bool | ty::Char | ty::Int(_) | ty::Uint(_) | ty::Float(_) | ty::Str | ty::Never => {
                    kind = "prim"
                }
                ty::Foreign(d) => {
                    kind = "foreign";
                    def = self.def_str(d);
                }
                _ => {}
            }
            let ts = self.ty_str(t);
            let mut es = Vec::new();
            for (l, et) in edges {
                self.enqueue_ty(et);
                es.push(format!("[{},{}]", js(&l), js(&self.ty_str(et))));
            }
            let _ = writeln!(
                self.out,
                "{{\"k\":\"ty\",\"ty\":{},\"kind\":\"{}\",\"def\":{},\"e\":[{}]}}",
                js(&ts),
                kind,
                js(&def),
                es.join(",")
            );
        }
    }

    // ------------------------------------------------------------ bodies

    fn dump_bodies(&mut self) {
        let tcx = self.tcx;
        let keys: Vec<_> = tcx.mir_keys(()).iter().copied().collect();
        for ld in keys {
            let d = ld.to_def_id();
            let dk = tcx.def_kind(d);
            match dk {
                DefKind::Fn | DefKind::AssocFn | DefKind::Closure => {}
                _ => continue,
            }
            if dk == DefKind::Closure && tcx.is_coroutine(d) {
                continue;
            }
            if !tcx.is_mir_available(d) {
                continue;
            }
            let body = tcx.optimized_mir(d);
            self.dump_body(d, dk, body);
        }
    }

    fn place_json(&mut self, body: &Body<'tcx>, p: PlaceRef<'tcx>) -> String {
        let tcx = self.tcx;
        let mut s = String::new();
        let _ = write!(s, "[{},[", p.local.as_usize());
        let mut first = true;
        for (base, elem) in p.iter_projections() {
            if !first {
                s.push(',');
            }
            first = false;
            match elem {
                ProjectionElem::Deref => s.push_str("\"*\""),
                ProjectionElem::Field(fi, _fty) => {
                    let bt = base.ty(body, tcx);
                    match bt.ty.kind() {
                        ty::Adt(adt, _) => {
                            let vi = bt.variant_index.unwrap_or(rustc_abi::FIRST_VARIANT);
                            let v = adt.variant(vi);
                            let fname = v.fields[fi].name.to_string();
                            let ap = self.def_str(adt.did());
                            let _ = write!(
                                s,
                                "[\"f\",{},{},{}]",
                                js(&ap),
                                js(v.name.as_str()),
                                js(&fname)
                            );
                        }
                        ty::Tuple(_) => {
                            let _ = write!(s, "[\"f\",\"(tuple)\",\"\",\"{}\"]", fi.as_usize());
                        }
                        ty::Closure(cd, _) => {
                            let names = tcx.closure_saved_names_of_captured_variables(*cd);
                            let n = names
                                .get(fi)
                                .map(|s| s.to_string())
                                .unwrap_or_else(|| format!("{}", fi.as_usize()));
                            let cp = self.def_str(*cd);
                            let _ = write!(s, "[\"f\",\"(closure)\",{},{}]", js(&cp), js(&n));
                        }
                        _ => {
                            let _ = write!(s, "[\"f\",\"(other)\",\"\",\"{}\"]", fi.as_usize());
                        }
                    }
                }
                ProjectionElem::Index(l) => {
                    let _ = write!(s, "[\"i\",{}]", l.as_usize());
                }
                ProjectionElem::ConstantIndex { offset, from_end, .. } => {
                    let _ = write!(s, "[\"ci\",{},{}]", offset, from_end);
                }
                ProjectionElem::Subslice { from, to, from_end } => {
                    let _ = write!(s, "[\"s\",{},{},{}]", from, to, from_end);
                }
                ProjectionElem::Downcast(name, vi) => {
                    let n = name.map(|n| n.to_string()).unwrap_or_else(|| format!("#{}", vi.as_usize()));
                    let _ = write!(s, "[\"d\",{}]", js(&n));
                }
                _ => s.push_str("\"o\""),
            }
        }
        s.push_str("]]");
        s
    }

    fn operand_json(&mut self, owner: DefId, body: &Body<'tcx>, o: &Operand<'tcx>) -> String {
        match o {
            Operand::Copy(p) => format!("{{\"c\":{}}}", self.place_json(body, p.as_ref())),
            Operand::Move(p) => format!("{{\"m\":{}}}", self.place_json(body, p.as_ref())),
            Operand::Constant(c) => self.const_json(owner, &c.const_),
            #[allow(unreachable_patterns)]
            _ => "{\"k\":\"?\"}".to_string(),
        }
    }

    fn const_json(&mut self, owner: DefId, c: &Const<'tcx>) -> String {
        let tcx = self.tcx;
        let ty = c.ty();
        let mut disp = with_no_trimmed_paths!(with_crate_prefix!(format!("{}", c)));
        disp = self.fix_crate(disp);
        if disp.len() > 300 {
            disp.truncate(300);
        }
        let mut s = format!("{{\"k\":{}", js(&disp));
        match ty.kind() {
            ty::FnDef(d, args) => {
                let (res, decl) = self.resolve_callee(owner, *d, args);
                let _ = write!(s, ",\"fn\":{},\"fnd\":{}", js(&res), js(&decl));
            }
            ty::Closure(d, _) => {
                let p = self.def_str(*d);
                let _ = write!(s, ",\"fn\":{}", js(&p));
            }
            _ => {
                let _ = write!(s, ",\"ty\":{}", js(&self.ty_str(ty)));
                if let Some(rustc_middle::mir::interpret::Scalar::Ptr(ptr, _)) = c.try_to_scalar() {
                    if let rustc_middle::mir::interpret::GlobalAlloc::Static(sd) =
                        tcx.global_alloc(ptr.provenance.alloc_id())
                    {
                        let sp = self.def_str(sd);
                        let _ = write!(s, ",\"static\":{}", js(&sp));
                    }
                }
                if let Const::Unevaluated(u, _) = c {
                    let p = self.def_str(u.def);
                    let _ = write!(s, ",\"def\":{}", js(&p));
                    if u.promoted.is_some() {
                        let _ = write!(s, ",\"promoted\":true");
                    }
                    // evaluated value (tags, magics, thresholds), when not generic
                    if !tcx.generics_of(owner).requires_monomorphization(tcx)
                        && !u.args.iter().any(|a| a.has_non_region_param())
                    {
                        let env2 = TypingEnv::post_analysis(tcx, owner);
                        if let Ok(v) = c.eval(tcx, env2, rustc_span::DUMMY_SP) {
                            let cv = Const::Val(v, ty);
                            let mut d = with_no_trimmed_paths!(format!("{}", cv));
                            if d.len() > 200 {
                                d.truncate(200);
                            }
                            let _ = write!(s, ",\"ev\":{}", js(&d));
                        }
                    }
                }
                // scalar value
                let env = TypingEnv::post_analysis(tcx, owner);
                if ty.is_integral() || ty.is_bool() || ty.is_char() {
                    if !matches!(c, Const::Unevaluated(..)) || !tcx.generics_of(owner).requires_monomorphization(tcx) {
                        if let Some(si) = c.try_eval_scalar_int(tcx, env) {
                            let size = si.size();
                            let v: u128 = si.to_bits(size);
                            if ty.is_signed() {
                                let bits = size.bits();
                                let sv: i128 = if bits == 128 {
                                    v as i128
                                } else if bits > 0 && (v >> (bits - 1)) & 1 == 1 {
                                    (v as i128) - (1i128 << bits)
                                } else {
                                    v as i128
                                };
                                let _ = write!(s, ",\"v\":\"{}\"", sv);
                            } else {
                                let _ = write!(s, ",\"v\":\"{}\"", v);
                            }
                        }
                    }
                }
            }
        }
        s.push('}');
        s
    }

    /// (resolved path or "", declared path with args)
    fn resolve_callee(
        &mut self,
        owner: DefId,
        d: DefId,
        args: ty::GenericArgsRef<'tcx>,
    ) -> (String, String) {
        let tcx = self.tcx;
        let decl = self.def_str(d);
        let mut res = String::new();
        let env = TypingEnv::post_analysis(tcx, owner);
        if matches!(tcx.def_kind(d), DefKind::Fn | DefKind::AssocFn) {
            if let Ok(Some(inst)) = Instance::try_resolve(tcx, env, d, args) {
                let rd = inst.def_id();
                res = self.def_str(rd);
            }
        } else {
            res = decl.clone();
        }
        (res, decl)
    }

    fn rvalue_json(&mut self, owner: DefId, body: &Body<'tcx>, rv: &Rvalue<'tcx>) -> String {
        match rv {
            Rvalue::Use(o, _) => format!("{{\"r\":\"use\",\"o\":{}}}", self.operand_json(owner, body, o)),
            Rvalue::Repeat(o, _) => format!("{{\"r\":\"rep\",\"o\":{}}}", self.operand_json(owner, body, o)),
            Rvalue::Ref(_, bk, p) => {
                let k = match bk {
                    BorrowKind::Shared => "shared",
                    BorrowKind::Fake(_) => "fake",
                    BorrowKind::Mut { kind } => match kind {
                        rustc_middle::mir::MutBorrowKind::TwoPhaseBorrow => "two",
                        _ => "mut",
                    },
                };
                format!("{{\"r\":\"ref\",\"bk\":\"{}\",\"p\":{}}}", k, self.place_json(body, p.as_ref()))
            }
            Rvalue::RawPtr(k, p) => {
                format!(
                    "{{\"r\":\"raw\",\"bk\":{},\"p\":{}}}",
                    js(&format!("{:?}", k)),
                    self.place_json(body, p.as_ref())
                )
            }
            Rvalue::Cast(ck, o, t) => format!(
                "{{\"r\":\"cast\",\"ck\":{},\"o\":{},\"ty\":{}}}",
                js(&format!("{:?}", ck)),
                self.operand_json(owner, body, o),
                js(&self.ty_str(*t))
            ),
            Rvalue::BinaryOp(op, ab) => format!(
                "{{\"r\":\"bin\",\"op\":\"{:?}\",\"a\":{},\"b\":{}}}",
                op,
                self.operand_json(owner, body, &ab.0),
                self.operand_json(owner, body, &ab.1)
            ),
            Rvalue::UnaryOp(op, o) => format!(
                "{{\"r\":\"un\",\"op\":\"{:?}\",\"o\":{}}}",
                op,
                self.operand_json(owner, body, o)
            ),
            Rvalue::Discriminant(p) => {
                let pt = p.ty(body, self.tcx).ty;
                let adt = match pt.kind() {
                    ty::Adt(a, _) => self.def_str(a.did()),
                    _ => String::new(),
                };
                format!(
                    "{{\"r\":\"disc\",\"p\":{},\"adt\":{}}}",
                    self.place_json(body, p.as_ref()),
                    js(&adt)
                )
            }
            Rvalue::Aggregate(kind, ops) => {
                let os: Vec<String> = ops.iter().map(|o| self.operand_json(owner, body, o)).collect();
                match &**kind {
                    AggregateKind::Adt(d, vi, _, _, active) => {
                        let adt = self.tcx.adt_def(*d);
                        let v = adt.variant(*vi);
                        let names: Vec<String> = match active {
                            Some(fi) => vec![js(v.fields[*fi].name.as_str())],
                            None => v.fields.iter().map(|f| js(f.name.as_str())).collect(),
                        };
                        let ap = self.def_str(*d);
                        format!(
                            "{{\"r\":\"agg\",\"ak\":\"adt\",\"adt\":{},\"var\":{},\"fields\":[{}],\"os\":[{}]}}",
                            js(&ap),
                            js(v.name.as_str()),
                            names.join(","),
                            os.join(",")
                        )
                    }
                    AggregateKind::Closure(d, _) => {
                        let names = self.tcx.closure_saved_names_of_captured_variables(*d);
                        let ns: Vec<String> = names.iter().map(|n| js(n.as_str())).collect();
                        let cp = self.def_str(*d);
                        format!(
                            "{{\"r\":\"agg\",\"ak\":\"closure\",\"adt\":{},\"fields\":[{}],\"os\":[{}]}}",
                            js(&cp),
                            ns.join(","),
                            os.join(",")
                        )
                    }
                    AggregateKind::Tuple => format!("{{\"r\":\"agg\",\"ak\":\"tuple\",\"os\":[{}]}}", os.join(",")),
                    AggregateKind::Array(_) => format!("{{\"r\":\"agg\",\"ak\":\"array\",\"os\":[{}]}}", os.join(",")),
                    AggregateKind::RawPtr(..) => format!("{{\"r\":\"agg\",\"ak\":\"rawptr\",\"os\":[{}]}}", os.join(",")),
                    _ => format!("{{\"r\":\"agg\",\"ak\":\"other\",\"os\":[{}]}}", os.join(",")),
                }
            }
            Rvalue::CopyForDeref(p) => format!("{{\"r\":\"cfd\",\"p\":{}}}", self.place_json(body, p.as_ref())),
            Rvalue::ThreadLocalRef(d) => {
                let p = self.def_str(*d);
                format!("{{\"r\":\"tlr\",\"def\":{}}}", js(&p))
            }
            other => format!("{{\"r\":\"other\",\"dbg\":{}}}", js(&format!("{:?}", other))),
        }
    }

    fn unwind_json(u: &UnwindAction) -> String {
        match u {
            UnwindAction::Continue => "\"cont\"".into(),
            UnwindAction::Unreachable => "\"unreach\"".into(),
            UnwindAction::Terminate(_) => "\"term\"".into(),
            UnwindAction::Cleanup(bb) => format!("{}", bb.as_usize()),
        }
    }

    fn bb(b: BasicBlock) -> usize {
        b.as_usize()
    }

    fn dump_body(&mut self, d: DefId, dk: DefKind, body: &Body<'tcx>) {
        let tcx = self.tcx;
        let id = self.def_str(d);
        let span = self.span_json(tcx.def_span(d));
        let vis = self.vis_str(d);
        let dk_s = match dk {
            DefKind::Fn => "fn",
            DefKind::AssocFn => "assoc",
            DefKind::Closure => "closure",
            _ => "other",
        };
        let mut s = String::with_capacity(4096);
        let _ = write!(s, "{{\"k\":\"fn\",\"id\":{},\"dk\":\"{}\",\"span\":{},\"vis\":{}", js(&id), dk_s, span, js(&vis));
        let name = tcx.opt_item_name(d).map(|n| n.to_string()).unwrap_or_default();
        let _ = write!(s, ",\"name\":{}", js(&name));
        // enclosing fn for closures
        if dk == DefKind::Closure {
            let parent = tcx.typeck_root_def_id(d);
            let ps = self.def_str(parent);
            let direct = tcx.parent(d);
            let ds = self.def_str(direct);
            let _ = write!(s, ",\"root\":{},\"parent\":{}", js(&ps), js(&ds));
        } else {
            let sig = tcx.fn_sig(d).instantiate_identity().skip_normalization();
            let _ = write!(s, ",\"unsafe\":{}", sig.safety().is_unsafe());
            // impl info
            if dk == DefKind::AssocFn {
                let parent = tcx.parent(d);
                match tcx.def_kind(parent) {
                    DefKind::Impl { of_trait } => {
                        let self_ty = tcx.type_of(parent).instantiate_identity().skip_normalization();
                        let sts = self.ty_str(self_ty);
                        let adt_path = match self_ty.kind() {
                            ty::Adt(a, _) => self.def_str(a.did()),
                            _ => String::new(),
                        };
                        let _ = write!(s, ",\"impl_self\":{},\"impl_adt\":{}", js(&sts), js(&adt_path));
                        if of_trait {
                            let tref = tcx.impl_trait_ref(parent).instantiate_identity().skip_normalization();
                            let tp = self.def_str(tref.def_id);
                            let _ = write!(s, ",\"impl_trait\":{}", js(&tp));
                        }
                    }
                    DefKind::Trait => {
                        let tp = self.def_str(parent);
                        let _ = write!(s, ",\"in_trait\":{}", js(&tp));
                    }
                    _ => {}
                }
            }
        }
        // attributes of interest
        let _ = write!(s, ",\"argc\":{}", body.arg_count);
        // locals
        s.push_str(",\"locals\":[");
        let ldecls: Vec<Ty<'tcx>> = body.local_decls.iter().map(|l| l.ty).collect();
        for (i, t) in ldecls.iter().enumerate() {
            if i > 0 {
                s.push(',');
            }
            self.enqueue_ty(*t);
            jstr(&self.ty_str(*t), &mut s);
        }
        s.push(']');
        // debug names
        s.push_str(",\"dbg\":[");
        let mut first = true;
        for v in body.var_debug_info.iter() {
            if let rustc_middle::mir::VarDebugInfoContents::Place(p) = &v.value {
                if !first {
                    s.push(',');
                }
                first = false;
                let _ = write!(s, "[{},{}]", js(v.name.as_str()), self.place_json(body, p.as_ref()));
            }
        }
        s.push(']');
        // blocks
        s.push_str(",\"blocks\":[");
        for (bi, bbd) in body.basic_blocks.iter().enumerate() {
            if bi > 0 {
                s.push(',');
            }
            let _ = write!(s, "{{\"cl\":{},\"st\":[", bbd.is_cleanup);
            let mut firsts = true;
            for st in bbd.statements.iter() {
                let js_st = match &st.kind {
                    StatementKind::Assign(b) => {
                        let (p, rv) = &**b;
                        let (line, exp) = self.line_of(st.source_info.span);
                        Some(format!(
                            "[\"a\",{},{},{},{}]",
                            self.place_json(body, p.as_ref()),
                            self.rvalue_json(d, body, rv),
                            line,
                            exp
                        ))
                    }
                    StatementKind::SetDiscriminant { place, variant_index } => {
                        let (line, exp) = self.line_of(st.source_info.span);
                        Some(format!(
                            "[\"sd\",{},{},{},{}]",
                            self.place_json(body, (**place).as_ref()),
                            variant_index.as_usize(),
                            line,
                            exp
                        ))
                    }
                    _ => None,
                };
                if let Some(j) = js_st {
                    if !firsts {
                        s.push(',');
                    }
                    firsts = false;
                    s.push_str(&j);
                }
            }
            s.push_str("],\"t\":");
            let term = bbd.terminator();
            let (line, exp) = self.line_of(term.source_info.span);
            match &term.kind {
                TerminatorKind::Goto { target } => {
                    let _ = write!(s, "{{\"t\":\"goto\",\"tgt\":{}}}", Self::bb(*target));
                }
                TerminatorKind::SwitchInt { discr, targets } => {
                    let dty = discr.ty(body, tcx);
                    let mut vs = Vec::new();
                    for (v, t) in targets.iter() {
                        vs.push(format!("[\"{}\",{}]", v, Self::bb(t)));
                    }
                    let _ = write!(
                        s,
                        "{{\"t\":\"sw\",\"o\":{},\"ty\":{},\"v\":[{}],\"ow\":{},\"line\":{}}}",
                        self.operand_json(d, body, discr),
                        js(&self.ty_str(dty)),
                        vs.join(","),
                        Self::bb(targets.otherwise()),
                        line
                    );
                }
                TerminatorKind::UnwindResume => s.push_str("{\"t\":\"resume\"}"),
                TerminatorKind::UnwindTerminate(_) => s.push_str("{\"t\":\"terminate\"}"),
                TerminatorKind::Return => s.push_str("{\"t\":\"ret\"}"),
                TerminatorKind::Unreachable => s.push_str("{\"t\":\"unreachable\"}"),
                TerminatorKind::Drop { place, target, unwind, .. } => {
                    let _ = write!(
                        s,
                        "{{\"t\":\"drop\",\"p\":{},\"tgt\":{},\"unw\":{}}}",
                        self.place_json(body, place.as_ref()),
                        Self::bb(*target),
                        Self::unwind_json(unwind)
                    );
                }
                TerminatorKind::Call { func, args, destination, target, unwind, .. } => {
                    let fty = func.ty(body, tcx);
                    let mut fj = String::new();
                    match fty.kind() {
                        ty::FnDef(fd, fargs) => {
                            let (res, decl) = self.resolve_callee(d, *fd, fargs);
                            let full = self.def_str_args(*fd, fargs);
                            let _ = write!(fj, "{{\"r\":{},\"d\":{},\"g\":{}}}", js(&res), js(&decl), js(&full));
                        }
                        _ => {
                            let _ = write!(
                                fj,
                                "{{\"ind\":{},\"o\":{}}}",
                                js(&self.ty_str(fty)),
                                self.operand_json(d, body, func)
                            );
                        }
                    }
                    let aj: Vec<String> = args.iter().map(|a| self.operand_json(d, body, &a.node)).collect();
                    let _ = write!(
                        s,
                        "{{\"t\":\"call\",\"fn\":{},\"args\":[{}],\"dest\":{},\"tgt\":{},\"unw\":{},\"line\":{},\"exp\":{}}}",
                        fj,
                        aj.join(","),
                        self.place_json(body, destination.as_ref()),
                        match target {
                            Some(t) => format!("{}", Self::bb(*t)),
                            None => "null".into(),
                        },
                        Self::unwind_json(unwind),
                        line,
                        exp
                    );
                }
                TerminatorKind::TailCall { func, args, .. } => {
                    let fty = func.ty(body, tcx);
                    let mut fj = String::from("{}");
                    if let ty::FnDef(fd, fargs) = fty.kind() {
                        let (res, decl) = self.resolve_callee(d, *fd, fargs);
                        fj = format!("{{\"r\":{},\"d\":{},\"g\":\"\"}}", js(&res), js(&decl));
                    }
                    let aj: Vec<String> = args.iter().map(|a| self.operand_json(d, body, &a.node)).collect();
                    let _ = write!(
                        s,
                        "{{\"t\":\"tailcall\",\"fn\":{},\"args\":[{}],\"line\":{}}}",
                        fj,
                        aj.join(","),
                        line
                    );
                }
                TerminatorKind::Assert { cond, expected, msg, target, unwind } => {
                    let m = format!("{:?}", msg);
                    let kind = m.split(|c: char| !c.is_alphanumeric()).next().unwrap_or("").to_string();
                    let _ = write!(
                        s,
                        "{{\"t\":\"assert\",\"cond\":{},\"exp\":{},\"msg\":{},\"tgt\":{},\"unw\":{},\"line\":{},\"x\":{}}}",
                        self.operand_json(d, body, cond),
                        expected,
                        js(&kind),
                        Self::bb(*target),
                        Self::unwind_json(unwind),
                        line,
                        exp
                    );
                }
                TerminatorKind::FalseEdge { real_target, .. } => {
                    let _ = write!(s, "{{\"t\":\"goto\",\"tgt\":{}}}", Self::bb(*real_target));
                }
                TerminatorKind::FalseUnwind { real_target, .. } => {
                    let _ = write!(s, "{{\"t\":\"goto\",\"tgt\":{}}}", Self::bb(*real_target));
                }
                other => {
                    let _ = write!(s, "{{\"t\":\"other\",\"dbg\":{}}}", js(&format!("{:?}", other)));
                }
            }
            s.push('}');
        }
        s.push_str("]}");
        self.out.push_str(&s);
        self.out.push('\n');
    }
}
