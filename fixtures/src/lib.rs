//! Deliberate positive/negative examples for every shape the /verif primitives must recognise.
//! The engine analyses this crate on every run and must report exactly the expected verdicts
//! (rules/selfcheck.py); otherwise the run aborts as BROKEN machinery, never as a property verdict.
#![allow(dead_code, clippy::all)]
use std::cell::RefCell;
use std::collections::BTreeMap;

// ---------------------------------------------------------------- A5 pairs / matrix
pub struct Fp {
    pub w: Vec<u32>,
    pub r: Vec<u32>,
}
fn intersects(a: &Vec<u32>, b: &Vec<u32>) -> bool {
    a.iter().any(|x| b.contains(x))
}
pub fn conflict_full(a: &Fp, b: &Fp) -> bool {
    intersects(&a.w, &b.w) || intersects(&a.w, &b.r) || intersects(&b.w, &a.r)
}
pub fn conflict_missing_cell(a: &Fp, b: &Fp) -> bool {
    intersects(&a.w, &b.w) || intersects(&a.w, &b.r)
}

// ---------------------------------------------------------------- A3 coverage
pub struct Rec {
    pub id: [u8; 4],
    pub kind: u8,
    pub body: Vec<u8>,
}
pub fn sink(out: &mut Vec<u8>, bytes: &[u8]) {
    out.extend_from_slice(bytes);
}
fn tag_of(r: &Rec) -> u8 {
    r.kind
}
pub fn encode_all(r: &Rec) -> Vec<u8> {
    let mut out = Vec::new();
    sink(&mut out, &r.id);
    out.push(tag_of(r));
    sink(&mut out, &r.body);
    out
}
pub fn encode_drops_kind(r: &Rec) -> Vec<u8> {
    let mut out = Vec::new();
    sink(&mut out, &r.id);
    sink(&mut out, &r.body);
    out
}

// ---------------------------------------------------------------- A6 match totality
pub enum Op {
    A,
    B(u8),
    C,
}
pub fn total(op: &Op) -> u8 {
    match op {
        Op::A => 1,
        Op::B(x) => *x,
        Op::C => 3,
    }
}
pub fn wildcard(op: &Op) -> u8 {
    match op {
        Op::A => 1,
        _ => 0,
    }
}
pub enum Tag {
    X,
    Y,
}
impl Tag {
    pub fn code(&self) -> u8 {
        match self {
            Tag::X => 1,
            Tag::Y => 2,
        }
    }
    pub fn from_code(c: u8) -> Option<Tag> {
        match c {
            1 => Some(Tag::X),
            2 => Some(Tag::Y),
            _ => None,
        }
    }
}

// ---------------------------------------------------------------- A1 rollback / must-pass, A4 frame
pub struct St {
    pub a: u32,
    pub b: u32,
    pub log: Vec<u32>,
}
#[derive(Debug)]
pub struct E;
fn step(x: u32) -> Result<u32, E> {
    if x > 10 {
        Err(E)
    } else {
        Ok(x + 1)
    }
}
impl St {
    fn restore(&mut self, a: u32) {
        self.a = a;
    }
    pub fn rollback_ok(&mut self, x: u32) -> Result<u32, E> {
        let before = self.a;
        self.a = x;
        match step(x) {
            Ok(v) => Ok(v),
            Err(e) => {
                self.restore(before);
                Err(e)
            }
        }
    }
    pub fn rollback_skipped(&mut self, x: u32) -> Result<u32, E> {
        let before = self.a;
        self.a = x;
        self.b = x; // frame violation: restore never writes b
        let v = step(x)?; // error return that avoids restore
        if v == 3 {
            self.restore(before);
        }
        Ok(v)
    }
}

// ---------------------------------------------------------------- A2 guards
#[derive(Debug, PartialEq)]
pub enum GErr {
    Mismatch,
    TooBig,
}
pub struct Hdr {
    pub expected: u32,
    pub len: u32,
}
fn compute(x: &[u8]) -> u32 {
    x.len() as u32
}
pub fn guard_gates(h: &Hdr, data: &[u8]) -> Result<(), GErr> {
    if compute(data) != h.expected {
        return Err(GErr::Mismatch);
    }
    Ok(())
}
pub fn guard_wrong_operands(h: &Hdr, data: &[u8]) -> Result<(), GErr> {
    if h.expected != h.expected {
        return Err(GErr::Mismatch);
    }
    let _ = compute(data);
    Ok(())
}
pub fn guard_not_gating(h: &Hdr, data: &[u8]) -> Result<(), GErr> {
    let bad = compute(data) != h.expected;
    if bad && false {
        return Err(GErr::Mismatch);
    }
    if h.len > 100 {
        return Err(GErr::Mismatch);
    }
    Ok(())
}

// ---------------------------------------------------------------- A8 interior mutability
pub struct Plain {
    pub m: BTreeMap<u32, Vec<u8>>,
}
pub struct WithCell {
    pub m: BTreeMap<u32, Vec<u8>>,
    pub c: RefCell<u32>,
}

// ---------------------------------------------------------------- error discipline
fn fallible() -> Result<u32, E> {
    Ok(1)
}
pub fn result_propagated() -> Result<u32, E> {
    let v = fallible()?;
    Ok(v)
}
pub fn result_dropped() -> u32 {
    let _ = fallible();
    0
}
pub fn result_dropped_via_ok() -> u32 {
    fallible().ok();
    0
}

// ---------------------------------------------------------------- C13 shapes
fn read_len(bytes: &[u8], idx: &mut usize) -> Result<u64, E> {
    let v = *bytes.get(*idx).ok_or(E)? as u64;
    *idx += 1;
    Ok(v)
}
fn need(bytes: &[u8], idx: usize, n: usize) -> Result<(), E> {
    if bytes.len().saturating_sub(idx) < n {
        Err(E)
    } else {
        Ok(())
    }
}
pub fn decode_unbounded(bytes: &[u8]) -> Result<Vec<u8>, E> {
    let mut idx = 0;
    let n = read_len(bytes, &mut idx)? as usize;
    let out = Vec::with_capacity(n);
    Ok(out)
}
pub fn decode_bounded_compare(bytes: &[u8]) -> Result<Vec<u8>, E> {
    let mut idx = 0;
    let n = read_len(bytes, &mut idx)? as usize;
    if n > bytes.len() {
        return Err(E);
    }
    let out = Vec::with_capacity(n);
    Ok(out)
}
pub fn decode_bounded_helper(bytes: &[u8]) -> Result<Vec<u8>, E> {
    let mut idx = 0;
    let n = read_len(bytes, &mut idx)? as usize;
    need(bytes, idx, n)?;
    let out = Vec::with_capacity(n);
    Ok(out)
}
pub fn parse_rec_unbudgeted(bytes: &[u8], idx: &mut usize) -> Result<u32, E> {
    let b = *bytes.get(*idx).ok_or(E)?;
    *idx += 1;
    if b == 0x81 {
        return parse_rec_unbudgeted(bytes, idx);
    }
    Ok(b as u32)
}
pub fn parse_rec_budgeted(bytes: &[u8], idx: &mut usize, depth: usize) -> Result<u32, E> {
    if depth >= 16 {
        return Err(E);
    }
    let b = *bytes.get(*idx).ok_or(E)?;
    *idx += 1;
    if b == 0x81 {
        return parse_rec_budgeted(bytes, idx, depth + 1);
    }
    Ok(b as u32)
}

// ---------------------------------------------------------------- advance only after durable append
pub struct Wal {
    pub next: u32,
    pub store: Vec<u32>,
}
fn append(store: &mut Vec<u32>, v: u32) -> Result<(), E> {
    if v == 99 {
        return Err(E);
    }
    store.push(v);
    Ok(())
}
impl Wal {
    pub fn advance_after(&mut self, v: u32) -> Result<(), E> {
        append(&mut self.store, v)?;
        self.next = v + 1;
        Ok(())
    }
    pub fn advance_before(&mut self, v: u32) -> Result<(), E> {
        self.next = v + 1;
        append(&mut self.store, v)?;
        Ok(())
    }
}

// ---------------------------------------------------------------- A12 linear forms
#[derive(Clone, Copy, PartialEq, Eq, PartialOrd, Ord)]
pub struct Tk(u64);
impl Tk {
    pub fn as_u64(self) -> u64 {
        self.0
    }
    pub fn checked_add(self, rhs: u64) -> Option<Self> {
        self.0.checked_add(rhs).map(Self)
    }
    pub fn checked_increment(self) -> Option<Self> {
        self.checked_add(1)
    }
}
pub struct Ck {
    pub tick: Tk,
}
/// keeps `tick <= at + 1` expressed through the newtype helper and a captured bound
pub fn keep_le_plus_one(cks: &[Ck], at: Tk) -> usize {
    let bound = at.checked_increment().unwrap_or(Tk(u64::MAX));
    cks.iter().filter(|c| c.tick <= bound).count()
}
/// the same bound written as a strict comparison on raw integers
pub fn keep_lt_plus_two(cks: &[Ck], at: Tk) -> usize {
    let end = at.as_u64() as usize + 1;
    cks.iter().filter(|c| c.tick.as_u64() < (end as u64).saturating_add(1)).count()
}
/// an off-by-one: `tick - 1 <= at + 1`
pub fn keep_le_plus_two(cks: &[Ck], at: Tk) -> usize {
    let end = at.as_u64() + 1;
    cks.iter().filter(|c| c.tick.as_u64().saturating_sub(1) <= end).count()
}

// ------------------------------------------------------------------ round 2 primitives

/// closed tag dispatch: unlisted tags reach only an error
pub fn tag_closed(tag: u8) -> Result<Option<u32>, E> {
    match tag {
        0 => Ok(None),
        1 => Ok(Some(7)),
        _ => Err(E),
    }
}

/// open tag dispatch: every non-zero tag is accepted
pub fn tag_open(tag: u8) -> Result<Option<u32>, E> {
    if tag == 0 {
        return Ok(None);
    }
    Ok(Some(7))
}

/// closed, written as an if-chain
pub fn tag_closed_chain(tag: u8) -> Result<Option<u32>, E> {
    if tag == 0 {
        Ok(None)
    } else if tag == 1 {
        Ok(Some(7))
    } else {
        Err(E)
    }
}

/// a fold that consumes every operand
pub fn fold_all(xs: &[u32]) -> u32 {
    let mut acc = 0u32;
    for x in xs {
        acc |= *x;
    }
    acc
}

/// a fold that leaves early
pub fn fold_early_exit(xs: &[u32]) -> u32 {
    let mut acc = u32::MAX;
    for x in xs {
        acc &= *x;
        if acc == 0 {
            break;
        }
    }
    acc
}

/// rejection relation `!=` (and its equivalent spellings)
pub fn rel_ne(h: &Hdr, data: &[u8]) -> Result<(), GErr> {
    if compute(data) != h.expected {
        return Err(GErr::Mismatch);
    }
    Ok(())
}

pub fn rel_ne_negated_eq(h: &Hdr, data: &[u8]) -> Result<(), GErr> {
    if !(compute(data) == h.expected) {
        return Err(GErr::Mismatch);
    }
    Ok(())
}

/// weakened: only a smaller value is rejected
pub fn rel_lt(h: &Hdr, data: &[u8]) -> Result<(), GErr> {
    if compute(data) < h.expected {
        return Err(GErr::Mismatch);
    }
    Ok(())
}

/// the gate only runs when another field says so
pub fn rel_conditional(h: &Hdr, data: &[u8]) -> Result<(), GErr> {
    if h.len == 3 {
        if compute(data) != h.expected {
            return Err(GErr::Mismatch);
        }
    }
    Ok(())
}

fn extracted_check(expected: u32, data: &[u8]) -> Result<(), GErr> {
    if compute(data) != expected {
        return Err(GErr::Mismatch);
    }
    Ok(())
}

/// the same gate as `rel_ne`, moved into a helper and called from a closure
pub fn rel_ne_in_helper(h: &Hdr, chunks: &[&[u8]]) -> Result<(), GErr> {
    chunks.iter().try_for_each(|c| extracted_check(h.expected, c))?;
    Ok(())
}

/// zip-driven comparison without / with a length gate
pub fn zip_no_length_gate(a: &[u32], b: &[u32]) -> Result<(), GErr> {
    for (x, y) in a.iter().zip(b) {
        if x != y {
            return Err(GErr::Mismatch);
        }
    }
    Ok(())
}

pub fn zip_with_length_gate(a: &[u32], b: &[u32]) -> Result<(), GErr> {
    if a.len() != b.len() {
        return Err(GErr::Mismatch);
    }
    for (x, y) in a.iter().zip(b) {
        if x != y {
            return Err(GErr::Mismatch);
        }
    }
    Ok(())
}

/// a validator that narrows its sequence by a computed amount / only by a constant
pub fn validates_computed_suffix(a: &[u32], b: &[u32], done: usize) -> Result<(), GErr> {
    if a.len() != b.len() {
        return Err(GErr::Mismatch);
    }
    for (i, x) in a.iter().enumerate().skip(done) {
        if *x != b[i] {
            return Err(GErr::Mismatch);
        }
    }
    Ok(())
}

pub fn validates_computed_slice(a: &[u32], done: usize) -> Result<(), GErr> {
    for x in &a[done..] {
        if *x == 0 {
            return Err(GErr::Mismatch);
        }
    }
    Ok(())
}

pub fn validates_adjacent_pairs(a: &[u32]) -> Result<(), GErr> {
    for (x, y) in a.iter().zip(a.iter().skip(1)) {
        if x >= y {
            return Err(GErr::Mismatch);
        }
    }
    Ok(())
}

/// `x.ok_or(e)?` is the same absence edge as `let Some(x) = .. else { return Err(e) }`
pub fn presence_via_ok_or(m: &std::collections::BTreeMap<u32, u32>, k: u32, out: &mut Vec<u32>) -> Result<(), E> {
    let v = m.get(&k).ok_or(E)?;
    out.push(*v);
    Ok(())
}
