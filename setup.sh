#!/bin/sh
# Build the fact exporter and warm the fact cache (offline).
set -e
cd "$(dirname "$0")"
export CARGO_NET_OFFLINE=true
(cd driver && cargo build --offline 2>&1 | tail -2)
python3 -c "
from rules import facts as F
F.ensure_facts('trusted', verbose=True)
F.ensure_fixture_facts()
"
echo setup-ok
